#!/usr/bin/env python3
"""Statement-level translation of `DomainS.__init__` (dsdobjects/base_classes.py) into Lean 4 (`Gen/PyMembers2.lean`).

    /venv/bin/python translator/pymembers2.py <repo>  > lean/DsdVerif/Gen/PyMembers2.lean

`py_DomainS_init_full PREFIX SHORT_DOM_LEN LONG_DOM_LEN name length prefix_ dtype`: the whole body, STATEMENT BY STATEMENT - the automatic name
(`prefix`, else `cls.PREFIX`, followed by `cls.ID`; `cls.ID += 1`), the default length by `dtype`, the three attribute assignments.  An extension of
translator/pymethod.py (`DomInitTx(MethodTx)`): same rules, same refusal policy (`Shape`; a refused method becomes a raising stub and is reported under
`untranslated`); nothing about what `__init__` is supposed to do is known here.

Reading of Python ADDED here (as in translator/pycomplex3.py and translator/pydomain.py, which reads the same expressions in `identifiers`):

  state       `DomainS2.St`: the attributes of the NEW object (`_name : String`, `_length : Option Nat` - `None` or a non-negative int -, `sequence`,
              which is only ever assigned `None`) and the class attribute that is written, `cls_ID : Nat`.  The class constants that are only READ
              (`PREFIX`, `SHORT_DOM_LEN`, `LONG_DOM_LEN`: checked to be assigned once, by a constant, in the class body) are PARAMETERS, as in
              Gen/PyDomain.lean; subclasses set other values.  A method is a computation in `Py.MS DomainS2.St`.
  self.__class__.X   `X` a constant parameter, or `ID`: `(← get).cls_ID`; `self.__class__.ID += 1`: `modify fun s => { s with cls_ID := s.cls_ID + 1 }`
  f'{a}'      pyfunc.py's rule (a str: itself); `f'{a}{b}'`: the concatenation of `str(x)` of the fields: a str itself, an int `toString` (decimal); a
              `None`-able str that is a rebound parameter is needed as a str: `(← Py.unwrap …)` - TypeError where CPython would write "None": the
              typing deviation of translator/pydomain.py, unreachable here (the field is assigned a str just before)
  x == 'lit'  for a `None`-able str `x`: `(x == some "lit")` (`None == 'short'` is False)
  parameters  `name`, `length`, `prefix` are rebound (locals initialised from the parameters); `prefix` is written `prefix_` (a keyword of Lean)
"""
import ast, copy, os, sys
sys.path.insert(0, os.path.dirname(os.path.abspath(__file__)))
from pyfunc import FuncTx, Shape, NAT, STR, BOOL, O, ty, ident, check_signature, definite_assignment, builtins_unshadowed
from pymethod import MethodTx, PATH, find_class, without_self, is_self

UNIT = 'Unit'
ATTRS_I = [('_name', STR), ('_length', O(NAT)), ('sequence', O(UNIT))]
CONSTS = [('PREFIX', STR, str), ('SHORT_DOM_LEN', NAT, int), ('LONG_DOM_LEN', NAT, int)]
INIT = dict(name='DomainS_init_full', lean='DomainS_init_full', lean_full='DomainS_init_full', path=PATH,
            params=[('name', O(STR)), ('length', O(NAT)), ('prefix', O(STR)), ('dtype', O(STR))], locals={}, ret='Unit')


def class_attr(node):
    if isinstance(node, ast.Attribute) and isinstance(node.value, ast.Attribute) and is_self(node.value.value) and node.value.attr == '__class__':
        return node.attr
    return None


class DomInitTx(MethodTx):
    M = 'DomainS2.M'

    def __init__(self, spec, fn):
        consts = [(n, t) for n, t, _ in CONSTS]
        for n, _ in consts:
            if any((isinstance(m, ast.Name) and m.id == n) or (isinstance(m, ast.arg) and m.arg == n) for m in ast.walk(fn)):
                raise Shape('%s: the name %s is used by the translation' % (spec['name'], n))
        FuncTx.__init__(self, dict(spec, params=consts + list(spec['params'])), fn, specs={})
        self.methods, self.attrs, self.exc, self.fresh_attrs, self.ntmp = {}, dict(ATTRS_I), {}, set(), 0
        for n in ast.walk(fn):
            if is_self(n) and not isinstance(n.ctx, ast.Load):
                raise Shape('%s: self is assigned' % self.name)

    def ex(self, node, expect=None):
        a = class_attr(node)
        if a is not None:
            if a == 'ID':
                return '(← get).cls_ID', NAT
            for n, t, _ in CONSTS:
                if a == n:
                    return n, t
            raise Shape('%s: class attribute %s' % (self.name, a))
        if isinstance(node, ast.JoinedStr) and len(node.values) >= 2:
            parts = []
            for x in node.values:
                if not (isinstance(x, ast.FormattedValue) and x.conversion == -1 and x.format_spec is None):
                    raise Shape('%s: f-string shape: %s' % (self.name, ast.unparse(node)[:60]))
                c, t = self.ex(x.value)
                if t == O(STR) and isinstance(x.value, ast.Name) and x.value.id in self.rebound:
                    c, t = '(← Py.unwrap %s)' % c, STR
                if t == STR:
                    parts.append(c)
                elif t == NAT:
                    parts.append('(toString %s)' % c)
                else:
                    raise Shape('%s: f-string field of type %s' % (self.name, ty(t)))
            return '(' + ' ++ '.join(parts) + ')', STR
        if isinstance(node, ast.Compare) and len(node.ops) == 1 and isinstance(node.ops[0], ast.Eq) \
                and isinstance(node.comparators[0], ast.Constant) and isinstance(node.comparators[0].value, str):
            a, ta = self.ex(node.left)
            if ta == O(STR):
                return '(%s == some %s)' % (a, self.lit(node.comparators[0], STR)[0]), BOOL
        return super().ex(node, expect)

    def stmt(self, st, out, ind, inloop):
        if isinstance(st, ast.AugAssign) and isinstance(st.op, ast.Add) and class_attr(st.target) == 'ID' \
                and isinstance(st.value, ast.Constant) and type(st.value.value) is int and st.value.value >= 0:
            out.append(ind + 'modify (fun s => { s with cls_ID := s.cls_ID + %d })      -- %s' % (st.value.value, ast.unparse(st)))
            return
        return super().stmt(st, out, ind, inloop)


def check_consts(cls):
    for name, _, pytype in CONSTS + [('ID', NAT, int)]:
        asg = [n for n in cls.body if isinstance(n, ast.Assign) and len(n.targets) == 1 and isinstance(n.targets[0], ast.Name) and n.targets[0].id == name]
        if len(asg) != 1 or not isinstance(asg[0].value, ast.Constant) or type(asg[0].value.value) is not pytype:
            raise Shape('%s.%s is not assigned once, by a constant, in the class body' % (cls.name, name))


def gen_pymembers2(repo):
    out = ['/- GENERATED by translator/pymembers2.py from the Python source — do not edit. -/',
           'import DsdVerif.Model.PyPrelude', '', 'set_option linter.unusedVariables false', '', 'namespace Dsd.Gen', 'open Dsd', '']
    tree = ast.parse(open(os.path.join(repo, PATH)).read())
    builtins_unshadowed(tree, {'isinstance', 'len', 'str'})
    cls = find_class(tree, 'DomainS')
    out.append('/-- the attributes of a new `DomainS` object and the class attribute `ID` that `__init__` writes -/')
    out.append('structure DomainS2.St where\n  cls_ID : Nat\n' + '\n'.join('  %s : %s' % (a, ty(t)) for a, t in ATTRS_I) + '\nderiving Repr, DecidableEq\n')
    out.append('abbrev DomainS2.M := Py.MS DomainS2.St\n')
    ren = lambda q: 'prefix_' if q == 'prefix' else q
    summary, untranslated, fn, tx = {}, {}, None, None
    try:
        check_consts(cls)
        fns = [n for n in cls.body if isinstance(n, ast.FunctionDef) and n.name == '__init__']
        if len(fns) != 1 or fns[0].decorator_list:
            raise Shape('DomainS.__init__ not found exactly once')
        fn = fns[0]
        fn2 = copy.deepcopy(without_self(fn))
        check_signature(fn2, INIT)
        definite_assignment(fn2, [p for p, _ in INIT['params']] + ['self'], INIT['name'])
        if any(isinstance(n, (ast.Name, ast.arg)) and getattr(n, 'id', getattr(n, 'arg', None)) == 'prefix_' for n in ast.walk(fn2)):
            raise Shape('the name prefix_ is used by the translation')
        for n in ast.walk(fn2):
            if isinstance(n, ast.Name) and n.id == 'prefix':
                n.id = 'prefix_'
            elif isinstance(n, ast.arg) and n.arg == 'prefix':
                n.arg = 'prefix_'
        tx = DomInitTx(dict(INIT, params=[(ren(q), t) for q, t in INIT['params']]), fn2)
        text = tx.run()
        init = ', '.join('%s := %s' % (ident(p), ident(p)) for p in tx.rebound)
        text = text.replace('let mut v : %s.Vars := {  }' % INIT['name'], 'let mut v : %s.Vars := { %s }' % (INIT['name'], init))
        stores = {n.attr for n in ast.walk(fn) if isinstance(n, ast.Attribute) and is_self(n.value) and not isinstance(n.ctx, ast.Load)}
        if stores != {a for a, _ in ATTRS_I}:
            raise Shape('__init__ assigns %s, the stub declares %s' % (sorted(stores), sorted(a for a, _ in ATTRS_I)))
    except Shape as e:
        untranslated[INIT['name']] = str(e)
        sig = ' '.join('(%s : %s)' % (ident(ren(q)), ty(t)) for q, t in [(n, t) for n, t, _ in CONSTS] + INIT['params'])
        text = ('/-- `%s` (%s) could NOT be translated: %s -/\n' % (INIT['name'], PATH, str(e).replace('-/', '- /')) +
                'def py_%s %s : DomainS2.M Unit := throw (Err.fault "untranslated")\n' % (INIT['name'], sig))
    out.append(text)
    out.append('end Dsd.Gen')
    summary[INIT['name']] = {'statements': (sum(1 for _ in ast.walk(fn) if isinstance(_, ast.stmt)) - 1) if fn else 0, 'loops': 0,
                             'source_lines': (fn.end_lineno - fn.lineno + 1) if fn else 0}
    if untranslated:
        summary['untranslated'] = untranslated
    return '\n'.join(out) + '\n', summary


if __name__ == '__main__':
    text, summ = gen_pymembers2(sys.argv[1])
    sys.stdout.write(text)
    sys.stderr.write(repr(summ) + '\n')
