#!/usr/bin/env python3
"""Statement-level translation of the METHODS of `ComplexS` (dsdobjects/base_classes.py) into Lean 4 (`Gen/PyComplexS.lean`).

    python3 translator/pymethod.py <repo>  > lean/DsdVerif/Gen/PyComplexS.lean

An extension of translator/pyfunc.py (same rules, same refusal policy: a statement that has none of the accepted shapes raises
`Shape` and the tie is reported broken).  What is added here is the reading of `self`:

  object      the part of a `ComplexS` instance that the translated methods read or write is the record `ComplexS.Self`: one field per
              attribute listed in ATTRS with its declared type (`None`-able attributes are `Option`s).  The attributes are the ones
              assigned in `__init__`; `py_ComplexS_init` is read off `__init__`: every ATTRS attribute must be assigned there exactly
              once, at the top level of the body, either a parameter of `__init__` or `None` (checked).
  monad       a method is a computation in `ComplexS.M = Py.MS ComplexS.Self = ExceptT Err (StateM ComplexS.Self)`: the object is the
              STATE, an exception does not undo the attribute assignments made before it (as in Python: a view that fails half way
              leaves what it already stored).  Calls of the translated functions of complex_utils.py (`Py.M = Except Err`) are
              lifted by the standard `MonadLift (Except ε) (ExceptT ε m)`.
  self.a      read: `(← get).a`;  `self.a = e`: `modify fun s => { s with a := e' }` (after `e` has been evaluated);
              `self.a, self.b = e`: `e` evaluated once, then both assigned; `self.a.append(e)`: TypeError-free only if `a` is not
              None (`Py.unwrap`), then the attribute is replaced by the extended list.  Lists are VALUES here: the translation is
              exact as long as no list stored in an attribute is mutated through another reference - checked syntactically: the
              only in-place operation on an attribute is `self.a.append(…)` in the method that assigned `self.a = []` before,
              and no translated method mutates a value it obtained from an attribute or from another method.
  self.m / self.m(args)   a property / method translated before (stub `uses`): `(← py_ComplexS_m args)`.  A generator method is
              read as the list of what it yields (rule "generators" of pyfunc.py); it may be used as the iterable of a `for`,
              under `enumerate(…)`, under `list(…)`, or as the argument of a translated function that iterates that parameter
              exactly once (checked: `make_loop_index(self.pair_table)`).  Name-mangled private properties (`self.__x`) are the
              properties `__x` of the class itself (the methods are translated for `ComplexS`, not for subclasses overriding them).
  iter(l)     only as `return iter(self.a)` of a property whose translated callers consume it at once with `list(…)`: `l`.
  try         `try: B except SecondaryStructureError [as e]: H`: `try B catch e => match e with | .secondaryStructure => H | e => throw e`
              in the state monad: the attribute assignments of `B` persist (as in Python); `B` must not assign locals.
  raise       `ObjectInitError` -> `Err.objectInit`, `IndexError` -> `Err.fault "IndexError"`, `SecondaryStructureError`.
  int         `turns` and the value assigned to it are Python ints of either sign: `Int` in Lean (`-x`, `+`, floored `%` as
              `Py.imod`, ZeroDivisionError for 0); a non-negative int is coerced where an `Int` is needed, never the other way.

Not translated (DESIGN.md section 9): `__init__` beyond the attribute initialisation, `identifiers`, `split`, `domains`,
`concentration*`, `is_domainlevel_complement` (domain objects, class registries), the dunder methods (Gen/Dunders.lean).
"""
import ast, copy, os, sys
sys.path.insert(0, os.path.dirname(os.path.abspath(__file__)))
from pyfunc import (FuncTx, Shape, NAT, INT, CHAR, STR, BOOL, TEXT, L, O, P, LOC, PTAB, STAB, ty, ident, FUNCS, translate,
                    check_signature, definite_assignment, imported_from, builtins_unshadowed, find_function, lean_name)

PATH = 'dsdobjects/base_classes.py'
CLS = 'ComplexS'

# the attributes of a ComplexS object that the translated methods touch, with their types
ATTRS = [
    ('_sequence', L(STR)), ('_structure', L(CHAR)), ('_name', STR), ('_turns', INT),
    ('_strand_table', O(STAB)), ('_pair_table', O(PTAB)),
    ('_loop_index', O(L(L(NAT)))), ('_exterior_loops', O(L(NAT))),
    ('_exterior_domains', O(L(LOC))), ('_enclosed_domains', O(L(LOC))),
]
INIT_PARAMS = {'_sequence': 'sequence', '_structure': 'structure', '_name': 'name', '_turns': 'turns'}

EXC = {'SecondaryStructureError': 'Err.secondaryStructure', 'ObjectInitError': 'Err.objectInit', 'IndexError': '(Err.fault "IndexError")'}

ROT = P(L(STR), L(CHAR))

# typing stubs: (python name, kind) -> Lean name `py_ComplexS_<lean>`
METHODS = [
    dict(method='sequence', kind='getter', lean='sequence', params=[], locals={}, ret=L(STR), iter_ok=True),
    dict(method='structure', kind='getter', lean='structure', params=[], locals={}, ret=L(CHAR), iter_ok=True),
    dict(method='turns', kind='getter', lean='turns', params=[], locals={}, ret=INT),
    dict(method='name', kind='getter', lean='name', params=[], locals={}, ret=STR),
    dict(method='__strand_table', kind='getter', lean='p_strand_table', params=[], locals={}, ret=O(STAB),
         callees=[('make_strand_table', 'make_strand_table_list')]),
    dict(method='__pair_table', kind='getter', lean='p_pair_table', params=[], locals={}, ret=O(PTAB), callees=['make_pair_table']),
    dict(method='strand_table', kind='getter', lean='strand_table', params=[], locals={}, generator=L(STR), ret=STAB,
         callees=[('make_strand_table', 'make_strand_table_list')]),
    dict(method='pair_table', kind='getter', lean='pair_table', params=[], locals={}, generator=L(O(LOC)), ret=PTAB,
         callees=['make_pair_table']),
    dict(method='__loop_index', kind='getter', lean='p_loop_index', params=[], locals={}, ret=O(L(L(NAT))),
         callees=['make_loop_index'], uses=['pair_table']),
    dict(method='size', kind='getter', lean='size', params=[], locals={}, ret=NAT, uses=['__strand_table']),
    dict(method='rotate', kind='method', lean='rotate', params=[('turns', O(NAT))], locals={'x': L(STR), 'y': L(CHAR)},
         generator=ROT, ret=L(ROT), callees=['rotate_complex_once'], uses=['size', 'sequence', 'structure']),
    dict(method='rotate_pt', kind='method', lean='rotate_pt', params=[('turns', O(NAT))], locals={},
         generator=P(STAB, PTAB), ret=L(P(STAB, PTAB)),
         callees=[('make_strand_table', 'make_strand_table_list'), 'make_pair_table'], uses=['rotate']),
    dict(method='turns', kind='setter', lean='set_turns', params=[('value', INT)], locals={'tot': NAT, 't': INT}, ret='Unit',
         callees=[('wrap', 'wrap_int')], uses=['size', 'rotate']),
    dict(method='strand_length', kind='method', lean='strand_length', params=[('pos', NAT)], locals={}, ret=NAT, uses=['__strand_table']),
    dict(method='get_loop_index', kind='method', lean='get_loop_index', params=[('loc', LOC)], locals={}, ret=NAT, uses=['__loop_index']),
    dict(method='get_domain', kind='method', lean='get_domain', params=[('loc', LOC)], locals={}, ret=STR, uses=['__strand_table']),
    dict(method='get_paired_loc', kind='method', lean='get_paired_loc', params=[('loc', LOC)], locals={}, ret=O(LOC), uses=['__pair_table']),
    dict(method='exterior_domains', kind='getter', lean='exterior_domains', params=[], locals={}, ret=O(L(LOC)), uses=['__loop_index']),
    dict(method='enclosed_domains', kind='getter', lean='enclosed_domains', params=[], locals={}, ret=O(L(LOC)), uses=['exterior_domains']),
    dict(method='is_connected', kind='getter', lean='is_connected', params=[], locals={}, ret=BOOL, uses=['__loop_index']),
    dict(method='kernel_string', kind='getter', lean='kernel_string', params=[], locals={'seq': L(STR), 'sst': L(CHAR), 'knl': TEXT}, ret=TEXT),
]

WRAP_INT = dict(path='dsdobjects/complex_utils.py', name='wrap', inst='wrap_int', params=[('x', INT), ('m', INT)], locals={}, ret=INT)


def find_class(tree, name):
    c = [n for n in tree.body if isinstance(n, ast.ClassDef) and n.name == name]
    if len(c) != 1:
        raise Shape('class %s not found exactly once' % name)
    return c[0]


def find_method(cls, name, kind):
    """the definition of `name` in the class body: a plain method, a `@property` getter or a `@name.setter`"""
    found = []
    for n in cls.body:
        if not (isinstance(n, ast.FunctionDef) and n.name == name):
            continue
        decs = [ast.unparse(d) for d in n.decorator_list]
        k = 'getter' if decs == ['property'] else 'setter' if decs == ['%s.setter' % name] else 'method' if not decs else None
        if k is None:
            raise Shape('%s.%s: decorators %s' % (cls.name, name, decs))
        if k == kind:
            found.append(n)
    if len(found) != 1:
        raise Shape('%s.%s (%s) not found exactly once' % (cls.name, name, kind))
    # a later definition of the same name (other than the setter of a property) would replace it
    later = [n for n in cls.body if isinstance(n, (ast.FunctionDef, ast.ClassDef)) and n.name == name]
    if kind == 'method' and len(later) != 1:
        raise Shape('%s.%s is defined more than once' % (cls.name, name))
    if any(isinstance(n, ast.Assign) and any(isinstance(t, ast.Name) and t.id == name for t in n.targets) for n in cls.body):
        raise Shape('%s.%s is rebound by an assignment in the class body' % (cls.name, name))
    return found[0]


def without_self(fn):
    if not fn.args.args or fn.args.args[0].arg != 'self':
        raise Shape('%s: first parameter is not self' % fn.name)
    g = copy.copy(fn)
    g.args = copy.copy(fn.args)
    g.args.args = fn.args.args[1:]
    return g


def is_self(node):
    return isinstance(node, ast.Name) and node.id == 'self'


class MethodTx(FuncTx):
    M = 'ComplexS.M'

    def __init__(self, spec, fn, specs, methods):
        super().__init__(spec, fn, specs=specs)
        self.methods = methods                       # python method name -> stub of a method translated before (only `uses`)
        self.attrs = dict(ATTRS)
        self.exc = EXC
        self.fresh_attrs = set()                     # attributes assigned `[]` in this method (may be appended to)
        self.ntmp = 0
        if 'self' in self.locals or 'self' in self.params:
            raise Shape('%s: self is a declared variable' % self.name)
        for n in ast.walk(fn):
            if is_self(n) and not isinstance(n.ctx, ast.Load):
                raise Shape('%s: self is assigned' % self.name)
        # every occurrence of `self` is `self.<attribute>`
        attr_bases = {id(n.value) for n in ast.walk(fn) if isinstance(n, ast.Attribute)}
        for n in ast.walk(fn):
            if is_self(n) and id(n) not in attr_bases:
                raise Shape('%s: self is used other than as self.<attribute>' % self.name)

    # ---- expressions -----------------------------------------------------------------------------------------------
    def pure(self, code):
        if '←' in code.replace('(← get)', ''):
            raise Shape('%s: a fallible sub-expression under and / or / a conditional expression: %s' % (self.name, code))
        return code

    def method_call(self, name, args, keywords, as_value=True):
        if name not in self.methods:
            raise Shape('%s: self.%s is not an attribute or a method translated before (stub `uses`)' % (self.name, name))
        m = self.methods[name]
        names = [q for q, _ in m['params']]
        given = dict(zip(names, args))
        if len(args) > len(names):
            raise Shape('%s: too many arguments for self.%s' % (self.name, name))
        for kw in keywords:
            if kw.arg is None or kw.arg not in names or kw.arg in given:
                raise Shape('%s: keyword argument of self.%s' % (self.name, name))
            given[kw.arg] = kw.value
        out = []
        for q, tq in m['params']:
            if q in given:
                c, tc = self.ex(given[q], tq)
                out.append(self.need(c, tc, tq))
            else:
                out.append(self.default_value(dict(m, name=name), q, tq)[0])
        if any('←' in a.replace('(← get)', '') for a in out) and len(out) > 1:
            raise Shape('%s: fallible arguments of self.%s' % (self.name, name))
        return '(← py_ComplexS_%s%s)' % (m['lean'], ''.join(' ' + a for a in out)), m['ret']

    def ex(self, node, expect=None):
        if isinstance(node, ast.Attribute) and is_self(node.value):
            a = node.attr
            if a in self.attrs:
                return '(← get).%s' % a, self.attrs[a]
            m = self.methods.get(a)
            if m is None or m['kind'] != 'getter':
                raise Shape('%s: self.%s is neither a declared attribute nor a property translated before' % (self.name, a))
            return self.method_call(a, [], [])
        if isinstance(node, ast.Call) and isinstance(node.func, ast.Attribute) and is_self(node.func.value):
            m = self.methods.get(node.func.attr)
            if m is None or m['kind'] != 'method':
                raise Shape('%s: self.%s(…) is not a method translated before' % (self.name, node.func.attr))
            return self.method_call(node.func.attr, node.args, node.keywords)
        if isinstance(node, ast.Call) and isinstance(node.func, ast.Name) and node.func.id == 'iter' and len(node.args) == 1 \
                and not node.keywords:
            if not self.spec.get('iter_ok'):
                raise Shape('%s: iter(…)' % self.name)
            return self.ex(node.args[0], expect)
        return super().ex(node, expect)

    def call(self, node, as_iter=False):
        # a generator property passed to a translated function: that function must iterate the parameter exactly once
        f = node.func.id
        if f in self.specs:
            cspec = self.specs[f]
            names = [q for q, _ in cspec['params']]
            for q, a in list(zip(names, node.args)) + [(kw.arg, kw.value) for kw in node.keywords]:
                if isinstance(a, ast.Attribute) and is_self(a.value) and self.methods.get(a.attr, {}).get('generator') is not None:
                    uses = [n for n in ast.walk(cspec['_fn']) if isinstance(n, ast.Name) and n.id == q]
                    if len(uses) != 1:
                        raise Shape('%s: the generator self.%s is passed to %s, which uses it %d times' % (self.name, a.attr, f, len(uses)))
        return super().call(node, as_iter)

    def iter_ex(self, node):
        c, t = super().iter_ex(node)
        if isinstance(t, tuple) and t[0] == 'Option' and isinstance(t[1], tuple) and t[1][0] == 'List':
            return '(← Py.unwrap %s)' % c, t[1]            # iterating None is a TypeError
        return c, t

    # ---- statements ------------------------------------------------------------------------------------------------
    def set_attr(self, a, code, out, ind, comment=''):
        out.append(ind + 'modify (fun s => { s with %s := %s })%s' % (a, code, comment))

    def tmp(self, code, out, ind):
        """evaluate `code` now, under a fresh name"""
        self.ntmp += 1
        n = 'a%d' % self.ntmp
        out.append(ind + 'let %s := %s' % (n, code))
        return n

    def stmt(self, st, out, ind, inloop):
        # self.a = e
        if isinstance(st, ast.Assign) and len(st.targets) == 1 and isinstance(st.targets[0], ast.Attribute) and is_self(st.targets[0].value):
            a = st.targets[0].attr
            if a not in self.attrs:
                raise Shape('%s: assignment to the undeclared attribute self.%s' % (self.name, a))
            t = self.attrs[a]
            c, tc = self.ex(st.value, t if not (t[0] == 'Option' and not (isinstance(st.value, ast.Constant) and st.value.value is None)) else t[1])
            if isinstance(st.value, ast.List) and not st.value.elts:
                self.fresh_attrs.add(a)
            n = self.tmp(self.need(c, tc, t), out, ind)
            self.set_attr(a, n, out, ind, '      -- self.%s = …' % a)
            return
        # self.a, self.b = e
        if isinstance(st, ast.Assign) and len(st.targets) == 1 and isinstance(st.targets[0], ast.Tuple) \
                and all(isinstance(e, ast.Attribute) and is_self(e.value) for e in st.targets[0].elts) and len(st.targets[0].elts) == 2:
            c, tc = self.ex(st.value)
            if not (isinstance(tc, tuple) and tc[0] == 'Prod'):
                raise Shape('%s: unpacking a %s into two attributes' % (self.name, ty(tc)))
            n = self.tmp(c, out, ind)
            for k, e in enumerate(st.targets[0].elts):
                if e.attr not in self.attrs:
                    raise Shape('%s: assignment to the undeclared attribute self.%s' % (self.name, e.attr))
                self.set_attr(e.attr, self.need('%s.%d' % (n, k + 1), tc[1 + k], self.attrs[e.attr]), out, ind, '      -- self.%s = …' % e.attr)
            return
        # self.a.append(e)
        if isinstance(st, ast.Expr) and isinstance(st.value, ast.Call) and isinstance(st.value.func, ast.Attribute) \
                and isinstance(st.value.func.value, ast.Attribute) and is_self(st.value.func.value.value):
            a, m = st.value.func.value.attr, st.value.func.attr
            if m != 'append' or len(st.value.args) != 1 or st.value.keywords or a not in self.attrs:
                raise Shape('%s: method call self.%s.%s' % (self.name, a, m))
            if a not in self.fresh_attrs:
                raise Shape('%s: self.%s.append(…) on a list that this method did not create' % (self.name, a))
            t = self.attrs[a]
            if not (t[0] == 'Option' and t[1][0] == 'List'):
                raise Shape('%s: append to a %s' % (self.name, ty(t)))
            e, te = self.ex(st.value.args[0], t[1][1])
            n = self.tmp('(← Py.unwrap (← get).%s) ++ [%s]' % (a, self.need(e, te, t[1][1])), out, ind)
            self.set_attr(a, '(some %s)' % n, out, ind, '      -- self.%s.append(…)' % a)
            return
        # _ = self.m        (evaluated for its effect)
        if isinstance(st, ast.Assign) and len(st.targets) == 1 and isinstance(st.targets[0], ast.Name) and st.targets[0].id == '_':
            c, tc = self.ex(st.value)
            out.append(ind + 'let _ := %s' % c)
            return
        # return of a setter / plain `return` at the end
        if isinstance(st, ast.Return) and self.generator is None and st.value is None and self.spec['ret'] == 'Unit':
            if inloop:
                raise Shape('%s: return inside a loop' % self.name)
            out.append(ind + 'return ()')
            return
        # mutation of a value obtained from an attribute or a method through a local would be aliasing: refuse
        if isinstance(st, ast.Expr) and isinstance(st.value, ast.Call) and isinstance(st.value.func, ast.Attribute) \
                and isinstance(st.value.func.value, ast.Name) and st.value.func.attr in ('append', 'pop', 'add', 'extend', 'sort', 'reverse'):
            x = st.value.func.value.id
            if x in self.from_self:
                raise Shape('%s: in-place mutation of %s, which holds a value of the object' % (self.name, x))
        return super().stmt(st, out, ind, inloop)

    def try_(self, st, out, ind, inloop):
        if st.orelse or st.finalbody or len(st.handlers) != 1:
            raise Shape('%s: try shape' % self.name)
        h = st.handlers[0]
        if not (isinstance(h.type, ast.Name) and h.type.id == 'SecondaryStructureError'):
            raise Shape('%s: handler for %s' % (self.name, ast.unparse(h.type) if h.type else 'everything'))
        if h.name is not None and any(isinstance(n, ast.Name) and n.id == h.name for s in h.body for n in ast.walk(s)):
            raise Shape('%s: the handler uses the exception object' % self.name)
        for s in st.body:
            for n in ast.walk(s):
                if isinstance(n, ast.Name) and isinstance(n.ctx, ast.Store) and n.id != '_':
                    raise Shape('%s: the try body assigns the local %s' % (self.name, n.id))
        if inloop:
            raise Shape('%s: try inside a loop' % self.name)
        out.append(ind + 'try')
        self.block(st.body, out, ind + '  ', False)
        out.append(ind + 'catch e =>')
        out.append(ind + '  match e with')
        out.append(ind + '  | .secondaryStructure =>')
        self.block(h.body, out, ind + '    ', False)
        out.append(ind + '  | e => throw e')

    def run(self):
        # locals that receive a value of the object (an attribute, the result of a method): never mutated in place (stmt)
        self.from_self = set()
        for n in ast.walk(self.fn):
            if isinstance(n, ast.Assign):
                reads_self = any(is_self(m) for m in ast.walk(n.value))
                if reads_self:
                    for t in n.targets:
                        self.from_self |= {m.id for m in ast.walk(t) if isinstance(m, ast.Name)}
        if self.spec['ret'] == 'Unit':
            # a setter: falling off the end is its normal exit
            text = self.run_unit()
        else:
            text = super().run()
        return text

    def run_unit(self):
        body = list(self.fn.body)
        out = []
        self.stmts(body, out, self.ind0, False)
        out.append(self.ind0 + 'return ()')
        for f in self.flags:
            self.locals[f] = BOOL
        fields = '\n'.join('  %s : %s := default' % (ident(n), ty(t)) for n, t in self.locals.items())
        text = ['/-- local variables of `%s` -/' % self.name, 'structure %s.Vars where\n%s' % (self.name, fields), '']
        text += [l + '\n' for l in self.loops]
        sig = ' '.join('(%s : %s)' % (ident(p), ty(self.params[p])) for p in self.param_order)
        text.append('/-- `%s` (%s), statement by statement -/' % (self.name, self.spec['path']))
        text.append('def py_%s %s : %s Unit := do' % (self.spec['lean_full'], sig, self.M))
        init = ', '.join('%s := %s' % (ident(q), ident(q)) for q in self.rebound)     # a parameter the body rebinds starts as the argument
        text.append(self.ind0 + 'let mut v : %s.Vars := { %s }' % (self.name, init))
        text += out
        return '\n'.join(text) + '\n'


def ty2(t):
    return 'Unit' if t == 'Unit' else ty(t)


def gen_init(cls):
    """`py_ComplexS_init`: the attribute initialisation of `__init__` (each ATTRS attribute assigned once, at top level, a
    parameter or None)"""
    init = [n for n in cls.body if isinstance(n, ast.FunctionDef) and n.name == '__init__']
    if len(init) != 1:
        raise Shape('%s.__init__ not found exactly once' % cls.name)
    init = init[0]
    pnames = [a.arg for a in init.args.args]
    vals = {}
    for n in ast.walk(init):
        if isinstance(n, ast.Attribute) and is_self(n.value) and isinstance(n.ctx, ast.Store) and n.attr in dict(ATTRS):
            top = [st for st in init.body if isinstance(st, ast.Assign) and len(st.targets) == 1 and st.targets[0] is n]
            if len(top) != 1 or n.attr in vals:
                raise Shape('%s.__init__: self.%s is not assigned exactly once at the top level' % (cls.name, n.attr))
            vals[n.attr] = top[0].value
    fields = []
    for a, t in ATTRS:
        if a not in vals:
            raise Shape('%s.__init__ does not assign self.%s' % (cls.name, a))
        v = vals[a]
        if a in INIT_PARAMS:
            if not (isinstance(v, ast.Name) and v.id == INIT_PARAMS[a] and v.id in pnames):
                raise Shape('%s.__init__: self.%s = %s' % (cls.name, a, ast.unparse(v)))
            fields.append('%s := %s' % (a, ident(INIT_PARAMS[a])))
        else:
            if not (isinstance(v, ast.Constant) and v.value is None):
                raise Shape('%s.__init__: self.%s = %s (expected None)' % (cls.name, a, ast.unparse(v)))
            fields.append('%s := none' % a)
    # a parameter stored in an attribute must not be rebound before the assignment (only `name`, when it is None: excluded by
    # the signature below, which takes the name as given)
    return ('/-- the attributes of a new object as `__init__` assigns them (for a given name; `turns` from `identifiers`) -/\n'
            'def py_ComplexS_init (sequence : List String) («structure» : List Char) (name : String) (turns : Int) : ComplexS.Self :=\n'
            '  { %s }\n' % ', '.join(fields))


def gen_pycomplexs(repo):
    out = ['/- GENERATED by translator/pymethod.py from the Python source — do not edit. -/',
           'import DsdVerif.Gen.PyFuncs', '', 'set_option linter.unusedVariables false', '', 'namespace Dsd.Gen', 'open Dsd', '']
    # the functions of complex_utils.py that the methods call: their stubs (translated in Gen/PyFuncs.lean)
    scratch = []
    _, done = translate(repo, FUNCS, scratch, want_done=True)
    tree = ast.parse(open(os.path.join(repo, PATH)).read())
    cu = ast.parse(open(os.path.join(repo, 'dsdobjects/complex_utils.py')).read())
    builtins_unshadowed(tree, {'isinstance', 'list', 'zip', 'all', 'len', 'reversed', 'set', 'str', 'iter', 'enumerate', 'range'})
    cls = find_class(tree, CLS)
    # wrap on ints of either sign (its own typed instance, translated here from complex_utils.py)
    wfn = find_function(cu, 'wrap')
    check_signature(wfn, WRAP_INT)
    wspec = dict(WRAP_INT, _fn=wfn)
    definite_assignment(wfn, ['x', 'm'], 'wrap')
    out.append(FuncTx(wspec, wfn).run())
    done['wrap_int'] = wspec
    out.append('/-- the part of a `ComplexS` object that the translated methods read or write -/')
    out.append('structure ComplexS.Self where\n' + '\n'.join('  %s : %s' % (a, ty(t)) for a, t in ATTRS) + '\nderiving Repr, DecidableEq\n')
    out.append('abbrev ComplexS.M := Py.MS ComplexS.Self\n')
    out.append(gen_init(cls))
    methods, summary, untranslated = {}, {}, {}
    for spec in METHODS:
        fn = find_method(cls, spec['method'], spec['kind'])
        fn2 = without_self(fn)
        full = 'ComplexS_' + spec['lean']
        s = dict(spec, name=full, lean=full, lean_full=full, path=PATH, str_is_builtin=True, _fn=fn2)
        check_signature(fn2, s)
        callees = {}
        for c in spec.get('callees', ()):
            cname, ckey = (c, c) if isinstance(c, str) else c
            if ckey not in done or done[ckey]['name'] != cname:
                raise Shape('%s: the callee %s is not translated' % (full, ckey))
            if not imported_from(tree, cname, 'complex_utils'):
                raise Shape('%s: %s is not imported from .complex_utils exactly once' % (full, cname))
            callees[cname] = done[ckey]
        uses = {}
        for u in spec.get('uses', ()):
            if u not in methods:
                raise Shape('%s: self.%s is not translated before it' % (full, u))
            uses[u] = methods[u]
        try:
            definite_assignment(fn2, [p for p, _ in spec['params']] + ['self', 'iter', 'str', 'ObjectInitError'] + list(callees), full)
            tx = MethodTx(s, fn2, callees, uses)
            text = tx.run()
        except Shape as e:
            # this method has none of the accepted shapes any more: it is replaced by a stub of the right type that raises, so that
            # the other methods keep their translations; every theorem and stream about THIS method breaks (the stub is not the
            # method), nothing else does.  Reported in the summary (`untranslated`).
            untranslated[full] = str(e)
            sig = ' '.join('(%s : %s)' % (ident(q), ty(tq)) for q, tq in spec['params'])
            rt = 'Unit' if spec['ret'] == 'Unit' else '(%s)' % ty(spec['ret'])
            text = ('/-- `%s` (%s) could NOT be translated: %s -/\n' % (full, PATH, str(e).replace('-/', '- /')) +
                    'def py_%s %s : ComplexS.M %s := throw (Err.fault "untranslated")\n' % (full, sig, rt))
            tx = None
        out.append(text)
        # the stub under which later methods call this one (getter wins over setter for `self.x` reads)
        if spec['kind'] != 'setter':
            methods[spec['method']] = dict(spec, lean=spec['lean'], _fn=fn2)
        summary[full] = {'statements': sum(1 for _ in ast.walk(fn) if isinstance(_, ast.stmt)) - 1, 'loops': tx.nloops if tx else 0,
                         'source_lines': fn.end_lineno - fn.lineno + 1}
    out.append('end Dsd.Gen')
    if untranslated:
        summary['untranslated'] = untranslated
    return '\n'.join(out) + '\n', summary


if __name__ == '__main__':
    text, summ = gen_pycomplexs(sys.argv[1])
    sys.stdout.write(text)
    sys.stderr.write(repr(summ) + '\n')
