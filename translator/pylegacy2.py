#!/usr/bin/env python3
"""Statement-level translation of the REGISTRY side of the legacy class `DSD_Complex` (dsdobjects/core/deprecated.py) into Lean 4
(`Gen/PyLegacyReg.lean`):  `do_memorycheck`, `canonical_form` (with the generator `rotate`), and the registering part of `__init__`.

    /venv/bin/python translator/pylegacy2.py <repo>  > lean/DsdVerif/Gen/PyLegacyReg.lean

An extension of translator/pylegacy.py (`class LegacyRegTx(LegacyTx)`, same refusal policy `Shape`, the translator knows nothing
about what the methods are supposed to compute).  The state of a method is now the record `DSD_ComplexR.Self`: the attributes of the
object the earlier methods use (`DSD_Complex.Self`, the same field names), the attributes `_name`, `_canonical_form`, `_rotations`,
`_memorycheck`, the object's identity `oid` (a handle number), AND the class variables `DSD_Complex.ID`, `DSD_Complex.NAMES`,
`DSD_Complex.MEMORY` (fields `cls_ID`, `cls_NAMES`, `cls_MEMORY`); `DSD_ComplexR.M = Py.MS DSD_ComplexR.Self`.  A method translated by
pylegacy.py (`size`, `rotate_once`) runs on the embedded object through the lens `DSD_ComplexR.liftCore` (emitted here from the two
attribute tables): same exceptions, the other fields untouched.

Reading of Python ADDED here (each as narrow as these methods need):

  DSD_Complex.X   for the class variables `ID`, `NAMES`, `MEMORY` (checked: assigned exactly once each in the class body, `ID = 0`,
              `NAMES = dict()`, `MEMORY = dict()`): read `(← get).cls_X`; `DSD_Complex.ID += 1`; `DSD_Complex.NAMES[k] = v` /
              `DSD_Complex.MEMORY[k] = v` are rule "dict" of pyfunc.py (`Py.dictSet`: an existing key keeps its place) on the field.
  dict        `dict()` is the empty dict; keys may be the pair `(tuple of names, tuple of characters)` (compared with `==`).
  object references   `MEMORY` maps a key to an OBJECT.  A reference is the pair `LegR_Ref = (identity, the object's _rotations)` as
              it is when the reference is stored (`DSD_Complex.MEMORY[k] = self` stores `(oid, self._rotations)`); of a stored
              object the translated code reads only `other._rotations` (`.2`) and its identity (`error.existing = other`).  This
              is exact as long as `_rotations` of a registered object does not change after it is registered - it is assigned only
              inside `canonical_form`, under `if not self._canonical_form`, which runs before the registration (same assumption as
              Model/LegacyFull.lean).
  tuple((tuple(map(str, X)), tuple(Y)))   for a list of names `X` and a list of characters `Y`: the pair `(X, Y)` (`str` of a str is
              the str; a tuple of a list is the value of the list; `str`, `map`, `tuple` unshadowed: checked).
  sorted(list(d.keys()), key=lambda x: (x[0], x[1]))[0]   for a dict `d` whose keys are such pairs: `(← Py.idx (Py.LegR_sortedKeys d) 0)`:
              the keys in insertion order, sorted stably by Python's tuple / list / str ordering (`Py.LegR_sortedKeys` = the model's
              `sortBy ckeyLt`: lexicographic, names by code points), IndexError for an empty dict.  The key function `(x[0], x[1])`
              of a pair is the pair.
  abs(a - b)  on ints: `Int.natAbs (a - b)` with BOTH operands read as ints of either sign (no checked subtraction), a non-negative
              int; a `None`-able operand is unwrapped (TypeError).  `abs(a - b) - c` is then a subtraction of ints of either sign
              (result `Int`); `c` `None`-able: TypeError for `None`.
  x is None   for a parameter `x` whose declared type is not `None`-able (typed instance `do_memorycheck(current, rotations)` with
              both arguments given - the only call the translated code makes): statically False (rule "if <static>" of
              pyfunc.py).  The statement `if x is None: x = <default>` (exactly this shape, no `else`) is removed before the body
              is translated (stub `given`), so that `x` stays a parameter of its declared type.
  exception objects   `error = DSDDuplicationError(<literal>, …); error.existing = o; error.rotations = r; raise error` as four
              consecutive statements of one block: `o` and `r` are evaluated where they are written, then
              `throw (Py.LegR_dupErr o.1 r)` - `Err` has no constructor with fields for it, the exception is
              `Err.fault "DSDDuplicationError existing=h<id> rotations=<r>"` (the two attributes are what callers read).
  self.m(args) as a statement   a method translated before, evaluated for its effect.
  the generator `rotate`   `for e, new in enumerate(self.rotate(), 1): BODY` where `rotate` is checked to be exactly
              `for i in range(self.size): yield self.rotate_once()` and `rotate_once` ends in `return self` (pylegacy.py):
              the generator protocol interleaves - `range(self.size)` is evaluated when the generator starts (before the first
              iteration), every iteration runs `self.rotate_once()` and THEN `BODY`, which therefore sees the object as rotated so
              far; an exception of `rotate_once` leaves the loop.  The translation is the loop
              `for rot_i in range(self.size): self.rotate_once(); e = rot_i + 1; BODY`; `new` (the object itself) must be unused.
              `break` in BODY is rule "break" of pyfunc.py on this loop.

Not translated: the naming part of `__init__` (`prefix[-1].isdigit()`, `str(DSD_Complex.ID)`), `do_memorycheck()` with defaults
(mutually recursive with `canonical_form`), the comparison dunders.
"""
import ast, copy, os, sys
sys.path.insert(0, os.path.dirname(os.path.abspath(__file__)))
from pyfunc import (FuncTx, Shape, NAT, INT, CHAR, STR, BOOL, TEXT, L, O, P, D, LOC, PTAB, STAB, ty, ident, FUNCS, translate,
                    check_signature, definite_assignment, imported_from, builtins_unshadowed, strip_arrow)
from pymethod import MethodTx, find_class, find_method, without_self, is_self
import pylegacy
from pylegacy import LegacyTx

PATH = pylegacy.PATH
CLS = 'DSD_Complex'
CKEY = P(L(STR), L(CHAR))
REF = P(NAT, O(NAT))                       # an object reference: (identity, its _rotations)

CORE = list(pylegacy.ATTRS)
ATTRS = CORE + [('_name', STR), ('_canonical_form', O(CKEY)), ('_rotations', O(NAT)), ('_memorycheck', BOOL)]
CLSVARS = {'ID': ('cls_ID', NAT), 'NAMES': ('cls_NAMES', D(STR, CKEY)), 'MEMORY': ('cls_MEMORY', D(CKEY, REF))}
FIELDS = ATTRS + [('oid', NAT)] + [CLSVARS[k] for k in ('ID', 'NAMES', 'MEMORY')]

EXC = dict(pylegacy.EXC)

# methods of pylegacy.py that the registry methods call (their stubs there; run through the lens)
CORE_METHODS = {m['method']: m for m in pylegacy.METHODS if m['method'] in ('size', 'rotate_once')}

METHODS = [
    dict(method='do_memorycheck', kind='method', lean='do_memorycheck', params=[('current', CKEY), ('rotations', O(INT))],
         locals={'other': REF}, ret='Unit', uses=['size'], given=['current']),
    dict(method='canonical_form', kind='getter', lean='canonical_form', params=[],
         locals={'all_variants': D(CKEY, NAT), 'canon': CKEY, 'e': NAT}, ret=O(CKEY), fuse_rotate=True,
         uses=['size', 'rotate_once', 'do_memorycheck']),
]


def is_cls(node, attr=None):
    return isinstance(node, ast.Attribute) and isinstance(node.value, ast.Name) and node.value.id == CLS and \
        (attr is None or node.attr == attr)


def check_clsvars(cls):
    want = {'ID': lambda v: isinstance(v, ast.Constant) and v.value == 0 and not isinstance(v.value, bool),
            'NAMES': lambda v: ast.unparse(v) == 'dict()', 'MEMORY': lambda v: ast.unparse(v) == 'dict()'}
    for k, ok in want.items():
        a = [n for n in cls.body if isinstance(n, ast.Assign) and any(isinstance(t, ast.Name) and t.id == k for t in n.targets)]
        if len(a) != 1 or len(a[0].targets) != 1 or not ok(a[0].value):
            raise Shape('class variable %s is not initialised once as expected' % k)


def check_rotate(cls):
    """`rotate` is exactly `for i in range(self.size): yield self.rotate_once()`"""
    fn = find_method(cls, 'rotate', 'method')
    body = [s for s in fn.body if not (isinstance(s, ast.Expr) and isinstance(s.value, ast.Constant) and isinstance(s.value.value, str))]
    if len(fn.args.args) != 1 or len(body) != 1 or not isinstance(body[0], ast.For) or body[0].orelse:
        raise Shape('rotate: not a single for loop')
    f = body[0]
    if ast.unparse(f.iter) != 'range(self.size)' or not isinstance(f.target, ast.Name) or len(f.body) != 1 \
            or ast.unparse(f.body[0]) != 'yield self.rotate_once()':
        raise Shape('rotate: not `for i in range(self.size): yield self.rotate_once()`')


def drop_defaults(fn, given, name):
    """remove `if x is None: x = <default>` for the parameters the typed instance is always given"""
    g = copy.copy(fn)
    g.body = list(fn.body)
    for x in given:
        hits = [st for st in g.body if isinstance(st, ast.If) and ast.unparse(st.test) == '%s is None' % x]
        if len(hits) != 1 or hits[0].orelse or len(hits[0].body) != 1 or not isinstance(hits[0].body[0], ast.Assign) \
                or len(hits[0].body[0].targets) != 1 or ast.unparse(hits[0].body[0].targets[0]) != x:
            raise Shape('%s: no statement `if %s is None: %s = …`' % (name, x, x))
        before = g.body[:g.body.index(hits[0])]
        if any(isinstance(m, ast.Name) and m.id == x for st in before for m in ast.walk(st)):
            raise Shape('%s: %s is used before its default is filled in' % (name, x))
        g.body.remove(hits[0])
    return g


def fuse_rotate(fn, name):
    """rewrite every `for e, new in enumerate(self.rotate(), 1): BODY` (rule "the generator rotate")"""
    class T(ast.NodeTransformer):
        n = 0
        def visit_For(self, st):
            self.generic_visit(st)
            if 'rotate()' not in ast.unparse(st.iter):
                return st
            if ast.unparse(st.iter) != 'enumerate(self.rotate(), 1)' or not (isinstance(st.target, ast.Tuple) and len(st.target.elts) == 2
                                                                             and all(isinstance(e, ast.Name) for e in st.target.elts)):
                raise Shape('%s: use of self.rotate() other than `for e, new in enumerate(self.rotate(), 1)`' % name)
            e, new = st.target.elts[0].id, st.target.elts[1].id
            if any(isinstance(m, ast.Name) and m.id == new for s in st.body + st.orelse for m in ast.walk(s)):
                raise Shape('%s: the object yielded by rotate() is used' % name)
            if any(isinstance(m, ast.Name) and m.id == 'rot_i' for m in ast.walk(fn)):
                raise Shape('%s: the name rot_i is used' % name)
            T.n += 1
            pre = ast.parse('self.rotate_once()\n%s = rot_i + 1' % e).body
            new_for = ast.For(target=ast.Name(id='rot_i', ctx=ast.Store()), iter=ast.parse('range(self.size)').body[0].value,
                              body=pre + st.body, orelse=st.orelse, type_comment=None)
            return ast.fix_missing_locations(ast.copy_location(new_for, st))
    g = T().visit(copy.deepcopy(fn))
    if T.n != 1:
        raise Shape('%s: expected exactly one loop over self.rotate()' % name)
    if any(isinstance(m, ast.Attribute) and m.attr == 'rotate' for m in ast.walk(g)):
        raise Shape('%s: another use of self.rotate' % name)
    return g


class LegacyRegTx(LegacyTx):
    M = 'DSD_ComplexR.M'

    def __init__(self, spec, fn, specs, methods):
        # `DSD_Complex.X` is not a variable; mask the class name for the checks of the base classes
        super().__init__(spec, fn, specs, methods)
        self.attrs = dict(ATTRS)
        self.exc = EXC
        self.pending = {}                       # exception object under construction: local name -> {attr: code}

    # ---- expressions -----------------------------------------------------------------------------------------------
    def method_call(self, name, args, keywords, as_value=True):
        code, t = MethodTx.method_call(self, name, args, keywords, as_value)
        inner = code[len('(← py_ComplexS_'):-1]
        if self.methods[name].get('core'):
            return '(← DSD_ComplexR.liftCore (py_DSD_Complex_%s))' % inner, t
        return '(← py_DSD_ComplexR_%s)' % inner, t

    def static_test(self, node):
        if isinstance(node, ast.Compare) and len(node.ops) == 1 and isinstance(node.ops[0], (ast.Is, ast.IsNot)) \
                and isinstance(node.comparators[0], ast.Constant) and node.comparators[0].value is None \
                and isinstance(node.left, ast.Name) and node.left.id in self.params and node.left.id not in self.rebound \
                and node.left.id not in self.loopvars:
            t = self.params[node.left.id]
            if not (isinstance(t, tuple) and t[0] == 'Option'):
                return isinstance(node.ops[0], ast.IsNot)
        return super().static_test(node)

    def int_of(self, node):
        """an operand of `abs(a - b)` / `abs(…) - c`, read as an int of either sign"""
        c, t = self.ex(node)
        if isinstance(t, tuple) and t[0] == 'Option' and t[1] in (NAT, INT):
            c, t = '(← Py.unwrap %s)' % c, t[1]
        if t not in (NAT, INT):
            raise Shape('%s: int operand of type %s' % (self.name, ty(t)))
        return self.need(c, t, INT)

    def is_abs_diff(self, node):
        return isinstance(node, ast.Call) and isinstance(node.func, ast.Name) and node.func.id == 'abs' and len(node.args) == 1 \
            and not node.keywords and isinstance(node.args[0], ast.BinOp) and isinstance(node.args[0].op, ast.Sub)

    def ex(self, node, expect=None):
        if is_cls(node):
            if node.attr not in CLSVARS:
                raise Shape('%s: class attribute %s' % (self.name, node.attr))
            f, t = CLSVARS[node.attr]
            return '(← get).%s' % f, t
        if isinstance(node, ast.Attribute) and isinstance(node.value, ast.Name) and node.attr == '_rotations' \
                and node.value.id in self.locals and self.locals[node.value.id] == REF:
            return '%s.2' % self.var(node.value.id)[0], O(NAT)
        if isinstance(node, ast.Call) and isinstance(node.func, ast.Name) and node.func.id == 'dict' and not node.args and not node.keywords:
            if not (expect and expect[0] == 'Dict'):
                raise Shape('%s: cannot type dict()' % self.name)
            return '[]', expect
        if isinstance(node, ast.Call) and ast.unparse(node.func) == 'tuple' and len(node.args) == 1 and isinstance(node.args[0], ast.Tuple) \
                and len(node.args[0].elts) == 2:
            a, b = node.args[0].elts
            ok = (isinstance(a, ast.Call) and ast.unparse(a.func) == 'tuple' and len(a.args) == 1 and isinstance(a.args[0], ast.Call)
                  and ast.unparse(a.args[0].func) == 'map' and len(a.args[0].args) == 2 and ast.unparse(a.args[0].args[0]) == 'str'
                  and isinstance(b, ast.Call) and ast.unparse(b.func) == 'tuple' and len(b.args) == 1)
            if not ok:
                raise Shape('%s: tuple shape: %s' % (self.name, ast.unparse(node)[:60]))
            (x, tx), (y, ty_) = self.ex(a.args[0].args[1]), self.ex(b.args[0])
            if tx != L(STR) or ty_ != L(CHAR):
                raise Shape('%s: key of a %s and a %s' % (self.name, ty(tx), ty(ty_)))
            return '(%s, %s)' % (x, y), CKEY
        if isinstance(node, ast.Subscript) and isinstance(node.value, ast.Call) and ast.unparse(node.value.func) == 'sorted':
            c = node.value
            ok = (isinstance(node.slice, ast.Constant) and node.slice.value == 0 and len(c.args) == 1 and len(c.keywords) == 1
                  and c.keywords[0].arg == 'key' and ast.unparse(c.keywords[0].value) == 'lambda x: (x[0], x[1])'
                  and isinstance(c.args[0], ast.Call) and ast.unparse(c.args[0].func) == 'list' and len(c.args[0].args) == 1
                  and isinstance(c.args[0].args[0], ast.Call) and isinstance(c.args[0].args[0].func, ast.Attribute)
                  and c.args[0].args[0].func.attr == 'keys' and not c.args[0].args[0].args and isinstance(c.args[0].args[0].func.value, ast.Name))
            if not ok:
                raise Shape('%s: sorted shape: %s' % (self.name, ast.unparse(node)[:70]))
            d, td = self.var(c.args[0].args[0].func.value.id)
            if td != D(CKEY, NAT):
                raise Shape('%s: sorted keys of a %s' % (self.name, ty(td)))
            return '(← Py.idx (Py.LegR_sortedKeys %s) 0)' % d, CKEY
        if self.is_abs_diff(node):
            a, b = self.int_of(node.args[0].left), self.int_of(node.args[0].right)
            return '(Int.natAbs (%s - %s))' % (a, b), NAT
        if isinstance(node, ast.BinOp) and isinstance(node.op, ast.Sub) and self.is_abs_diff(node.left):
            a, _ = self.ex(node.left)
            return '((Int.ofNat %s) - %s)' % (a, self.int_of(node.right)), INT
        if isinstance(node, ast.Subscript) and isinstance(node.value, ast.Name) and node.value.id in self.locals \
                and self.locals[node.value.id][0] == 'Dict' and not isinstance(node.slice, ast.Slice):
            d, td = self.var(node.value.id)                 # d[k] with a None-able key: the key itself is needed
            k, tk = self.ex(node.slice, td[1])
            return '(← Py.dictGet %s %s)' % (d, self.need(k, tk, td[1])), td[2]
        return super().ex(node, expect)

    # ---- statements ------------------------------------------------------------------------------------------------
    def stmts(self, body, out, ind, inloop):
        i = 0
        while i < len(body):
            st = body[i]
            # error = DSDDuplicationError(…); error.existing = o; error.rotations = r; raise error
            if isinstance(st, ast.Assign) and len(st.targets) == 1 and isinstance(st.targets[0], ast.Name) \
                    and isinstance(st.value, ast.Call) and ast.unparse(st.value.func) == 'DSDDuplicationError':
                x = st.targets[0].id
                blk = body[i:i + 4]
                ok = (len(blk) == 4 and ast.unparse(blk[1].targets[0] if isinstance(blk[1], ast.Assign) else blk[1]) == '%s.existing' % x
                      and ast.unparse(blk[2].targets[0] if isinstance(blk[2], ast.Assign) else blk[2]) == '%s.rotations' % x
                      and ast.unparse(blk[3]) == 'raise %s' % x and st.value.args and isinstance(st.value.args[0], ast.Constant)
                      and not st.value.keywords)
                if not ok or x in self.locals or x in self.params:
                    raise Shape('%s: exception object shape at %s' % (self.name, ast.unparse(st)[:50]))
                for a in st.value.args[1:]:
                    c, _ = self.ex(a)                                   # message arguments: evaluated, must be infallible
                    if '←' in c.replace('(← get)', ''):
                        raise Shape('%s: fallible message argument' % self.name)
                if any(isinstance(m, ast.Name) and m.id == x for s in body[i + 4:] for m in ast.walk(s)):
                    raise Shape('%s: the exception object is used later' % self.name)
                o, to = self.ex(blk[1].value)
                if to != REF:
                    raise Shape('%s: existing of type %s' % (self.name, ty(to)))
                out.append(ind + 'let err_existing := %s.1      -- %s.existing = …' % (o, x))
                r, tr = self.ex(blk[2].value)
                out.append(ind + 'let err_rotations : Int := %s      -- %s.rotations = …' % (self.need(r, tr, INT), x))
                out.append(ind + 'throw (Py.LegR_dupErr err_existing err_rotations)      -- raise %s' % x)
                i += 4
                continue
            self.stmt(st, out, ind, inloop)
            i += 1

    def stmt(self, st, out, ind, inloop):
        # self.m(args) as a statement
        if isinstance(st, ast.Expr) and isinstance(st.value, ast.Call) and isinstance(st.value.func, ast.Attribute) \
                and is_self(st.value.func.value):
            c, t = self.ex(st.value)
            inner = strip_arrow(c)
            if t != 'Unit' or inner is None:
                raise Shape('%s: call statement %s' % (self.name, ast.unparse(st)[:50]))
            out.append(ind + inner)
            return
        # DSD_Complex.ID += 1
        if isinstance(st, ast.AugAssign) and isinstance(st.op, ast.Add) and is_cls(st.target, 'ID'):
            e, te = self.ex(st.value, NAT)
            if te != NAT:
                raise Shape('%s: += of a %s' % (self.name, ty(te)))
            n = self.tmp('((← get).cls_ID + %s)' % e, out, ind)
            self.set_attr('cls_ID', n, out, ind, '      -- DSD_Complex.ID += …')
            return
        # DSD_Complex.NAMES[k] = v   |   DSD_Complex.MEMORY[k] = self
        if isinstance(st, ast.Assign) and len(st.targets) == 1 and isinstance(st.targets[0], ast.Subscript) and is_cls(st.targets[0].value):
            name = st.targets[0].value.attr
            if name not in ('NAMES', 'MEMORY'):
                raise Shape('%s: item assignment to DSD_Complex.%s' % (self.name, name))
            f, t = CLSVARS[name]
            if is_self(st.value):
                if t[2] != REF:
                    raise Shape('%s: self stored in %s' % (self.name, name))
                v = '((← get).oid, (← get)._rotations)'
            else:
                v, tv = self.ex(st.value, t[2])                     # Python evaluates the value before the key
                v = self.need(v, tv, t[2])
            nv = self.tmp(v, out, ind)
            k, tk = self.ex(st.targets[0].slice, t[1])
            nk = self.tmp(self.need(k, tk, t[1]), out, ind)
            n = self.tmp('(Py.dictSet (← get).%s %s %s)' % (f, nk, nv), out, ind)
            self.set_attr(f, n, out, ind, '      -- DSD_Complex.%s[…] = …' % name)
            return
        return super().stmt(st, out, ind, inloop)


class Mask(ast.NodeTransformer):
    """`self` checks of MethodTx walk all Names; `DSD_Complex` is a Name only as `DSD_Complex.<class variable>` (checked here)"""
    def __init__(self, name):
        self.name = name
    def visit_Name(self, n):
        return n


def check_cls_uses(fn, name):
    bases = {id(n.value) for n in ast.walk(fn) if is_cls(n)}
    for n in ast.walk(fn):
        if isinstance(n, ast.Name) and n.id == CLS and id(n) not in bases:
            raise Shape('%s: %s is used other than as %s.<class variable>' % (name, CLS, CLS))


PRELUDE = '''/-- the embedded object of the earlier translation -/
def DSD_ComplexR.core (s : DSD_ComplexR.Self) : DSD_Complex.Self :=
  { %(get)s }

def DSD_ComplexR.setCore (s : DSD_ComplexR.Self) (c : DSD_Complex.Self) : DSD_ComplexR.Self :=
  { s with %(set)s }

abbrev DSD_ComplexR.M := Py.MS DSD_ComplexR.Self

/-- a method of the earlier translation (Gen/PyLegacy.lean) run on the embedded object: same result or exception, the other
    fields untouched -/
def DSD_ComplexR.liftCore {α} (m : DSD_Complex.M α) : DSD_ComplexR.M α := do
  let s ← get
  let (r, c) := m.exec (DSD_ComplexR.core s)
  set (DSD_ComplexR.setCore s c)
  match r with
  | .ok a => pure a
  | .error e => throw e
'''


def gen_pylegacyreg(repo):
    out = ['/- GENERATED by translator/pylegacy2.py from the Python source — do not edit. -/',
           'import DsdVerif.Gen.PyLegacy', 'import DsdVerif.Model.PyPreludeLegacyReg', '', 'set_option linter.unusedVariables false', '',
           'namespace Dsd.Gen', 'open Dsd', '']
    tree = ast.parse(open(os.path.join(repo, PATH)).read())
    builtins_unshadowed(tree, {'list', 'map', 'len', 'range', 'enumerate', 'str', 'tuple', 'sorted', 'abs', 'dict'})
    cls = find_class(tree, CLS)
    check_clsvars(cls)
    check_rotate(cls)
    if sum(1 for n in tree.body if isinstance(n, ast.ClassDef) and n.name == 'DSDDuplicationError') != 1:
        raise Shape('DSDDuplicationError is not defined exactly once at module level')
    # the methods of pylegacy.py these methods call must still translate there (their text is in Gen/PyLegacy.lean)
    _, summ = pylegacy.gen_pylegacy(repo)
    bad = [m for m in CORE_METHODS if 'DSD_Complex_' + CORE_METHODS[m]['lean'] in summ.get('untranslated', {})]
    out.append('/-- a `DSD_Complex` object together with the class variables: what the registry methods read or write -/')
    out.append('structure DSD_ComplexR.Self where\n' + '\n'.join('  %s : %s' % (a, ty(t)) for a, t in FIELDS) + '\nderiving Repr, DecidableEq\n')
    out.append(PRELUDE % dict(get=', '.join('%s := s.%s' % (a, a) for a, _ in CORE), set=', '.join('%s := c.%s' % (a, a) for a, _ in CORE)))
    methods = {m: dict(s, core=True) for m, s in CORE_METHODS.items()}
    summary, untranslated = {}, {}
    for spec in METHODS:
        fn = find_method(cls, spec['method'], spec['kind'])
        full = 'DSD_ComplexR_' + spec['lean']
        s = dict(spec, name=full, lean=full, lean_full=full, path=PATH, str_is_builtin=True)
        sig = ' '.join('(%s : %s)' % (ident(q), ty(tq)) for q, tq in spec['params'])
        rt = 'Unit' if spec['ret'] == 'Unit' else '(%s)' % ty(spec['ret'])
        tx = None
        try:
            if bad:
                raise Shape('%s: %s is not translated by pylegacy.py' % (full, bad))
            fn2 = without_self(fn)
            if spec.get('given'):
                fn2 = drop_defaults(fn2, spec['given'], full)
            if spec.get('fuse_rotate'):
                fn2 = fuse_rotate(fn2, full)
            check_cls_uses(fn2, full)
            s['_fn'] = fn2
            check_signature(fn2, s)
            uses = {}
            for u in spec.get('uses', ()):
                if u not in methods:
                    raise Shape('%s: self.%s is not translated before it' % (full, u))
                uses[u] = methods[u]
            definite_assignment(fn2, [p for p, _ in spec['params']] + ['self', 'str', 'tuple', 'sorted', 'abs', 'dict', 'DSDDuplicationError',
                                                                       'DSDObjectsError', CLS], full)
            tx = LegacyRegTx(s, fn2, {}, uses)
            text = tx.run()
        except Shape as e:
            untranslated[full] = str(e)
            text = ('/-- `%s` (%s) could NOT be translated: %s -/\n' % (full, PATH, str(e).replace('-/', '- /')) +
                    'def py_%s %s : DSD_ComplexR.M %s := throw (Err.fault "untranslated")\n' % (full, sig, rt))
        out.append(text)
        methods[spec['method']] = dict(spec, lean=spec['lean'])
        summary[full] = {'statements': sum(1 for _ in ast.walk(fn) if isinstance(_, ast.stmt)) - 1, 'loops': tx.nloops if tx else 0,
                         'source_lines': fn.end_lineno - fn.lineno + 1}
    out.append('end Dsd.Gen')
    if untranslated:
        summary['untranslated'] = untranslated
    return '\n'.join(out) + '\n', summary


if __name__ == '__main__':
    text, summ = gen_pylegacyreg(sys.argv[1])
    sys.stdout.write(text)
    sys.stderr.write(repr(summ) + '\n')
