#!/usr/bin/env python3
"""Statement-level translation of the legacy class `SequenceConstraint` (dsdobjects/core/deprecated.py) into Lean 4 (`Gen/PyLegacySeq.lean`).

    /venv/bin/python translator/pylegacy4.py <repo>  > lean/DsdVerif/Gen/PyLegacySeq.lean

`class LegacySeqTx(LegacyTx)` (translator/pylegacy.py -> pymethod.py -> pyfunc.py; same refusal policy `Shape`).  The object is the record
`SequenceConstraint.Self` (`ToU`, `_molecule`, `_sequence`), a method a computation in `SequenceConstraint.M = Py.MS SequenceConstraint.Self`.
Every `str` of this class is read as `Text` (the list of its characters): a nucleotide code is a one-character str `['A']`, the
empty str of `_bin_iupac` is `[]`; `_sequence` is a list of such strs.  The dict / list displays INSIDE the helper methods are
translated where they stand (they mention the run-time value `T = self.ToU`), not through Gen/LegacyIupac.lean.

Reading of Python ADDED here:

  dict display with computed keys   `{k1: v1, …}` where a key may be a local (`T`): `Py.LegS_dictOf [(k1, v1), …]`: items inserted
              left to right, a repeated key keeps its first position and takes the last value (what `_iupac_complement` does for
              DNA, where `T` and `'T'` are the same key); keys and values infallible.
  map(self.m, X)   with a bound method `m` of one parameter translated before, under `''.join(…)` / `list(…)`:
              `(← List.mapM (fun x => py_SequenceConstraint_m x) X)`: elements in order, the first exception aborts; `X` a list or
              `zip(a, b)` (`List.zip`).  The methods mapped here do not assign attributes (checked: no `self.<a> = …` in them), so
              the order of effects is immaterial.
  l[::-1]     `List.reverse l`.
  list(s)     of a `Text` where a list of one-character strs is expected: `List.map (fun c => [c]) s`.
  for n in t  over a 2-tuple `t` of strs: the two components in order.
  constructor   `__init__` runs on a new object (unspecified attributes before): every attribute is assigned at the top level
              (checked); `warnings.warn(<literal>)` has no effect on values.
  self.m(args) as a statement / a Unit method falling off its end (`add_constraint`): as in pylegacy2.py / pymethod.py.
Typing: `sequence` of `__init__` is a str (`Text`); `con` of `add_constraint` is the constraint GIVEN AS the list of its one-character
strs (`list(con)` is then a copy; a caller with a str passes `list(s)`), `molecule : String`.

Not translated: `__add__`, `__radd__`, `__invert__` (they construct other objects), `__eq__`, `__ne__` (another object), `__str__`,
`_iupac_to_bases` (unused).
"""
import ast, copy, os, sys
sys.path.insert(0, os.path.dirname(os.path.abspath(__file__)))
from pyfunc import (FuncTx, Shape, NAT, INT, CHAR, STR, BOOL, TEXT, L, O, P, D, ty, ident, check_signature, definite_assignment,
                    builtins_unshadowed, strip_arrow)
from pymethod import MethodTx, find_class, find_method, without_self, is_self
import pylegacy
from pylegacy import LegacyTx

PATH = pylegacy.PATH
CLS = 'SequenceConstraint'
ATTRS = [('ToU', TEXT), ('_molecule', STR), ('_sequence', L(TEXT))]
EXC = {'DSDObjectsError': '(Err.fault "DSDObjectsError")'}

METHODS = [
    dict(method='__init__', kind='method', lean='init', params=[('sequence', TEXT), ('molecule', STR)], locals={}, ret='Unit', ctor=True),
    dict(method='_iupac_bin', kind='method', lean='iupac_bin', params=[('nuc', TEXT)], locals={'T': TEXT, 'iupac_bin_dict': D(TEXT, NAT)}, ret=NAT),
    dict(method='_bin_iupac', kind='method', lean='bin_iupac', params=[('nuc', NAT)], locals={'T': TEXT, 'bin_iupac_dict': L(TEXT)}, ret=TEXT),
    dict(method='_iupac_complement', kind='method', lean='iupac_complement', params=[('nuc', TEXT)],
         locals={'T': TEXT, 'neighbor_dict': D(TEXT, TEXT)}, ret=TEXT),
    dict(method='_wc_complement', kind='method', lean='wc_complement1', params=[('nuc', TEXT)],
         locals={'T': TEXT, 'neighbor_dict': D(TEXT, TEXT)}, ret=TEXT),
    dict(method='_iupac_union', kind='method', lean='iupac_union', params=[('nucs', P(TEXT, TEXT))], locals={'u': TEXT}, ret=TEXT,
         uses=['_iupac_bin', '_bin_iupac']),
    dict(method='_merge_constraints', kind='method', lean='merge_constraints', params=[('con', L(TEXT)), ('con2', L(TEXT))], locals={},
         ret=L(TEXT), uses=['_iupac_union']),
    dict(method='constraint', kind='getter', lean='constraint', params=[], locals={}, ret=TEXT),
    dict(method='complement', kind='getter', lean='complement', params=[], locals={}, ret=TEXT, uses=['_iupac_complement']),
    dict(method='wc_complement', kind='getter', lean='wc_complement', params=[], locals={}, ret=TEXT, uses=['_wc_complement']),
    dict(method='reverse_complement', kind='getter', lean='reverse_complement', params=[], locals={}, ret=TEXT, uses=['_iupac_complement']),
    dict(method='reverse_wc_complement', kind='getter', lean='reverse_wc_complement', params=[], locals={}, ret=TEXT, uses=['_wc_complement']),
    dict(method='add_constraint', kind='method', lean='add_constraint', params=[('con', L(TEXT))], locals={'new': L(TEXT)}, ret='Unit',
         uses=['_merge_constraints']),
    dict(method='__len__', kind='method', lean='len', params=[], locals={}, ret=NAT),
]


class LegacySeqTx(LegacyTx):
    M = 'SequenceConstraint.M'

    def __init__(self, spec, fn, specs, methods):
        super().__init__(spec, fn, specs, methods)
        self.attrs = dict(ATTRS)
        self.exc = EXC

    def method_call(self, name, args, keywords, as_value=True):
        code, t = MethodTx.method_call(self, name, args, keywords, as_value)
        return '(← py_SequenceConstraint_' + code[len('(← py_ComplexS_'):], t

    def mapped_method(self, node):
        """`map(self.m, X)`"""
        if not (isinstance(node, ast.Call) and isinstance(node.func, ast.Name) and node.func.id == 'map' and len(node.args) == 2
                and not node.keywords and isinstance(node.args[0], ast.Attribute) and is_self(node.args[0].value)):
            return None
        m = self.methods.get(node.args[0].attr)
        if m is None or m['kind'] != 'method' or len(m['params']) != 1 or not m.get('pure_self'):
            raise Shape('%s: map over self.%s' % (self.name, node.args[0].attr))
        it = node.args[1]
        if isinstance(it, ast.Call) and isinstance(it.func, ast.Name) and it.func.id == 'zip' and len(it.args) == 2 and not it.keywords:
            (a, ta), (b, tb) = self.ex(it.args[0]), self.ex(it.args[1])
            if not all(isinstance(t, tuple) and t[0] == 'List' for t in (ta, tb)):
                raise Shape('%s: zip of %s and %s' % (self.name, ty(ta), ty(tb)))
            x, tx = '(List.zip %s %s)' % (a, b), L(P(ta[1], tb[1]))
        else:
            x, tx = self.ex(it)
        if not (isinstance(tx, tuple) and tx[0] == 'List' and tx[1] == m['params'][0][1]):
            raise Shape('%s: map of self.%s over a %s' % (self.name, node.args[0].attr, ty(tx)))
        return '(← List.mapM (fun x => py_SequenceConstraint_%s x) %s)' % (m['lean'], x), L(m['ret'])

    def ex(self, node, expect=None):
        r = self.mapped_method(node)
        if r is not None:
            return r
        if isinstance(node, ast.Call) and isinstance(node.func, ast.Name) and node.func.id == 'list' and len(node.args) == 1 and not node.keywords:
            r = self.mapped_method(node.args[0])
            if r is not None:
                return r
            a, ta = self.ex(node.args[0])
            if ta == TEXT and expect == L(TEXT):
                return '(List.map (fun c => [c]) %s)' % a, L(TEXT)
            if ta == L(TEXT):
                return a, ta
        if isinstance(node, ast.Dict):
            if not (expect and expect[0] == 'Dict'):
                raise Shape('%s: cannot type the dict display' % self.name)
            items = []
            for k, v in zip(node.keys, node.values):
                if k is None:
                    raise Shape('%s: ** in a dict display' % self.name)
                (kc, kt), (vc, vt) = self.ex(k, expect[1]), self.ex(v, expect[2])
                kc, vc = self.need(kc, kt, expect[1]), self.need(vc, vt, expect[2])
                if '←' in kc + vc:
                    raise Shape('%s: fallible item of a dict display' % self.name)
                items.append('(%s, %s)' % (kc, vc))
            return '(Py.LegS_dictOf [%s])' % ', '.join(items), expect
        if isinstance(node, ast.Subscript) and isinstance(node.slice, ast.Slice) and node.slice.lower is None and node.slice.upper is None \
                and node.slice.step is not None and ast.unparse(node.slice.step) == '-1':
            a, ta = self.ex(node.value)
            if not (isinstance(ta, tuple) and ta[0] == 'List'):
                raise Shape('%s: [::-1] of a %s' % (self.name, ty(ta)))
            return '(List.reverse %s)' % a, ta
        return super().ex(node, expect)

    def iter_ex(self, node):
        if isinstance(node, ast.Name) and node.id in self.params and self.params[node.id] == P(TEXT, TEXT):
            v = self.var(node.id)[0]
            return '[%s.1, %s.2]' % (v, v), L(TEXT)
        return super().iter_ex(node)

    # (a Unit method that rebinds a parameter - `con = list(con)` - starts the local as the parameter: pymethod.run_unit does that now)

    def stmt(self, st, out, ind, inloop):
        if isinstance(st, ast.Expr) and isinstance(st.value, ast.Call) and ast.unparse(st.value.func) == 'warnings.warn' \
                and len(st.value.args) == 1 and isinstance(st.value.args[0], ast.Constant) and not st.value.keywords:
            out.append(ind + '-- warnings.warn(…)')
            return
        return super().stmt(st, out, ind, inloop)


def gen_pylegacyseq(repo):
    out = ['/- GENERATED by translator/pylegacy4.py from the Python source — do not edit. -/',
           'import DsdVerif.Model.PyPreludeLegacySeq', '', 'set_option linter.unusedVariables false', '', 'namespace Dsd.Gen', 'open Dsd', '']
    tree = ast.parse(open(os.path.join(repo, PATH)).read())
    builtins_unshadowed(tree, {'list', 'map', 'len', 'zip'})
    cls = find_class(tree, CLS)
    out.append('/-- a legacy `SequenceConstraint` object -/')
    out.append('structure SequenceConstraint.Self where\n' + '\n'.join('  %s : %s' % (a, ty(t)) for a, t in ATTRS) + '\nderiving Repr, DecidableEq\n')
    out.append('abbrev SequenceConstraint.M := Py.MS SequenceConstraint.Self\n')
    methods, summary, untranslated = {}, {}, {}
    for spec in METHODS:
        full = 'SequenceConstraint_' + spec['lean']
        s = dict(spec, name=full, lean=full, lean_full=full, path=PATH, str_is_builtin=True)
        sig = ' '.join('(%s : %s)' % (ident(q), ty(tq)) for q, tq in spec['params'])
        rt = 'Unit' if spec['ret'] == 'Unit' else '(%s)' % ty(spec['ret'])
        tx, pure_self = None, False
        try:
            fn = find_method(cls, spec['method'], spec['kind'])
            fn2 = without_self(fn)
            s['_fn'] = fn2
            check_signature(fn2, s)
            if spec.get('ctor'):
                top = {st.targets[0].attr for st in fn2.body if isinstance(st, ast.Assign) and len(st.targets) == 1
                       and isinstance(st.targets[0], ast.Attribute) and is_self(st.targets[0].value)}
                if top != {a for a, _ in ATTRS}:
                    raise Shape('%s: attributes assigned at the top level: %s' % (full, sorted(top)))
            uses = {}
            for u in spec.get('uses', ()):
                if u not in methods:
                    raise Shape('%s: self.%s is not translated before it' % (full, u))
                uses[u] = methods[u]
            definite_assignment(fn2, [p for p, _ in spec['params']] + ['self', 'warnings', 'DSDObjectsError'], full)
            pure_self = not any(isinstance(n, ast.Attribute) and is_self(n.value) and isinstance(n.ctx, ast.Store) for n in ast.walk(fn2))
            tx = LegacySeqTx(s, fn2, {}, uses)
            text = tx.run()
        except Shape as e:
            untranslated[full] = str(e)
            text = ('/-- `%s` (%s) could NOT be translated: %s -/\n' % (full, PATH, str(e).replace('-/', '- /')) +
                    'def py_%s %s : SequenceConstraint.M %s := throw (Err.fault "untranslated")\n' % (full, sig, rt))
        out.append(text)
        methods[spec['method']] = dict(spec, lean=spec['lean'], pure_self=pure_self and all(methods[u].get('pure_self') for u in spec.get('uses', ()) if u in methods))
        summary[full] = {'loops': tx.nloops if tx else 0}
    out.append('end Dsd.Gen')
    if untranslated:
        summary['untranslated'] = untranslated
    return '\n'.join(out) + '\n', summary


if __name__ == '__main__':
    text, summ = gen_pylegacyseq(sys.argv[1])
    sys.stdout.write(text)
    sys.stderr.write(repr(summ) + '\n')
