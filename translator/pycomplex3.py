#!/usr/bin/env python3
"""Statement-level translation of `ComplexS.__init__` (dsdobjects/base_classes.py) - ALL of it - into Lean 4 (`Gen/PyComplexS3.lean`).

    /venv/bin/python translator/pycomplex3.py <repo>  > lean/DsdVerif/Gen/PyComplexS3.lean

translator/pymethod.py reads only the attribute initialisation off `__init__` (`py_ComplexS_init`).  Here the whole body is transcribed
STATEMENT BY STATEMENT: the assertions, the automatic name, `cls.ID += 1`, every attribute assignment, and the registration loop
`for rcplx in rcplxs: cls._instanceCanon[rcplx] = self`  ->  `py_ComplexS_init_full self_ sequence structure name prefix canon turns rcplxs`.
An extension of pymethod.py (`InitTx(MethodTx)`): same rules, same refusal policy (`Shape`; a refused method becomes a raising stub and
is reported under `untranslated`); nothing about what `__init__` is supposed to do is known here.

Reading of Python ADDED here (the trusted part):

  state       the record `ComplexS3.St`: the attributes of the NEW object (one field per attribute assigned in `__init__`, typed by the stub
              ATTRS3; an assignment to any other attribute is refused) together with the three class attributes the body touches:
              `cls_PREFIX : String`, `cls_ID : Nat`, `cls_instanceCanon : List (CKey × Nat)` (the `WeakValueDictionary` as the
              association list canonical form ↦ object id of its live entries: the reading of Model/PyPreludeSingleton.lean).  A method
              is a computation in `Py.MS ComplexS3.St`.  Checked: `PREFIX` and `ID` are assigned in the class body by constants.
              Subclasses that shadow them, and `ID` as an instance attribute, are outside.
  self        as a VALUE (only in `cls._instanceCanon[k] = self`) is the object id, the extra first parameter `self_ : Nat`.
  cls = self.__class__   (first statement, `cls` never rebound): `cls.x` and `self.__class__.x` are the class attribute `x`:
              read `(← get).cls_x`; `self.__class__.ID += 1` is `modify fun s => { s with cls_ID := s.cls_ID + 1 }`.
  f'{a}{b}'   replacement fields only (no literal text, conversion or format spec) of strs and non-negative ints: the concatenation of
              `str(x)`, `Py.strNat` (decimal) for an int (Model/PyPreludeIdent.lean, as translator/pyident.py reads the same expression)
  A if x is None else B   for a `None`-able parameter `x`: `(← (match x with | none => (do pure A) | some x => (do pure B)))` - in `B`, `x` is the
              value that is not None
  d[k] = self   on `cls._instanceCanon`: `Py.dictSet` (pyfunc.py's dict rule: the value of an existing key is replaced, a new key is
              appended), `k` evaluated first
  prefix      the parameter `prefix` is written `prefix_` in Lean (`prefix` is a keyword there)
  parameters  `name` is rebound (pyfunc.py: a local initialised from the parameter); `turns` (`None` or an int) is stored in the int
              attribute `_turns`: `(← Py.unwrap turns)`, TypeError for None - unreachable after `assert turns is not None`;
              likewise `_name` after the `if name is None` block.
"""
import ast, os, sys
sys.path.insert(0, os.path.dirname(os.path.abspath(__file__)))
from pyfunc import (FuncTx, Shape, NAT, INT, CHAR, STR, BOOL, L, O, P, LOC, PTAB, STAB, ty, ident, monadic, check_signature,
                    definite_assignment, builtins_unshadowed)
from pymethod import MethodTx, PATH, CLS, find_class, without_self, is_self, ATTRS

CKEY = P(L(STR), L(CHAR))
ATTRS3 = [('_sequence', L(STR)), ('_structure', L(CHAR)), ('_name', STR), ('_canon', O(CKEY)), ('_turns', INT),
          ('_strand_table', O(STAB)), ('_pair_table', O(PTAB)), ('_loop_index', O(L(L(NAT)))), ('_domains', O(L(STR))),
          ('_exterior_domains', O(L(LOC))), ('_enclosed_domains', O(L(LOC))), ('_exterior_loops', O(L(NAT))),
          ('_concentration', O(P(STR, P('Rat', STR))))]
CLS_ATTRS = {'PREFIX': STR, 'ID': NAT, '_instanceCanon': ('Dict', CKEY, NAT)}
INIT = dict(name='ComplexS_init_full', lean='ComplexS_init_full', lean_full='ComplexS_init_full', path=PATH,
            params=[('sequence', L(STR)), ('structure', L(CHAR)), ('name', O(STR)), ('prefix', O(STR)), ('canon', O(CKEY)),
                    ('turns', O(INT)), ('rcplxs', L(CKEY))],
            locals={}, ret='Unit')


class InitTx(MethodTx):
    M = 'ComplexS3.M'

    def __init__(self, spec, fn):
        FuncTx.__init__(self, dict(spec, params=[('self_', NAT)] + list(spec['params'])), fn, specs={})
        self.methods, self.attrs, self.exc, self.fresh_attrs, self.ntmp = {}, dict(ATTRS3), {}, set(), 0
        self.cls_alias = None
        if any(isinstance(n, ast.Name) and n.id == 'self_' for n in ast.walk(fn)):
            raise Shape('%s: the name self_ is used by the translation' % self.name)
        for n in ast.walk(fn):
            if is_self(n) and not isinstance(n.ctx, ast.Load):
                raise Shape('%s: self is assigned' % self.name)

    def class_attr(self, node):
        """`cls.x` / `self.__class__.x` for a declared class attribute `x`, else None"""
        if isinstance(node, ast.Attribute) and node.attr in CLS_ATTRS:
            b = node.value
            if (isinstance(b, ast.Name) and self.cls_alias is not None and b.id == self.cls_alias) or \
                    (isinstance(b, ast.Attribute) and is_self(b.value) and b.attr == '__class__'):
                return node.attr
        return None

    def ex(self, node, expect=None):
        a = self.class_attr(node)
        if a is not None:
            return '(← get).cls%s%s' % ('' if a.startswith('_') else '_', a), CLS_ATTRS[a]
        if isinstance(node, ast.JoinedStr):
            parts = []
            for x in node.values:
                if not (isinstance(x, ast.FormattedValue) and x.conversion == -1 and x.format_spec is None):
                    raise Shape('%s: f-string shape: %s' % (self.name, ast.unparse(node)[:60]))
                c, t = self.ex(x.value)
                if t == STR:
                    parts.append(c)
                elif t == NAT:
                    parts.append('(Py.strNat %s)' % c)
                else:
                    raise Shape('%s: f-string field of type %s' % (self.name, ty(t)))
            if len(parts) < 2:
                raise Shape('%s: f-string shape: %s' % (self.name, ast.unparse(node)[:60]))
            return '(' + ' ++ '.join(parts) + ')', STR
        if isinstance(node, ast.IfExp) and isinstance(node.test, ast.Compare) and len(node.test.ops) == 1 \
                and isinstance(node.test.ops[0], ast.Is) and isinstance(node.test.left, ast.Name) \
                and isinstance(node.test.comparators[0], ast.Constant) and node.test.comparators[0].value is None:
            x = node.test.left.id
            cx, tx = self.var(x)
            if not (isinstance(tx, tuple) and tx[0] == 'Option') or x in self.locals or x in self.loopvars or x not in self.params:
                raise Shape('%s: `… if %s is None else …` needs a None-able parameter that is not rebound' % (self.name, x))
            a, ta = self.ex(node.body, expect)
            saved = dict(self.loopvars)
            self.loopvars[x] = tx[1]
            b, tb = self.ex(node.orelse, expect)
            self.loopvars = saved
            if ta != tb:
                raise Shape('%s: conditional expression of a %s and a %s' % (self.name, ty(ta), ty(tb)))
            return '(← (match %s with | none => %s | some %s => %s))' % (cx, monadic(a), ident(x), monadic(b)), ta
        return super().ex(node, expect)

    def stmt(self, st, out, ind, inloop):
        # cls = self.__class__
        if isinstance(st, ast.Assign) and len(st.targets) == 1 and isinstance(st.targets[0], ast.Name) \
                and isinstance(st.value, ast.Attribute) and is_self(st.value.value) and st.value.attr == '__class__':
            n = st.targets[0].id
            stores = [m for m in ast.walk(self.fn) if isinstance(m, ast.Name) and m.id == n and not isinstance(m.ctx, ast.Load)]
            if inloop or self.cls_alias is not None or len(stores) != 1 or st is not self.fn.body[0] or n in self.params or n in self.locals:
                raise Shape('%s: `%s = self.__class__` must be the first statement and the only binding of %s' % (self.name, n, n))
            self.cls_alias = n
            out.append(ind + '-- %s = self.__class__      (the class: its attributes are the fields cls_… of the state)' % n)
            return
        # self.__class__.ID += 1
        if isinstance(st, ast.AugAssign) and isinstance(st.op, ast.Add) and self.class_attr(st.target) == 'ID' \
                and isinstance(st.value, ast.Constant) and isinstance(st.value.value, int) and not isinstance(st.value.value, bool) \
                and st.value.value >= 0:
            out.append(ind + 'modify (fun s => { s with cls_ID := s.cls_ID + %d })      -- %s' % (st.value.value, ast.unparse(st)))
            return
        # cls._instanceCanon[k] = self
        if isinstance(st, ast.Assign) and len(st.targets) == 1 and isinstance(st.targets[0], ast.Subscript) \
                and self.class_attr(st.targets[0].value) == '_instanceCanon' and is_self(st.value):
            k, tk = self.ex(st.targets[0].slice, CKEY)
            if tk != CKEY:
                raise Shape('%s: key of type %s in _instanceCanon' % (self.name, ty(tk)))
            n = self.tmp(k, out, ind)
            out.append(ind + 'modify (fun s => { s with cls_instanceCanon := Py.dictSet s.cls_instanceCanon %s self_ })      -- %s' % (n, ast.unparse(st)))
            return
        for n in ast.walk(st) if not isinstance(st, (ast.For, ast.If)) else []:
            if is_self(n):
                # every other use of `self` must be `self.<declared attribute> = …` or `self.__class__.…`
                pass
        return super().stmt(st, out, ind, inloop)


def check_class_constants(cls):
    for name, pytype in (('PREFIX', str), ('ID', int)):
        asg = [n for n in cls.body if isinstance(n, ast.Assign) and len(n.targets) == 1 and isinstance(n.targets[0], ast.Name)
               and n.targets[0].id == name]
        if len(asg) != 1 or not isinstance(asg[0].value, ast.Constant) or type(asg[0].value.value) is not pytype:
            raise Shape('%s.%s is not assigned once, by a constant, in the class body' % (cls.name, name))


def gen_pycomplex3(repo):
    out = ['/- GENERATED by translator/pycomplex3.py from the Python source — do not edit. -/',
           'import DsdVerif.Gen.PyComplexS', 'import DsdVerif.Model.PyPreludeIdent', 'import DsdVerif.Model.PyPreludeSingleton', '',
           'set_option linter.unusedVariables false', '', 'namespace Dsd.Gen', 'open Dsd', '']
    tree = ast.parse(open(os.path.join(repo, PATH)).read())
    builtins_unshadowed(tree, {'isinstance', 'len', 'str'})
    cls = find_class(tree, CLS)
    out.append('/-- the attributes of a new `ComplexS` object and the class attributes that `__init__` reads or writes -/')
    out.append('structure ComplexS3.St where\n  cls_PREFIX : String\n  cls_ID : Nat\n  cls_instanceCanon : List (((List String) × (List Char)) × Nat)\n' +
               '\n'.join('  %s : %s' % (a, ty(t)) for a, t in ATTRS3) + '\nderiving Repr\n')
    out.append('abbrev ComplexS3.M := Py.MS ComplexS3.St\n')
    summary, untranslated = {}, {}
    fn, tx = None, None
    try:
        check_class_constants(cls)
        fns = [n for n in cls.body if isinstance(n, ast.FunctionDef) and n.name == '__init__']
        if len(fns) != 1 or fns[0].decorator_list:
            raise Shape('%s.__init__ not found exactly once' % CLS)
        fn = fns[0]
        import copy
        fn2 = copy.deepcopy(without_self(fn))
        check_signature(fn2, INIT)
        definite_assignment(fn2, [p for p, _ in INIT['params']] + ['self'], INIT['name'])
        # `prefix` is a keyword of Lean: the parameter is written `prefix_` (as translator/pyident.py does)
        if any(isinstance(n, (ast.Name, ast.arg)) and getattr(n, 'id', getattr(n, 'arg', None)) == 'prefix_' for n in ast.walk(fn2)):
            raise Shape('the name prefix_ is used by the translation')
        for n in ast.walk(fn2):
            if isinstance(n, ast.Name) and n.id == 'prefix':
                n.id = 'prefix_'
            elif isinstance(n, ast.arg) and n.arg == 'prefix':
                n.arg = 'prefix_'
        spec = dict(INIT, params=[(('prefix_' if q == 'prefix' else q), t) for q, t in INIT['params']])
        tx = InitTx(spec, fn2)
        text = tx.run()
        init = ', '.join('%s := %s' % (ident(p), ident(p)) for p in tx.rebound)
        text = text.replace('let mut v : %s.Vars := {  }' % INIT['name'], 'let mut v : %s.Vars := { %s }' % (INIT['name'], init))
        stores = {n.attr for n in ast.walk(fn) if isinstance(n, ast.Attribute) and is_self(n.value) and not isinstance(n.ctx, ast.Load)}
        if stores != {a for a, _ in ATTRS3}:
            raise Shape('__init__ assigns %s, the stub declares %s' % (sorted(stores), sorted(a for a, _ in ATTRS3)))
    except Shape as e:
        untranslated[INIT['name']] = str(e)
        sig = ' '.join('(%s : %s)' % (ident(q), ty(t)) for q, t in [('self_', NAT)] + [(('prefix_' if q0 == 'prefix' else q0), t0) for q0, t0 in INIT['params']])
        text = ('/-- `%s` (%s) could NOT be translated: %s -/\n' % (INIT['name'], PATH, str(e).replace('-/', '- /')) +
                'def py_%s %s : ComplexS3.M Unit := throw (Err.fault "untranslated")\n' % (INIT['name'], sig))
    out.append(text)
    out.append('end Dsd.Gen')
    summary[INIT['name']] = {'statements': (sum(1 for _ in ast.walk(fn) if isinstance(_, ast.stmt)) - 1) if fn else 0,
                             'loops': tx.nloops if tx else 0, 'source_lines': (fn.end_lineno - fn.lineno + 1) if fn else 0}
    if untranslated:
        summary['untranslated'] = untranslated
    return '\n'.join(out) + '\n', summary


if __name__ == '__main__':
    text, summ = gen_pycomplex3(sys.argv[1])
    sys.stdout.write(text)
    sys.stderr.write(repr(summ) + '\n')
