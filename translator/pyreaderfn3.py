#!/usr/bin/env python3
"""Statement-level translation of `read_pil_line(raw)` of dsdobjects/objectio.py into Lean 4 (`Gen/PyReadLine.lean`), BRANCH BY BRANCH.

    python3 translator/pyreaderfn3.py <repo>  > lean/DsdVerif/Gen/PyReadLine.lean

An extension of translator/pyreaderfn.py (`ReadLineTx(ReactionTx)`; token trees with Python's duck typing: `x[i]`, `len(x)`, `x != []`, `float(x)`,
`log.warning(…)`, 6-tuples) and of translator/pyfunc.py: same refusal policy (`Shape`).  A BRANCH of the `if / elif` chain on `line[0]` that has none of
the accepted shapes becomes `throw (Err.fault "untranslated")` and is reported in the summary (`untranslated`); the other branches keep their translation.

Reading of Python that is ADDED here (together with Model/PyPreludeReadLine.lean) - the trusted part:

  typed instance  `raw` is a parsed statement (`List PP.Tree`): `isinstance(raw, str)` is False, only the `else:` branch (`line = raw`) is translated.
  objects        an object of the reader's classes is an opaque handle `RL.Handle`.  The module-level names are the fields of ONE parameter
              `env : RL.Env ω`, computations in `Py.MS ω = ExceptT Err (StateM ω)` over an opaque object world (the world keeps what happened before
              an exception).  `G is not None` / `G is None` for a slot `G`: `(env.g.G).isSome` / `.isNone`.
  G(args)        a call of a slot (stub `CTOR`: the parameter names of the library classes' `__init__`, positional or keyword; omitted
              parameters are `None`): `(← RL.call env.g.G (env.G a1 …))` - the arguments evaluated left to right, then the call: TypeError when the slot
              `G` is `None` (a branch guards ONE slot but may call another: `composite-domain` tests `Strand` and calls `Domain`), else the request.  `Complex(a, None, n)`: the second argument
              must be the literal `None` (only the look-up form is translated).
  strand-complex   `list(E.sequence)` for a strand object `E`: `(← env.strand_sequence E)` (a request: the domain objects of the strand);
              `strand_table_to_sequence(st)` (imported from .complex_utils: checked): the parameter `env.strand_table_to_sequence`; `x.replace('a', 'b')` on a
              token tree: `(← Py.treeReplace x "a" "b")` (AttributeError for a list); `list(x)`: `Py.treeItems x`; `Complex(seq, chars, name = n)` with a
              second argument that is not the literal `None`: the request `env.ComplexNew seq chars n` (`seq` a list of objects and `'+'` = `none`);
              `sequence` is a retyped local where it is assigned `strand_table_to_sequence(…)` (stub `retype_by`).
  x == 'lit'     `x` typed `PP.Tree` / `Option PP.Tree`: `Py.treeEqStr x "lit"` / `Py.otreeEqStr` (a list equals no str).
  int(x)         `x` typed `PP.Tree`: `(← Py.treeInt x) : Nat` (decimal digits; TypeError for a list, ValueError otherwise).
  [e for y in x] `x` typed `PP.Tree` (or `Option PP.Tree`: TypeError for `None`): the `FuncTx` comprehension over `Py.treeItems x` (the items of a list,
              the characters of a str); `e` may be a request: `List.mapM`, in order, the first exception abandons the list.
  a, b, c, d, e, f = read_reaction(line)    the translated `Gen.py_read_reaction env.RTYPES env.g12 env.strL line` (Gen/PyReaderFns.lean), unpacked.
  retyped locals a local listed in the stub's `retype` that is assigned a list comprehension starts a NEW variable (`x_2`) from that statement on
              (Python variables are untyped; the old value is dead afterwards: all later reads in the block are renamed, checked syntactically).
  x.sequence = e / x.rate_constant = (a, b)    `x` a local handle: `env.set_sequence x e` / `env.set_rate_constant x a b` (after the value was evaluated).
  try: S… except KeyError as err: raise PilFormatError(…)    `try … catch`: `Err.fault "KeyError"` becomes `Err.pilFormat`; `S…` assign locals.
  return x       a handle is `RL.Val.obj x`, the parsed line is `RL.Val.raw line`.
  log.warning(f'…{e}…')   as in pyreaderfn.py; a field that is an expression is evaluated (it can raise), then dropped.
"""
import ast, copy, os, sys
sys.path.insert(0, os.path.dirname(os.path.abspath(__file__)))
from pyfunc import (FuncTx, Shape, NAT, STR, BOOL, L, O, P, ty, ident, monadic, check_signature, definite_assignment, builtins_unshadowed,
                    find_function)
from pyreaderfn import ReactionTx, TREE, FLOAT, tup, module_checks

PATH = 'dsdobjects/objectio.py'
H, VAL = 'RL.Handle', 'RL.Val'
SLOTS = ['Domain', 'Strand', 'Complex', 'Macrostate', 'Reaction']
CTOR = {'Domain': [('name', TREE), ('length', O(NAT))],
        'Strand': [('sequence', O(L(H))), ('name', TREE)],
        'Complex': [('sequence', O(L(H))), ('structure', None), ('name', TREE)],
        'Macrostate': [('complexes', O(L(H))), ('name', TREE)],
        'Reaction': [('reactants', L(H)), ('products', L(H)), ('rtype', TREE)]}
RR6 = tup(O(TREE), O(TREE), O(TREE), O(FLOAT), O(TREE), O(STR))

READ_LINE = dict(path=PATH, name='read_pil_line',
                 params=[('raw', L(TREE))],
                 locals={'line': L(TREE), 'name': TREE, 'dlen': NAT, 'anon': H, 'sequence': L(H), 'cplxs': L(H),
                         'reactants': O(TREE), 'products': O(TREE), 'rtype': O(TREE), 'rate': O(FLOAT), 'units': O(TREE), 'r': O(STR),
                         'reactants_2': L(H), 'products_2': L(H), 'st': L(L(H)), 'structure': TREE, 'sequence_2': L(O(H))},
                 retype={'reactants': 'reactants_2', 'products': 'products_2', 'sequence': 'sequence_2'},
                 retype_by={'sequence': 'strand_table_to_sequence'},      # `sequence` is retyped only where it is assigned this call
                 extra=[('env', 'RL.Env ω')],
                 exc={'PilFormatError': 'Err.pilFormat'},
                 ret=VAL)


class Retype(ast.NodeTransformer):
    """rule "retyped locals": `x = [… for …]` for a name of `table` starts the new variable `table[x]`"""
    def __init__(self, table, by=None):
        self.table = table
        self.by = by or {}

    def starts_new(self, st):
        if not (isinstance(st, ast.Assign) and len(st.targets) == 1 and isinstance(st.targets[0], ast.Name) and st.targets[0].id in self.table):
            return False
        x = st.targets[0].id
        if x in self.by:
            return isinstance(st.value, ast.Call) and isinstance(st.value.func, ast.Name) and st.value.func.id == self.by[x]
        return isinstance(st.value, ast.ListComp)

    def block(self, body, m):
        out = []
        for st in body:
            out.append(self.stmt(st, m))
        return out

    def rename(self, node, m):
        for n in ast.walk(node):
            if isinstance(n, ast.Name) and n.id in m:
                n.id = m[n.id]
        return node

    def stmt(self, st, m):
        if self.starts_new(st):
            self.rename(st.value, m)
            m[st.targets[0].id] = self.table[st.targets[0].id]
            st.targets[0].id = self.table[st.targets[0].id]
            return st
        if isinstance(st, ast.If):
            self.rename(st.test, m)
            a, b = dict(m), dict(m)
            st.body, st.orelse = self.block(st.body, a), self.block(st.orelse, b)
            if a != b and not (st.body and isinstance(st.body[-1], (ast.Return, ast.Raise))) and not (st.orelse and isinstance(st.orelse[-1], (ast.Return, ast.Raise))):
                # both branches fall through with different variables: only accepted when nothing after reads them (checked by the caller's
                # definite-assignment pass: the old names stay, the new ones are assigned in one branch only)
                pass
            return st
        if isinstance(st, ast.Try):
            st.body = self.block(st.body, m)
            for h in st.handlers:
                h.body = self.block(h.body, dict(m))
            return st
        if isinstance(st, (ast.For, ast.While, ast.With, ast.FunctionDef)):
            if any(isinstance(n, ast.Name) and n.id in m for n in ast.walk(st)):      # a variable that WAS renamed before is used inside
                raise Shape('retyped local inside %s' % type(st).__name__)
            return st
        return self.rename(st, m)


class ReadLineTx(ReactionTx):
    M = 'Py.MS ω'

    def static_test(self, node):
        if isinstance(node, ast.Call) and isinstance(node.func, ast.Name) and node.func.id == 'isinstance' and len(node.args) == 2 \
                and isinstance(node.args[0], ast.Name) and node.args[0].id == 'raw' and isinstance(node.args[1], ast.Name) and node.args[1].id == 'str':
            return False                                  # this typed instance: `raw` is a parsed statement (a list)
        return None

    def need(self, code, t, want):
        if want == VAL and t == H:
            return '(RL.Val.obj %s)' % code
        if want == VAL and t == L(TREE):
            return '(RL.Val.raw %s)' % code
        return super().need(code, t, want)

    def truthy(self, node):
        if isinstance(node, ast.BoolOp) and isinstance(node.op, ast.And):
            first = self.truthy(node.values[0])            # evaluated first and unconditionally: may be lifted to the statement
            return '(' + ' && '.join([first] + [self.pure(self.truthy(x)) for x in node.values[1:]]) + ')'
        return super().truthy(node)

    def is_slot(self, node):
        return isinstance(node, ast.Name) and node.id in SLOTS and node.id not in self.locals and node.id not in self.loopvars \
            and node.id not in self.params

    def ex(self, node, expect=None):
        if isinstance(node, ast.Compare) and len(node.ops) == 1:
            op, l, r = node.ops[0], node.left, node.comparators[0]
            if isinstance(op, (ast.Is, ast.IsNot)) and isinstance(r, ast.Constant) and r.value is None and self.is_slot(l):
                return ('(env.g.%s).isNone' if isinstance(op, ast.Is) else '(env.g.%s).isSome') % l.id, BOOL
            if isinstance(op, (ast.Eq, ast.NotEq)) and isinstance(r, ast.Constant) and isinstance(r.value, str):
                a, ta = self.ex(l)
                if ta in (TREE, O(TREE)):
                    c = '(Py.%s %s %s)' % ('treeEqStr' if ta == TREE else 'otreeEqStr', a, '"%s"' % r.value.replace('\\', '\\\\').replace('"', '\\"'))
                    return (c if isinstance(op, ast.Eq) else '(!%s)' % c), BOOL
        if isinstance(node, ast.Call) and isinstance(node.func, ast.Name):
            f = node.func.id
            if f == 'int' and len(node.args) == 1 and not node.keywords:
                a, ta = self.ex(node.args[0])
                if ta != TREE:
                    raise Shape('%s: int() of a %s' % (self.name, ty(ta)))
                return '(← Py.treeInt %s)' % a, NAT
            if f == 'list' and len(node.args) == 1 and not node.keywords:
                g = node.args[0]
                if isinstance(g, ast.Attribute) and g.attr == 'sequence':           # list(E.sequence) for a strand object E
                    a, ta = self.ex(g.value)
                    if ta != H:
                        raise Shape('%s: .sequence of a %s' % (self.name, ty(ta)))
                    return '(← env.strand_sequence %s)' % a, L(H)
                a, ta = self.ex(g)
                if ta == TREE:                                                      # list(x): the items of a list, the characters of a str
                    return '(Py.treeItems %s)' % a, L(TREE)
            if f == 'strand_table_to_sequence' and len(node.args) == 1 and not node.keywords and self.spec.get('_stts_ok'):
                a, ta = self.ex(node.args[0], L(L(H)))
                if ta != L(L(H)):
                    raise Shape('%s: strand_table_to_sequence of a %s' % (self.name, ty(ta)))
                return '(← env.strand_table_to_sequence %s)' % a, L(O(H))
            if f == '__tree_items__':
                a, ta = self.ex(node.args[0])
                if ta == O(TREE):
                    a, ta = '(← Py.unwrap %s)' % a, TREE      # iterating None: TypeError
                if ta != TREE:
                    raise Shape('%s: comprehension over a %s' % (self.name, ty(ta)))
                return '(Py.treeItems %s)' % a, L(TREE)
            if f == 'read_reaction' and len(node.args) == 1 and not node.keywords and self.spec.get('_rr_ok'):
                a, ta = self.ex(node.args[0], L(TREE))
                if ta != L(TREE):
                    raise Shape('%s: read_reaction of a %s' % (self.name, ty(ta)))
                return '(← Gen.py_read_reaction env.RTYPES env.g12 env.strL %s)' % a, RR6
            if self.is_slot(node.func):
                params = CTOR[f]
                field = f
                if f == 'Complex' and len(node.args) >= 2 and not (isinstance(node.args[1], ast.Constant) and node.args[1].value is None):
                    params, field = [('sequence', L(O(H))), ('structure', L(TREE)), ('name', TREE)], 'ComplexNew'      # Complex(seq, list(structure), name = n)
                names = [p for p, _ in params]
                if len(node.args) > len(names) or any(isinstance(a, ast.Starred) for a in node.args):
                    raise Shape('%s: call shape: %s' % (self.name, ast.unparse(node)[:60]))
                given = dict(zip(names, node.args))
                for kw in node.keywords:
                    if kw.arg is None or kw.arg not in names or kw.arg in given:
                        raise Shape('%s: keyword argument of %s' % (self.name, f))
                    given[kw.arg] = kw.value
                order = names[:len(node.args)] + [kw.arg for kw in node.keywords]
                if order != [q for q in names if q in given]:
                    raise Shape('%s: keyword arguments of %s out of order' % (self.name, f))
                args = []
                for q, tq in params:
                    if tq is None:                              # must be the literal None (dropped)
                        g = given.get(q)
                        if not (g is None or (isinstance(g, ast.Constant) and g.value is None)):
                            raise Shape('%s: %s(…) with %s = %s: only None is translated' % (self.name, f, q, ast.unparse(g)[:30]))
                        continue
                    if q not in given:
                        if not (isinstance(tq, tuple) and tq[0] == 'Option'):
                            raise Shape('%s: %s is called without %s' % (self.name, f, q))
                        args.append('none')
                        continue
                    c, tc = self.ex(given[q], tq)
                    args.append(self.need(c, tc, tq))
                return '(← RL.call env.g.%s (env.%s %s))' % (f, field, ' '.join(args)), H
        if isinstance(node, ast.Call) and isinstance(node.func, ast.Attribute) and node.func.attr == 'replace' and len(node.args) == 2 \
                and not node.keywords and all(isinstance(a, ast.Constant) and isinstance(a.value, str) for a in node.args):
            a, ta = self.ex(node.func.value)
            if ta != TREE:
                raise Shape('%s: .replace on a %s' % (self.name, ty(ta)))
            q = lambda v: '"%s"' % v.replace('\\', '\\\\').replace('"', '\\"')
            return '(← Py.treeReplace %s %s %s)' % (a, q(node.args[0].value), q(node.args[1].value)), TREE
        if isinstance(node, ast.Name) and node.id in SLOTS and self.is_slot(node):
            raise Shape('%s: the slot %s is used other than in `is None` tests and calls' % (self.name, node.id))
        return super().ex(node, expect)

    def mapped(self, x, body, iter_, expect):
        _, t = self.ex(iter_)
        if t in (TREE, O(TREE)):
            iter_ = ast.Call(func=ast.Name(id='__tree_items__', ctx=ast.Load()), args=[iter_], keywords=[])
        return super().mapped(x, body, iter_, expect)

    def stmt(self, st, out, ind, inloop):
        if isinstance(st, ast.Raise) and isinstance(st.exc, ast.Call) and isinstance(st.exc.func, ast.Name) and st.exc.func.id == '__untranslated__':
            out.append(ind + 'throw (Err.fault "untranslated")      -- this branch has none of the accepted shapes: %s' % st.exc.args[0].value)
            return
        # a, b, c, d, e, f = <6-tuple>
        if isinstance(st, ast.Assign) and len(st.targets) == 1 and isinstance(st.targets[0], ast.Tuple) and len(st.targets[0].elts) > 2 \
                and all(isinstance(e, ast.Name) for e in st.targets[0].elts):
            c, tc = self.ex(st.value)
            self.ntmp = getattr(self, 'ntmp', 0) + 1
            t = 't%d' % self.ntmp
            out.append(ind + 'let %s := %s      -- %s = …' % (t, c, ast.unparse(st.targets[0])))
            path = t
            elts = st.targets[0].elts
            for k, e in enumerate(elts):
                last = k == len(elts) - 1
                if not last and not (isinstance(tc, tuple) and tc[0] == 'Prod'):
                    raise Shape('%s: unpacking %d names from a %s' % (self.name, len(elts), ty(tc)))
                code, te = (path, tc) if last else (path + '.1', tc[1])
                if last and isinstance(tc, tuple) and tc[0] == 'Prod':
                    raise Shape('%s: too few names to unpack' % self.name)
                if e.id not in self.locals or e.id in self.loopvars:
                    raise Shape('%s: unpacking into %s' % (self.name, e.id))
                out.append(ind + self.set_local(e.id, self.need(code, te, self.locals[e.id])))
                if not last:
                    path, tc = path + '.2', tc[2]
            return
        # x.sequence = e / x.rate_constant = (a, b)
        if isinstance(st, ast.Assign) and len(st.targets) == 1 and isinstance(st.targets[0], ast.Attribute):
            tg = st.targets[0]
            if not (isinstance(tg.value, ast.Name) and self.locals.get(tg.value.id) == H and tg.value.id not in self.loopvars):
                raise Shape('%s: attribute assignment %s' % (self.name, ast.unparse(tg)))
            x = self.var(tg.value.id)[0]
            if tg.attr == 'sequence':
                c, tc = self.ex(st.value, TREE)
                out.append(ind + 'env.set_sequence %s %s      -- %s' % (x, self.need(c, tc, TREE), ast.unparse(st)[:50]))
                return
            if tg.attr == 'rate_constant' and isinstance(st.value, ast.Tuple) and len(st.value.elts) == 2:
                (a, ta), (b, tb) = self.ex(st.value.elts[0], FLOAT), self.ex(st.value.elts[1], O(TREE))
                out.append(ind + 'env.set_rate_constant %s %s %s      -- %s' % (x, self.need(a, ta, FLOAT), self.need(b, tb, O(TREE)), ast.unparse(st)[:50]))
                return
            raise Shape('%s: attribute assignment %s' % (self.name, ast.unparse(st)[:50]))
        # log.warning(f'…{expr}…'): evaluate the expression fields, then as in pyreaderfn.py
        if isinstance(st, ast.Expr) and isinstance(st.value, ast.Call) and isinstance(st.value.func, ast.Attribute) \
                and isinstance(st.value.func.value, ast.Name) and st.value.func.value.id == 'log' and len(st.value.args) == 1 \
                and isinstance(st.value.args[0], ast.JoinedStr):
            js = st.value.args[0]
            new = []
            for v in js.values:
                if isinstance(v, ast.FormattedValue) and not isinstance(v.value, ast.Name) and v.conversion == -1 and v.format_spec is None:
                    c, tc = self.ex(v.value)
                    if tc not in (TREE, STR, O(TREE)):
                        raise Shape('%s: f-string field of type %s in a log message' % (self.name, ty(tc)))
                    out.append(ind + 'let _ := %s      -- the field {%s} of the log message' % (c, ast.unparse(v.value)))
                    new.append(ast.Constant(value='{…}'))
                else:
                    new.append(v)
            st2 = ast.Expr(value=ast.Call(func=st.value.func, args=[ast.JoinedStr(values=new)], keywords=[]))
            return super().stmt(st2, out, ind, inloop)
        return super().stmt(st, out, ind, inloop)

    def try_(self, st, out, ind, inloop):
        if st.orelse or st.finalbody or len(st.handlers) != 1 or inloop:
            raise Shape('%s: try shape' % self.name)
        h = st.handlers[0]
        if not (isinstance(h.type, ast.Name) and h.type.id == 'KeyError') or len(h.body) != 1 or not isinstance(h.body[0], ast.Raise):
            raise Shape('%s: handler shape: %s' % (self.name, ast.unparse(h)[:60]))
        r = h.body[0].exc
        if not (isinstance(r, ast.Call) and isinstance(r.func, ast.Name) and r.func.id in self.exc):
            raise Shape('%s: raise in the handler: %s' % (self.name, ast.unparse(h.body[0])[:60]))
        for b in st.body:
            if not (isinstance(b, ast.Assign) and len(b.targets) == 1 and isinstance(b.targets[0], ast.Name) and b.targets[0].id in self.locals):
                raise Shape('%s: try body: %s' % (self.name, ast.unparse(b)[:60]))
        out.append(ind + 'try')
        self.block(st.body, out, ind + '  ', False)
        out.append(ind + 'catch e =>')
        out.append(ind + '  match e with')
        out.append(ind + '  | .fault "KeyError" => throw %s      -- except KeyError: raise %s(…)' % (self.exc[r.func.id], r.func.id))
        out.append(ind + '  | e => throw e')


def chain(st):
    """the `if / elif / … / else` chain as [(test, If node)] and the final else body"""
    out = []
    while True:
        out.append(st)
        if len(st.orelse) == 1 and isinstance(st.orelse[0], ast.If):
            st = st.orelse[0]
        else:
            return out


def gen_pyreadline(repo):
    """`Gen/PyReadLine.lean`: `read_pil_line` of dsdobjects/objectio.py for a parsed statement, object requests as parameters"""
    tree = ast.parse(open(os.path.join(repo, PATH)).read())
    builtins_unshadowed(tree, {'isinstance', 'int', 'len', 'float', 'str', 'list'})
    info = module_checks(tree)
    rr = [n for n in tree.body if isinstance(n, ast.FunctionDef) and n.name == 'read_reaction']
    from pyfunc import imported_from
    spec = dict(READ_LINE, _log_ok=info['log_ok'], _rr_ok=len(rr) == 1, _stts_ok=imported_from(tree, 'strand_table_to_sequence', 'complex_utils'))
    fn = find_function(tree, spec['name'])
    check_signature(fn, spec)
    if fn.args.defaults or fn.decorator_list:
        raise Shape('read_pil_line: defaults / decorators')
    for n in ast.walk(fn):
        if isinstance(n, (ast.Global, ast.Nonlocal)) or (isinstance(n, ast.Name) and isinstance(n.ctx, (ast.Store, ast.Del)) and n.id in SLOTS):
            raise Shape('read_pil_line: a slot is bound inside the function')
    fn = copy.deepcopy(fn)
    # the typed instance: `if isinstance(raw, str): … else: S` is `S` (the str case is not translated)
    k = [i for i, st in enumerate(fn.body) if isinstance(st, ast.If) and ast.unparse(st.test) == 'isinstance(raw, str)']
    if len(k) != 1 or any(isinstance(n, ast.Name) and n.id == 'raw' and isinstance(n.ctx, ast.Store) for n in ast.walk(fn)):
        raise Shape('read_pil_line: the test isinstance(raw, str) is not found exactly once')
    fn.body[k[0]:k[0] + 1] = fn.body[k[0]].orelse
    fn.body = Retype(spec['retype'], spec.get('retype_by')).block(fn.body, {})
    last = fn.body[-1]
    if not isinstance(last, ast.If):
        raise Shape('read_pil_line: the last statement is not the if / elif chain')
    untranslated = {}
    for node in chain(last):
        probe = ReadLineTx(dict(spec, _fn=fn), fn)
        try:
            probe.block(copy.deepcopy(node.body), [], '  ', False)
            definite_assignment(ast.FunctionDef(name='b', args=fn.args, body=fn.body[:-1] + copy.deepcopy(node.body), decorator_list=[], lineno=0),
                                ['raw', 'log', 'float', 'int', 'read_reaction', 'KeyError', 'PilFormatError', 'err', 'str', 'strand_table_to_sequence'] + SLOTS, 'read_pil_line')
        except Shape as e:
            key = ast.unparse(node.test)[:50]
            untranslated[key] = str(e)
            node.body = [ast.Raise(exc=ast.Call(func=ast.Name(id='__untranslated__', ctx=ast.Load()), args=[ast.Constant(value=str(e)[:90].replace('-/', '- /'))],
                                                keywords=[]), cause=None)]
    ast.fix_missing_locations(fn)
    definite_assignment(fn, ['raw', 'log', 'float', 'int', 'read_reaction', 'KeyError', 'PilFormatError', 'err', 'str', '__untranslated__', 'parse_pil_string', 'strand_table_to_sequence'] + SLOTS,
                        'read_pil_line')
    tx = ReadLineTx(dict(spec, _fn=fn), fn)
    body = tx.run()
    out = ['/- GENERATED by translator/pyreaderfn3.py from the Python source — do not edit. -/',
           'import DsdVerif.Model.PyPreludeReadLine', 'import DsdVerif.Gen.PyReaderFns', '', 'set_option linter.unusedVariables false', '',
           'namespace Dsd.Gen', 'open Dsd', '', 'variable {ω : Type}', '', body, 'end Dsd.Gen']
    summary = {'read_pil_line': {'statements': sum(1 for _ in ast.walk(fn) if isinstance(_, ast.stmt)) - 1, 'branches': len(chain(last)) + 1,
                                 'source_lines': fn.end_lineno - fn.lineno + 1}}
    if untranslated:
        summary['untranslated'] = untranslated
    return '\n'.join(out) + '\n', summary


if __name__ == '__main__':
    text, summ = gen_pyreadline(sys.argv[1])
    sys.stdout.write(text)
    sys.stderr.write(repr(summ) + '\n')
