#!/usr/bin/env python3
"""Statement-level translation of the top-level function `read_pil(data, is_file=False, ignore=None)` of dsdobjects/objectio.py into
Lean 4 (`Gen/PyReadPil.lean`).

    python3 translator/pyreaderfn2.py <repo>  > lean/DsdVerif/Gen/PyReadPil.lean

An extension of translator/pyfunc.py (class `ReadPilTx(FuncTx)`): same rules, same refusal policy (`Shape`), nothing guessed or skipped;
the translator knows nothing about what the function computes.  Delegated to `FuncTx`: locals as a record `Vars`, `for` as `List.foldlM`
over a step function, `continue`, `if / elif / else` (an `elif` is a nested block: its test is evaluated only when the earlier tests were
false - the ORDER of the `isinstance` tests is kept), `if a and b:` with a fallible `b` as nested tests, `assert`, `d[k] = e` on a dict,
`s.add(e)` on a set, `l.append(e)`, `a if c else b` with fallible branches, `x is None`, `==` on strs.

Reading of Python that is ADDED here (together with Model/PyPreludeReadPil.lean) - the trusted part:

  values         `obj` (what `read_pil_line` returns) is a TAGGED VALUE `Py.Val`: an object `Py.Obj` (class, identity, equality class, `name`,
              `rtype`, `sequence`) or a raw parsed line (a list).  `comp` (what `~obj` returns) is a `Py.Obj`.  A parsed statement `line` is
              a `List PP.Tree`, `parsed_file` a list of them, `data` an opaque str, `ignore` is `None` or a list of strs.
  environment    the module-level names the function reads are the fields of ONE parameter `env : ReadPil.Env ω`: the slots `Domain … Reaction`
              (`env.g`, the record of Gen/PyReaderFns.lean: `None` or a class), and the functions `parse_pil_file`, `parse_pil_string`,
              `read_pil_line`, `reverse_wc_complement` (stub `ENV_FUNCS`; each must be bound exactly once in the module: an import or a `def`)
              - their calls `f(a)` are `(← env.f a)` in the monad `ReadPil.M ω = StateT ω (Except Err)`: they act on an opaque object world and
              can raise; an exception ends `read_pil` (nothing is returned).  `reverse_wc_complement(s, material = 'DNA')`: the keyword must be
              that literal (the parameter is the DNA instance).
  ~x             `x` typed `Py.Val`: `(← env.invert (← Py.valObj x))` - TypeError for a list, else the class's `__invert__` (a parameter).
  x.name / x.rtype / x.sequence     `x` typed `Py.Val`: `(← Py.valAttr x).name` - AttributeError for a list; `x` typed `Py.Obj`: the field.
  x.sequence = e   `x` a local typed `Py.Obj`: the local becomes `{ x with sequence := some e }`.  Objects are VALUES here: exact as long as an
              object is reachable under one key only (the dictionaries are keyed by `obj.name`), and up to the effect on the object world,
              which is not represented (the setter is not called).
  isinstance(x, G)   `G` one of the slots: `(← Py.isinstanceG env.sub x env.g.G)` - TypeError when the slot is `None`, False for a list, else
              whether the object's class is `G` or a subclass of it (`env.sub`).  `isinstance(x, list)`: `Py.valIsList x`.
  a and b        the FIRST operand may be fallible (it is evaluated first and unconditionally: lifted to the statement); later fallible
              operands are the `FuncTx` rule (nested tests).
  x in l         `x` typed `PP.Tree`, `l` typed `Option (List String)`: `Py.treeInStrs x (← Py.unwrap l)` (TypeError for `None`).
  out = {'k': dict() | set() | [], …}    a dict display with pairwise different str keys, bound once, used only as `out['k']` (read) and
              `return out`: every `out['k']` is a local of its own (`out_k`: a dict from str to `Py.Val` as its item list in insertion order,
              a set of `Py.Val` as the list of its elements in insertion order - `add` keeps the element that is already there -, a list
              of `Py.Val`); `return out` returns the record `read_pil.Out` of these locals.
  d[k] = e       on such a dict, with a fallible key `k` when `e` is infallible (Python evaluates `e` first; nothing to reorder).
  try: x.sequence = f(…) except KeyError as err: raise PilFormatError(…)    `try … catch`: a KeyError (`Err.fault "KeyError"`) raised by the
              body becomes `Err.pilFormat`, everything else propagates; the handler may not use `err` except in the message.
  del x          no effect on the values (the reference counts that it lowers belong to the object world: not represented).
  defaults       `is_file = False`, `ignore = None` are checked; a call that omits them passes these values.
"""
import ast, os, sys
sys.path.insert(0, os.path.dirname(os.path.abspath(__file__)))
from pyfunc import (FuncTx, Shape, STR, BOOL, L, O, D, ty, ident, check_signature, definite_assignment, builtins_unshadowed, find_function)

PATH = 'dsdobjects/objectio.py'
TREE, VAL, OBJ = 'PP.Tree', 'Py.Val', 'Py.Obj'
SLOTS = ['Domain', 'Strand', 'Complex', 'Macrostate', 'Reaction']
ENV_FUNCS = {'parse_pil_file': ([STR], L(L(TREE))), 'parse_pil_string': ([STR], L(L(TREE))), 'read_pil_line': ([L(TREE)], VAL),
             'reverse_wc_complement': ([STR], STR)}
ATTRS = {'name': STR, 'rtype': STR, 'sequence': O(STR)}
OUT_KINDS = {'dict': D(STR, VAL), 'set': L(VAL), 'list': L(VAL)}

READ_PIL = dict(path=PATH, name='read_pil',
                params=[('data', STR), ('is_file', BOOL), ('ignore', O(L(STR)))],
                locals={'parsed_file': L(L(TREE)), 'obj': VAL, 'comp': OBJ},
                defaults={'is_file': False, 'ignore': None},
                exc={'PilFormatError': 'Err.pilFormat'},
                ret='read_pil.Out')


class OutRewrite(ast.NodeTransformer):
    """`out['k']` -> the local `out_k`"""
    def __init__(self, keys):
        self.keys = keys

    def visit_Subscript(self, node):
        self.generic_visit(node)
        if isinstance(node.value, ast.Name) and node.value.id == 'out' and isinstance(node.ctx, ast.Load) \
                and isinstance(node.slice, ast.Constant) and node.slice.value in self.keys:
            return ast.copy_location(ast.Name(id='out_' + node.slice.value, ctx=ast.Load()), node)
        return node


class ReadPilTx(FuncTx):
    M = 'ReadPil.M ω'

    def __init__(self, spec, fn, out_keys):
        super().__init__(spec, fn)
        self.out_keys = out_keys                     # key -> 'dict' | 'set' | 'list'
        for k, kind in out_keys.items():
            self.locals['out_' + k] = OUT_KINDS[kind]
            if kind == 'set':
                self.sets.add('out_' + k)
        if 'env' in self.locals or any(isinstance(n, ast.Name) and n.id == 'env' for n in ast.walk(fn)):
            raise Shape('%s: the name env is used by the translation' % self.name)
        self.params['env'] = 'ReadPil.Env ω'
        self.param_order = ['env'] + self.param_order
        self.ret_override = {'out': '{ ' + ', '.join('%s := v.out_%s' % (k, k) for k in out_keys) + ' }'}

    def static_test(self, node):
        return None                                  # no test of this function is decided by the typing

    def need(self, code, t, want):
        if t == OBJ and want == VAL:
            return '(Py.Val.obj %s)' % code
        return super().need(code, t, want)

    def truthy(self, node):
        if isinstance(node, ast.BoolOp) and isinstance(node.op, ast.And):
            first = self.truthy(node.values[0])      # evaluated first and unconditionally: may be lifted to the statement
            return '(' + ' && '.join([first] + [self.pure(self.truthy(x)) for x in node.values[1:]]) + ')'
        return super().truthy(node)

    def ex(self, node, expect=None):
        if isinstance(node, ast.Attribute) and isinstance(node.ctx, ast.Load) and node.attr in ATTRS:
            a, ta = self.ex(node.value)
            if ta == VAL:
                return '(← Py.valAttr %s).%s' % (a, node.attr), ATTRS[node.attr]
            if ta == OBJ:
                return '%s.%s' % (a, node.attr), ATTRS[node.attr]
            raise Shape('%s: attribute %s of a %s' % (self.name, node.attr, ty(ta)))
        if isinstance(node, ast.UnaryOp) and isinstance(node.op, ast.Invert):
            a, ta = self.ex(node.operand)
            if ta != VAL:
                raise Shape('%s: ~ on a %s' % (self.name, ty(ta)))
            return '(← env.invert (← Py.valObj %s))' % a, OBJ
        if isinstance(node, ast.Call) and isinstance(node.func, ast.Name) and node.func.id == 'isinstance':
            if node.keywords or len(node.args) != 2 or not isinstance(node.args[1], ast.Name):
                raise Shape('%s: isinstance shape: %s' % (self.name, ast.unparse(node)))
            a, ta = self.ex(node.args[0])
            if ta != VAL:
                raise Shape('%s: isinstance of a %s' % (self.name, ty(ta)))
            k = node.args[1].id
            if k == 'list':
                return '(Py.valIsList %s)' % a, BOOL
            if k in SLOTS and k not in self.locals and k not in self.params and k not in self.loopvars:
                return '(← Py.isinstanceG env.sub %s env.g.%s)' % (a, k), BOOL
            raise Shape('%s: isinstance against %s' % (self.name, k))
        if isinstance(node, ast.Call) and isinstance(node.func, ast.Name) and node.func.id in ENV_FUNCS:
            f = node.func.id
            if f in self.locals or f in self.params or f in self.loopvars:
                raise Shape('%s: %s is a variable' % (self.name, f))
            ptypes, rt = ENV_FUNCS[f]
            kws = {k.arg: k.value for k in node.keywords}
            if f == 'reverse_wc_complement':
                m = kws.pop('material', None)
                if not (isinstance(m, ast.Constant) and m.value == 'DNA'):
                    raise Shape('%s: reverse_wc_complement without material = \'DNA\'' % self.name)
            if kws or len(node.args) != len(ptypes):
                raise Shape('%s: call shape: %s' % (self.name, ast.unparse(node)[:60]))
            args = []
            for x, t in zip(node.args, ptypes):
                c, tc = self.ex(x, t)
                args.append(self.need(c, tc, t))
            return '(← env.%s %s)' % (f, ' '.join(args)), rt
        if isinstance(node, ast.Compare) and len(node.ops) == 1 and isinstance(node.ops[0], (ast.In, ast.NotIn)):
            b, tb = self.ex(node.comparators[0])
            if tb == O(L(STR)):
                a, ta = self.ex(node.left)
                if ta != TREE:
                    raise Shape('%s: `in` of a %s in a list of strs' % (self.name, ty(ta)))
                c = '(Py.treeInStrs %s (← Py.unwrap %s))' % (a, b)
                return (c if isinstance(node.ops[0], ast.In) else '(!%s)' % c), BOOL
        return super().ex(node, expect)

    def stmt(self, st, out, ind, inloop):
        # out = {…}
        if isinstance(st, ast.Assign) and len(st.targets) == 1 and isinstance(st.targets[0], ast.Name) and st.targets[0].id == 'out':
            if inloop:
                raise Shape('%s: out is bound inside the loop' % self.name)
            out.append(ind + 'v := { v with %s }      -- out = {…}' % ', '.join('out_%s := []' % k for k in self.out_keys))
            return
        if isinstance(st, ast.Delete):
            if not all(isinstance(t, ast.Name) and t.id in self.locals for t in st.targets):
                raise Shape('%s: del shape: %s' % (self.name, ast.unparse(st)))
            out.append(ind + '-- %s      (no effect on the values)' % ast.unparse(st))
            return
        # x.sequence = e on a local object
        if isinstance(st, ast.Assign) and len(st.targets) == 1 and isinstance(st.targets[0], ast.Attribute):
            tg = st.targets[0]
            if not (isinstance(tg.value, ast.Name) and tg.value.id in self.locals and self.locals[tg.value.id] == OBJ and tg.attr == 'sequence'):
                raise Shape('%s: attribute assignment %s' % (self.name, ast.unparse(tg)))
            x = tg.value.id
            c, tc = self.ex(st.value, STR)
            out.append(ind + self.set_local(x, '{ v.%s with sequence := some %s }' % (ident(x), self.need(c, tc, STR))) + '      -- %s.sequence = …' % x)
            return
        # d[k] = e on a dict local, fallible key, infallible value
        if isinstance(st, ast.Assign) and len(st.targets) == 1 and isinstance(st.targets[0], ast.Subscript) \
                and isinstance(st.targets[0].value, ast.Name) and self.locals.get(st.targets[0].value.id, ('',))[0] == 'Dict':
            x = st.targets[0].value.id
            cx, tx = self.var(x)
            e, te = self.ex(st.value, tx[2])
            k, tk = self.ex(st.targets[0].slice, tx[1])
            if '←' in e and '←' in k:
                raise Shape('%s: fallible key and value in %s' % (self.name, ast.unparse(st)[:40]))
            out.append(ind + self.set_local(x, '(Py.dictSet %s %s %s)' % (cx, self.need(k, tk, tx[1]), self.need(e, te, tx[2]))))
            return
        return super().stmt(st, out, ind, inloop)

    def try_(self, st, out, ind, inloop):
        if st.orelse or st.finalbody or len(st.handlers) != 1 or len(st.body) != 1:
            raise Shape('%s: try shape' % self.name)
        h = st.handlers[0]
        if not (isinstance(h.type, ast.Name) and h.type.id == 'KeyError') or len(h.body) != 1 or not isinstance(h.body[0], ast.Raise):
            raise Shape('%s: handler shape' % self.name)
        r = h.body[0].exc
        if not (isinstance(r, ast.Call) and isinstance(r.func, ast.Name) and r.func.id in self.exc and len(r.args) == 1
                and isinstance(r.args[0], (ast.JoinedStr, ast.Constant))):
            raise Shape('%s: raise in the handler: %s' % (self.name, ast.unparse(h.body[0])[:60]))
        b = st.body[0]
        if not (isinstance(b, ast.Assign) and len(b.targets) == 1 and isinstance(b.targets[0], ast.Attribute)):
            raise Shape('%s: try body: %s' % (self.name, ast.unparse(b)[:60]))
        out.append(ind + 'try')
        self.stmt(b, out, ind + '  ', inloop)
        out.append(ind + 'catch e =>')
        out.append(ind + '  match e with')
        out.append(ind + '  | .fault "KeyError" => throw %s      -- except KeyError: raise %s(…)' % (self.exc[r.func.id], r.func.id))
        out.append(ind + '  | e => throw e')


def bound_once(tree, name):
    n = 0
    for s in tree.body:
        if isinstance(s, (ast.FunctionDef, ast.ClassDef)) and s.name == name:
            n += 1
        elif isinstance(s, (ast.Import, ast.ImportFrom)):
            n += sum(1 for a in s.names if (a.asname or a.name).split('.')[0] == name)
        elif not isinstance(s, (ast.FunctionDef, ast.ClassDef)):
            n += sum(1 for m in ast.walk(s) if isinstance(m, ast.Name) and m.id == name and isinstance(m.ctx, (ast.Store, ast.Del)))
    return n == 1


def gen_pyreadpil(repo):
    """`Gen/PyReadPil.lean`: `read_pil` of dsdobjects/objectio.py over tagged values, its callees as parameters"""
    tree = ast.parse(open(os.path.join(repo, PATH)).read())
    builtins_unshadowed(tree, {'isinstance', 'list', 'dict', 'set'})
    spec = dict(READ_PIL)
    fn = find_function(tree, spec['name'])
    check_signature(fn, spec)
    names = [a.arg for a in fn.args.args]
    dflt = dict(zip(names[len(names) - len(fn.args.defaults):], fn.args.defaults))
    if fn.decorator_list or set(dflt) != set(spec['defaults']) or \
            any(not (isinstance(dflt[k], ast.Constant) and dflt[k].value is v) for k, v in spec['defaults'].items()):
        raise Shape('read_pil: defaults changed: %s' % {k: ast.unparse(v) for k, v in dflt.items()})
    for f in ENV_FUNCS:
        if not bound_once(tree, f):
            raise Shape('%s is not bound exactly once at module level' % f)
    for n in ast.walk(fn):
        if isinstance(n, (ast.Global, ast.Nonlocal)):
            raise Shape('read_pil: global / nonlocal')
        if isinstance(n, ast.Name) and isinstance(n.ctx, (ast.Store, ast.Del)) and (n.id in SLOTS or n.id in ENV_FUNCS):
            raise Shape('read_pil: %s is bound inside the function' % n.id)
    # out = {'k': dict() | set() | []}: bound once, at the top level of the body
    binds = [s for s in ast.walk(fn) if isinstance(s, ast.Assign) and any(isinstance(t, ast.Name) and t.id == 'out' for t in s.targets)]
    if len(binds) != 1 or binds[0] not in fn.body or not isinstance(binds[0].value, ast.Dict):
        raise Shape('read_pil: out is not bound exactly once by a dict display')
    keys = {}
    for k, v in zip(binds[0].value.keys, binds[0].value.values):
        if not (isinstance(k, ast.Constant) and isinstance(k.value, str) and k.value.isidentifier()) or k.value in keys:
            raise Shape('read_pil: key of out: %s' % ast.unparse(k))
        if isinstance(v, ast.Call) and isinstance(v.func, ast.Name) and v.func.id in ('dict', 'set') and not v.args and not v.keywords:
            keys[k.value] = v.func.id
        elif isinstance(v, ast.List) and not v.elts:
            keys[k.value] = 'list'
        else:
            raise Shape('read_pil: value of out[%r]: %s' % (k.value, ast.unparse(v)))
    fn = OutRewrite(keys).visit(fn)
    ast.fix_missing_locations(fn)
    for n in ast.walk(fn):                                       # what is left of `out`: its binding and `return out`
        if isinstance(n, ast.Name) and n.id == 'out':
            ok = any(n in s.targets for s in binds) or any(isinstance(s, ast.Return) and s.value is n for s in ast.walk(fn))
            if not ok:
                raise Shape('read_pil: out is used other than as out[<key>] / return out')
    definite_assignment(fn, names + list(ENV_FUNCS) + SLOTS + ['out_' + k for k in keys] + ['dict', 'KeyError', 'PilFormatError', 'err'], 'read_pil')      # err: bound by the handler, used in the (dropped) message only
    tx = ReadPilTx(dict(spec, _fn=fn), fn, keys)
    body = tx.run()
    out = ['/- GENERATED by translator/pyreaderfn2.py from the Python source — do not edit. -/',
           'import DsdVerif.Model.PyPreludeReadPil', '', 'set_option linter.unusedVariables false', '',
           'namespace Dsd.Gen', 'open Dsd', '', 'variable {ω : Type}', '',
           '/-- the result dictionary of `read_pil`: one field per key of `out = {…}` (dicts as item lists, sets as element lists, in insertion order) -/',
           'structure read_pil.Out where\n' + '\n'.join('  %s : %s' % (k, ty(OUT_KINDS[kind])) for k, kind in keys.items()) + '\nderiving Repr\n',
           body, 'end Dsd.Gen']
    summary = {'read_pil': {'statements': sum(1 for _ in ast.walk(fn) if isinstance(_, ast.stmt)) - 1, 'loops': tx.nloops,
                            'source_lines': fn.end_lineno - fn.lineno + 1, 'out_keys': keys}}
    return '\n'.join(out) + '\n', summary


if __name__ == '__main__':
    text, summ = gen_pyreadpil(sys.argv[1])
    sys.stdout.write(text)
    sys.stderr.write(repr(summ) + '\n')
