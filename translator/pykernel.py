#!/usr/bin/env python3
"""Statement-level translation of `resolve_kernel_loops` (dsdobjects/objectio.py) into Lean 4 (`Gen/PyKernel.lean`).

    python3 translator/pykernel.py <repo>  > lean/DsdVerif/Gen/PyKernel.lean

An extension of translator/pyfunc.py (class `KernelTx(FuncTx)`): same rules, same refusal policy - a statement or expression
that has none of the accepted shapes raises `Shape` and the tie is reported broken, nothing is guessed or skipped.  The
translator knows nothing about what the function computes.  Everything that is not listed below is delegated to `FuncTx`
(locals as a record `Vars`, `for` as `List.foldlM` over a step function, recursion through explicit `fuel` with the function for
the recursive calls passed to the step function as `recur`, `l[-1]` as `Py.last`, `l.append(e)`, `a, b = f(…)`, `return a, b`).

Reading of Python that is ADDED here (together with Model/PyPreludeKernel.lean) - the trusted part:

  token forest   a value typed `PP.Tree` is ONE item of a pyparsing result that was turned into nested lists: it is either a
              `str` (`PP.Tree.tok s`, `s : String`, an opaque name) or a `list` of such items (`PP.Tree.grp ts`,
              `ts : List PP.Tree`); nothing else (no `ParseResults`, no str subclass with other behaviour, no `None`).  The
              parameter `loop` is a Python list of such items: `List PP.Tree`.
  isinstance     `if isinstance(x, str): A  elif isinstance(x, list): B` (either order, NO final `else:`), `x` a loop variable typed
              `PP.Tree`, is the case distinction on the constructor

                    match x with
                    | .tok x => A        -- here `x : String`
                    | .grp x => B        -- here `x : List PP.Tree`

              Exactly one of the two tests is true for a token-forest item (a `str` is not a `list`), so the order of the tests
              is not observable and "neither" (fall through, nothing happens) is unreachable and has no arm.  Inside an arm the
              variable has the narrowed type.  Any other use of `isinstance` on such a value (a lone `if`, a final `else:`, other
              classes, under `not` / `and`, in an expression) is refused.
  l[-1] = e      on a local list: `let t ← Py.setLast l e; l := t` - IndexError for the empty list (Python: "list assignment
              index out of range"), otherwise the last element is replaced.  `e` is evaluated first, as in Python.
  x.extend(y)    `x`, `y` two DIFFERENT local lists of the same element type: `x := x ++ y` (the elements of `y` appended in
              order; `y` itself is not stored, so no aliasing arises).  `x` must be mutable here (a local, not a parameter, not
              a loop variable - `FuncTx.mutable`).
  s[-1]          `s` a variable typed `String` (an opaque name): `(← Py.strLast s) : Char`, the last character; IndexError for
              the empty str ("string index out of range").
  s[:-1]         `s` typed `String`: `Py.strDropLast s : String`, all characters but the last ('' for '').
  s + t          both typed `String` (`t` may be a str literal): `(s ++ t) : String`.  (`FuncTx` reads `+` on strs as the list of
              characters `Text`; names are kept opaque here because they are stored in a `List String`.)
  a if c else b  as in `FuncTx`; the test `c` is evaluated first and unconditionally, so a fallible test (`s[-1] != '*'`) is
              lifted to the statement `(← …)`: when it raises, neither branch is evaluated and the statement has no effect -
              what Python does.  Fallible BRANCHES keep the `FuncTx` treatment (own `do` block per branch).
  loops          in addition to the `FuncTx` check (the iterated value is not assigned / appended to in the body): it is not the
              target of `.extend` or of `[-1] = …` in the body either.
  built-ins      `isinstance`, `str`, `list` must not be bound anywhere in the module (checked).

The typing stub (KERNEL_FUNCS) declares `loop : List PP.Tree`, the locals `sequen, se : List String`, `struct, ss : List Char`,
`old : String` and the result `List String × List Char`; Lean's elaborator checks it against the emitted text.
"""
import ast, os, sys
sys.path.insert(0, os.path.dirname(os.path.abspath(__file__)))
from pyfunc import (FuncTx, Shape, CHAR, STR, L, P, ty, ident, check_signature, definite_assignment, builtins_unshadowed,
                    find_function)

TREE = 'PP.Tree'                    # one item of a token forest: a `str` (tok) or a `list` of items (grp)
ARMS = {'str': ('.tok', STR), 'list': ('.grp', L(TREE))}

KERNEL_FUNCS = [
    dict(path='dsdobjects/objectio.py', name='resolve_kernel_loops',
         params=[('loop', L(TREE))],
         locals={'sequen': L(STR), 'struct': L(CHAR), 'old': STR, 'se': L(STR), 'ss': L(CHAR)},
         recursive=True,
         ret=P(L(STR), L(CHAR))),
]


def is_minus_one(node):
    return isinstance(node, ast.UnaryOp) and isinstance(node.op, ast.USub) and isinstance(node.operand, ast.Constant) \
        and type(node.operand.value) is int and node.operand.value == 1


class KernelTx(FuncTx):

    # ---- expressions -------------------------------------------------------------------------------------------
    def str_var(self, node):
        """the code of `node` if it is a variable typed `String`, else None"""
        if isinstance(node, ast.Name):
            c, t = self.var(node.id)
            if t == STR:
                return c
        return None

    def ex(self, node, expect=None):
        if isinstance(node, ast.Subscript):
            s = self.str_var(node.value)
            if s is not None:
                sl = node.slice
                if is_minus_one(sl):                                         # s[-1]: IndexError for ''
                    return '(← Py.strLast %s)' % s, CHAR
                if isinstance(sl, ast.Slice) and sl.lower is None and sl.step is None and is_minus_one(sl.upper):
                    return '(Py.strDropLast %s)' % s, STR                    # s[:-1]
                raise Shape('%s: subscript of a str: %s' % (self.name, ast.unparse(node)[:40]))
        if isinstance(node, ast.BinOp) and isinstance(node.op, ast.Add):
            s = self.str_var(node.left)
            if s is not None:
                b, tb = self.ex(node.right, STR)
                if tb != STR:
                    raise Shape('%s: + on String and %s' % (self.name, ty(tb)))
                return '(%s ++ %s)' % (s, b), STR                            # str + str, kept opaque
        return super().ex(node, expect)

    # ---- statements --------------------------------------------------------------------------------------------
    def tree_test(self, node):
        """(x, 'str' | 'list') for `isinstance(x, str)` / `isinstance(x, list)` on a loop variable typed PP.Tree, else None"""
        if isinstance(node, ast.Call) and isinstance(node.func, ast.Name) and node.func.id == 'isinstance' and not node.keywords \
                and len(node.args) == 2 and isinstance(node.args[0], ast.Name) and isinstance(node.args[1], ast.Name) \
                and node.args[1].id in ARMS and self.loopvars.get(node.args[0].id) == TREE:
            return node.args[0].id, node.args[1].id
        return None

    def stmt(self, st, out, ind, inloop):
        if isinstance(st, ast.If):
            d = self.tree_test(st.test)
            if d is not None:
                x, kind = d
                if len(st.orelse) != 1 or not isinstance(st.orelse[0], ast.If):
                    raise Shape('%s: isinstance(%s, %s) without the elif for the other case' % (self.name, x, kind))
                st2 = st.orelse[0]
                d2 = self.tree_test(st2.test)
                if d2 is None or d2[0] != x or d2[1] == kind:
                    raise Shape('%s: the elif after isinstance(%s, %s) is not the test for the other case: %s'
                                % (self.name, x, kind, ast.unparse(st2.test)[:40]))
                if st2.orelse:
                    raise Shape('%s: else: after the two isinstance cases of %s' % (self.name, x))
                out.append(ind + 'match %s with      -- isinstance(%s, str) / isinstance(%s, list)' % (ident(x), x, x))
                for k, body in ((kind, st.body), (d2[1], st2.body)):
                    ctor, t = ARMS[k]
                    out.append(ind + '| %s %s =>' % (ctor, ident(x)))
                    self.loopvars[x] = t                                     # narrowed inside the arm
                    try:
                        self.block(body, out, ind + '  ', inloop)
                    finally:
                        self.loopvars[x] = TREE
                return
        if isinstance(st, ast.Assign) and len(st.targets) == 1 and isinstance(st.targets[0], ast.Subscript) \
                and isinstance(st.targets[0].value, ast.Name) and is_minus_one(st.targets[0].slice):
            x = st.targets[0].value.id                                       # x[-1] = e
            cx, tx = self.var(x)
            if x not in self.locals or not (isinstance(tx, tuple) and tx[0] == 'List'):
                raise Shape('%s: %s[-1] = … on something that is not a local list' % (self.name, x))
            self.mutable(x)
            e, te = self.ex(st.value, tx[1])
            out.append(ind + 'let t ← Py.setLast %s %s      -- %s[-1] = …' % (cx, self.need(e, te, tx[1]), x))
            out.append(ind + self.set_local(x, 't'))
            return
        if isinstance(st, ast.Expr) and isinstance(st.value, ast.Call) and isinstance(st.value.func, ast.Attribute) \
                and isinstance(st.value.func.value, ast.Name) and st.value.func.attr == 'extend':
            c = st.value
            x = c.func.value.id
            if c.keywords or len(c.args) != 1 or not isinstance(c.args[0], ast.Name) or c.args[0].id == x:
                raise Shape('%s: extend shape: %s' % (self.name, ast.unparse(st)[:60]))
            y = c.args[0].id
            if x not in self.locals or y not in self.locals or x in self.aliases or x in self.aliases.values():
                raise Shape('%s: %s.extend(%s) on something that is not a plain local list' % (self.name, x, y))
            self.mutable(x)
            (cx, tx), (cy, tyy) = self.var(x), self.var(y)
            if not (isinstance(tx, tuple) and tx[0] == 'List') or tx != tyy:
                raise Shape('%s: extend of a %s by a %s' % (self.name, ty(tx), ty(tyy)))
            out.append(ind + self.set_local(x, '(%s ++ %s)' % (cx, cy)) + '      -- %s.extend(%s)' % (x, y))
            return
        return super().stmt(st, out, ind, inloop)

    def loop(self, st, out, ind):
        changed = set()
        for s in st.body:
            for n in ast.walk(s):
                if isinstance(n, ast.Call) and isinstance(n.func, ast.Attribute) and isinstance(n.func.value, ast.Name) \
                        and n.func.attr == 'extend':
                    changed.add(n.func.value.id)
                if isinstance(n, ast.Subscript) and isinstance(n.ctx, (ast.Store, ast.Del)) and isinstance(n.value, ast.Name):
                    changed.add(n.value.id)
        for n in ast.walk(st.iter):
            if isinstance(n, ast.Name) and n.id in changed and n.id not in self.loopvars:
                raise Shape('%s: the loop over %s changes it' % (self.name, ast.unparse(st.iter)))
        return super().loop(st, out, ind)


def translate_kernel(repo, funcs, out):
    """as `pyfunc.translate`, with `KernelTx` (no callees, no module-level tables here)"""
    summary, trees = {}, {}
    for spec in funcs:
        if spec.get('callees') or spec.get('globals') or spec.get('nested') or spec.get('generator'):
            raise Shape('%s: stub features that translate_kernel does not handle' % spec['name'])
        if spec['path'] not in trees:
            trees[spec['path']] = ast.parse(open(os.path.join(repo, spec['path'])).read())
        tree = trees[spec['path']]
        fn = find_function(tree, spec['name'])
        check_signature(fn, spec)
        builtins_unshadowed(tree, {'isinstance', 'str', 'list'})
        spec = dict(spec, _fn=fn)
        definite_assignment(fn, [p for p, _ in spec['params']] + ['str'] + ([spec['name']] if spec.get('recursive') else []), spec['name'])
        tx = KernelTx(spec, fn)
        out.append(tx.run())
        summary[spec['name']] = {'statements': sum(1 for _ in ast.walk(fn) if isinstance(_, ast.stmt)) - 1,
                                 'loops': tx.nloops, 'source_lines': (fn.end_lineno - fn.lineno + 1)}
    return summary


def gen_pykernel(repo):
    """`Gen/PyKernel.lean`: `resolve_kernel_loops` of dsdobjects/objectio.py over token forests (`PP.Tree`)"""
    out = ['/- GENERATED by translator/pykernel.py from the Python source — do not edit. -/',
           'import DsdVerif.Model.PyPreludeKernel', 'import DsdVerif.Model.Pyparsing', '', 'set_option linter.unusedVariables false', '',
           'namespace Dsd.Gen', 'open Dsd', '']
    summary = translate_kernel(repo, KERNEL_FUNCS, out)
    out.append('end Dsd.Gen')
    return '\n'.join(out) + '\n', summary


if __name__ == '__main__':
    text, summ = gen_pykernel(sys.argv[1])
    sys.stdout.write(text)
    sys.stderr.write(repr(summ) + '\n')
