#!/usr/bin/env python3
"""Statement-level translation of `Singleton.__call__` and `clear_singletons` (dsdobjects/singleton.py) into Lean 4
(`Gen/PySingleton.lean`).

    python3 translator/pysingleton.py <repo>  > lean/DsdVerif/Gen/PySingleton.lean

An extension of translator/pyfunc.py (class `SingletonTx(FuncTx)`): same rules, same refusal policy - a statement or expression
that has none of the accepted shapes raises `Shape`, nothing is guessed or skipped silently.  The translator knows nothing about
what the method is for.  What is added here (together with Model/PyPreludeSingleton.lean) - the trusted part:

  the class   `cls` (a class whose metaclass is `Singleton`) is the STATE: the record `Py.SingletonCls κ` with one field per
              attribute in ATTRS, `_instanceNames : List (String × Nat)` and `_instanceCanon : List (κ × Nat)`.  A method is a
              computation in `Py.SM κ = ExceptT Err (StateM (Py.SingletonCls κ))`: an exception keeps the assignments made before it.
  objects     an object is its identity, a `Nat` (two references are the same object iff the numbers are equal); a None-able
              reference is an `Option Nat`.  `a is b` for two None-able references: `(a == b)`.
  the dicts   a `WeakValueDictionary` is read as the association list key ↦ object id of its LIVE entries, in insertion order
              with pairwise different keys (rule "dict" of pyfunc.py); that an entry disappears when its object dies is not an
              effect of this method (the driver / the theorems model it as `drop` between calls).  `k in cls.A`, `k not in cls.A`
              -> `Py.dictHas`; `cls.A.get(k, None)` -> `Py.dictGetOpt` (an `Option Nat`); `cls.A[k]` -> `(← Py.dictGet …)`
              (KeyError); `cls.A[k] = v` -> key and value are evaluated, then `modify fun s => { s with A := Py.dictSet s.A k v }`;
              storing `None` is a TypeError (no weak reference to None): `(← Py.unwrap v)`.
  canon       the canonical form is typed `Option κ`: `none` stands for a FALSY canonical form (`None`, the empty tuple), `some k`
              for a truthy one; `κ` is an abstract type with decidable equality.  The keys of `_instanceCanon` are typed `κ`: a
              falsy form is never a key.  Hence for `canon : Option κ`: `canon in cls.A` -> `Py.dictHasO` (False for `none`),
              `cls.A.get(canon, None)` -> `Py.dictGetOptO` (None for `none`), `cls.A[canon]` -> `(← Py.dictGetKO …)` (KeyError for
              `none`), and `cls.A[canon] = v` -> the key is `(← Py.keyOf canon)`: the explicit translator fault
              `Err.fault "translator:falsy-key"` for `none` (outside the typing; never silent - Props/PySingleton shows it
              unreachable).
  truth       `if name` for `name : String`: `!name.isEmpty`; `if canon` for `canon : Option κ`: `canon.isSome`.
  identifiers the first statement must be exactly `canon, name, kwadd = cls.identifiers(*args, **kwargs)`; `canon` and `name` are
              then GIVEN: parameters of the translation, never assigned again (checked).
  kwargs      the statements `assert not any((arg in kwargs and kwargs[arg] is not None) for arg in kwadd.keys())` and
              `kwargs.update(kwadd)` (exactly these, directly after the first statement) only prepare the arguments of the
              constructor call.  They are LEFT OUT of the translation - including the AssertionError of a clash between a given
              keyword and one returned by `identifiers` - after checking syntactically that `args`, `kwargs`, `kwadd` occur nowhere
              else but in `super(Singleton, cls).__call__(*args, **kwargs)`.
  constructor `super(Singleton, cls).__call__(*args, **kwargs)` (exactly this) is an ABSTRACT constructor
              `(← Py.construct fresh initKeys)`: it returns the new object `fresh` (a parameter) after `__init__` stored it under
              the keys `initKeys` (a parameter; `[]` for most classes, the rotations for a complex) in `_instanceCanon`.  What else
              `__init__` does (it may raise, count `cls.ID` up) is outside the translation.
  raise       `raise SingletonError(f'…')` -> `throw (Err.singleton none)`; `raise SingletonError(f'…', existing = x)` ->
              `throw (Err.singleton x)` for a None-able reference `x`.  The message is dropped AFTER its replacement fields are
              checked: `cls.__name__` and a `str` variable have no effect; `x.name` for a None-able reference `x` is an
              AttributeError for None: `let _ ← Py.attrOf x` before the throw.  Anything else in a message is refused.
  log.debug   `log.debug(f'…')`, `log` bound once at module level by `logging.getLogger(__name__)`: no effect (formatting `name`,
              `canon`, `cls.__name__` into the message is taken to have none).
  clear       (`clear_singletons`) `cls.A.clear()` and `cls.A = WeakValueDictionary()` (`WeakValueDictionary` imported from
              `weakref`): `modify fun s => { s with A := [] }`; the function falls off its end (returns None): `Unit`.

The result of `py_Singleton_call canon name fresh initKeys` is the returned reference (`Option Nat`, as the local `Sobj` is None-able)
or the exception, and the class afterwards (`Py.MS.exec`).
"""
import ast, copy, os, sys
sys.path.insert(0, os.path.dirname(os.path.abspath(__file__)))
from pyfunc import (FuncTx, Shape, NAT, STR, BOOL, L, O, D, ty, ident, check_signature, definite_assignment, imported_from,
                    builtins_unshadowed)

PATH = 'dsdobjects/singleton.py'
KAPPA = 'κ'
ATTRS = {'_instanceNames': D(STR, NAT), '_instanceCanon': D(KAPPA, NAT)}
OBJ = O(NAT)

CALL_SPEC = dict(path=PATH, name='Singleton_call',
                 params=[('canon', O(KAPPA)), ('name', STR), ('fresh', NAT), ('initKeys', L(KAPPA))],
                 locals={'Sobj': OBJ, 'objN': OBJ, 'objC': OBJ},
                 ret=OBJ)

FIRST = 'canon, name, kwadd = cls.identifiers(*args, **kwargs)'
PLUMBING = ['assert not any((arg in kwargs and kwargs[arg] is not None for arg in kwadd.keys()))', 'kwargs.update(kwadd)']
CONSTRUCT = 'super(Singleton, cls).__call__(*args, **kwargs)'


def same(node, text):
    return ast.dump(node) == ast.dump(ast.parse(text).body[0] if not isinstance(node, ast.expr) else ast.parse(text, mode='eval').body)


def is_cls_attr(node):
    return isinstance(node, ast.Attribute) and isinstance(node.value, ast.Name) and node.value.id == 'cls' and node.attr in ATTRS


class SingletonTx(FuncTx):
    M = 'Py.SM κ'

    def pure(self, code):
        if '←' in code.replace('(← get)', ''):
            raise Shape('%s: a fallible sub-expression under and / or / a conditional expression: %s' % (self.name, code))
        return code

    def attr(self, node):
        return '(← get).%s' % node.attr, ATTRS[node.attr]

    def truthy(self, node):
        if isinstance(node, ast.Name):
            c, t = self.var(node.id)
            if t == STR:
                return '(!(%s).isEmpty)' % c                     # '' is false
            if t == O(KAPPA):
                return '(%s).isSome' % c                         # a falsy canonical form is `none`
        return super().truthy(node)

    def ex(self, node, expect=None):
        if is_cls_attr(node):
            return self.attr(node)
        if isinstance(node, ast.Compare) and len(node.ops) == 1:
            op, l, r = node.ops[0], node.left, node.comparators[0]
            if isinstance(op, (ast.In, ast.NotIn)) and is_cls_attr(r):
                d, td = self.attr(r)
                a, ta = self.ex(l, td[1])
                if ta == td[1]:
                    c = '(Py.dictHas %s %s)' % (d, a)
                elif ta == O(td[1]):
                    c = '(Py.dictHasO %s %s)' % (d, a)           # a falsy canonical form is never a key
                else:
                    raise Shape('%s: `in` of a %s in a dict with %s keys' % (self.name, ty(ta), ty(td[1])))
                return (c if isinstance(op, ast.In) else '(!%s)' % c), BOOL
            if isinstance(op, (ast.Is, ast.IsNot)) and isinstance(l, ast.Name) and isinstance(r, ast.Name):
                (a, ta), (b, tb) = self.var(l.id), self.var(r.id)
                if ta != OBJ or tb != OBJ:
                    raise Shape('%s: `is` on a %s and a %s' % (self.name, ty(ta), ty(tb)))
                return '(%s %s %s)' % (a, '==' if isinstance(op, ast.Is) else '!=', b), BOOL   # identity = equal ids
        if isinstance(node, ast.Call) and isinstance(node.func, ast.Attribute) and node.func.attr == 'get' and is_cls_attr(node.func.value):
            if node.keywords or len(node.args) != 2 or not (isinstance(node.args[1], ast.Constant) and node.args[1].value is None):
                raise Shape('%s: get shape: %s' % (self.name, ast.unparse(node)[:60]))
            d, td = self.attr(node.func.value)
            a, ta = self.ex(node.args[0], td[1])
            if ta == td[1]:
                return '(Py.dictGetOpt %s %s)' % (d, a), O(td[2])
            if ta == O(td[1]):
                return '(Py.dictGetOptO %s %s)' % (d, a), O(td[2])
            raise Shape('%s: get of a %s from a dict with %s keys' % (self.name, ty(ta), ty(td[1])))
        if isinstance(node, ast.Subscript) and is_cls_attr(node.value) and isinstance(node.ctx, ast.Load):
            d, td = self.attr(node.value)
            a, ta = self.ex(node.slice, td[1])
            if ta == td[1]:
                return '(← Py.dictGet %s %s)' % (d, a), td[2]
            if ta == O(td[1]):
                return '(← Py.dictGetKO %s %s)' % (d, a), td[2]
            raise Shape('%s: subscript with a %s of a dict with %s keys' % (self.name, ty(ta), ty(td[1])))
        if isinstance(node, ast.Call) and isinstance(node.func, ast.Attribute) and node.func.attr == '__call__':
            if not same(node, CONSTRUCT) or not self.spec.get('constructor'):
                raise Shape('%s: constructor call shape: %s' % (self.name, ast.unparse(node)[:70]))
            return '(← Py.construct fresh initKeys)', NAT
        return super().ex(node, expect)

    def message(self, node, out, ind):
        """the replacement fields of a message that is dropped: their evaluation must be without effect, or is emitted"""
        if isinstance(node, ast.Constant) and isinstance(node.value, str):
            return
        if not isinstance(node, ast.JoinedStr):
            raise Shape('%s: message shape: %s' % (self.name, ast.unparse(node)[:60]))
        for part in node.values:
            if isinstance(part, ast.Constant):
                continue
            v = part.value
            if part.conversion != -1 or part.format_spec is not None:
                raise Shape('%s: replacement field with conversion / format spec' % self.name)
            if isinstance(v, ast.Attribute) and isinstance(v.value, ast.Name) and v.value.id == 'cls' and v.attr == '__name__':
                continue
            if isinstance(v, ast.Name) and self.var(v.id)[1] in (STR, O(KAPPA)):
                continue
            if isinstance(v, ast.Attribute) and isinstance(v.value, ast.Name) and v.attr == 'name' and self.var(v.value.id)[1] == OBJ:
                out.append(ind + 'let _ ← Py.attrOf %s      -- %s: AttributeError for None' % (self.var(v.value.id)[0], ast.unparse(v)))
                continue
            raise Shape('%s: replacement field %s in a message' % (self.name, ast.unparse(v)[:40]))

    def stmt(self, st, out, ind, inloop):
        # raise SingletonError(msg [, existing = x])
        if isinstance(st, ast.Raise) and isinstance(st.exc, ast.Call) and isinstance(st.exc.func, ast.Name) and st.exc.func.id == 'SingletonError':
            c = st.exc
            if len(c.args) != 1 or len(c.keywords) > 1 or (c.keywords and c.keywords[0].arg != 'existing') or st.cause is not None:
                raise Shape('%s: raise shape: %s' % (self.name, ast.unparse(st)[:70]))
            self.message(c.args[0], out, ind)
            ex = 'none'
            if c.keywords:
                ex, tx = self.ex(c.keywords[0].value, OBJ)
                if tx != OBJ:
                    raise Shape('%s: existing = a %s' % (self.name, ty(tx)))
            out.append(ind + 'throw (Err.singleton %s)' % ex)
            return
        # log.debug(msg)
        if isinstance(st, ast.Expr) and isinstance(st.value, ast.Call) and isinstance(st.value.func, ast.Attribute) \
                and isinstance(st.value.func.value, ast.Name) and st.value.func.value.id == 'log':
            c = st.value
            if c.func.attr != 'debug' or len(c.args) != 1 or c.keywords or not self.spec.get('log_is_logger'):
                raise Shape('%s: log call shape: %s' % (self.name, ast.unparse(st)[:60]))
            self.message(c.args[0], out, ind)
            out.append(ind + 'pure ()      -- log.debug(…)')
            return
        # cls.A[k] = v
        if isinstance(st, ast.Assign) and len(st.targets) == 1 and isinstance(st.targets[0], ast.Subscript) and is_cls_attr(st.targets[0].value):
            a = st.targets[0].value.attr
            td = ATTRS[a]
            v, tv = self.ex(st.value, td[2])                                  # Python evaluates the value first, then the key
            v = self.need(v, tv, td[2])                                       # None as a value: TypeError (Py.unwrap)
            k, tk = self.ex(st.targets[0].slice, td[1])
            if tk == O(td[1]):
                k = '(← Py.keyOf %s)' % k
            elif tk != td[1]:
                raise Shape('%s: key of type %s for a dict with %s keys' % (self.name, ty(tk), ty(td[1])))
            self.ntmp = getattr(self, 'ntmp', 0) + 1
            n = self.ntmp
            out.append(ind + 'let x%d := %s' % (n, v))
            out.append(ind + 'let k%d := %s' % (n, k))
            out.append(ind + 'modify (fun s => { s with %s := Py.dictSet s.%s k%d x%d })      -- cls.%s[…] = …' % (a, a, n, n, a))
            return
        # cls.A.clear()   |   cls.A = WeakValueDictionary()
        if isinstance(st, ast.Expr) and isinstance(st.value, ast.Call) and isinstance(st.value.func, ast.Attribute) \
                and st.value.func.attr == 'clear' and is_cls_attr(st.value.func.value) and not st.value.args and not st.value.keywords:
            a = st.value.func.value.attr
            out.append(ind + 'modify (fun s => { s with %s := [] })      -- cls.%s.clear()' % (a, a))
            return
        if isinstance(st, ast.Assign) and len(st.targets) == 1 and is_cls_attr(st.targets[0]):
            a = st.targets[0].attr
            if not (same(st.value, 'WeakValueDictionary()') and self.spec.get('wvd_is_weakref')):
                raise Shape('%s: assignment to cls.%s: %s' % (self.name, a, ast.unparse(st.value)[:40]))
            out.append(ind + 'modify (fun s => { s with %s := [] })      -- cls.%s = WeakValueDictionary()' % (a, a))
            return
        return super().stmt(st, out, ind, inloop)


def find_class(tree, name):
    c = [n for n in tree.body if isinstance(n, ast.ClassDef) and n.name == name]
    if len(c) != 1:
        raise Shape('class %s not found exactly once' % name)
    return c[0]


def names_in(nodes, ids):
    return [n for st in nodes for n in ast.walk(st) if isinstance(n, ast.Name) and n.id in ids]


def strip_docstring(body):
    if body and isinstance(body[0], ast.Expr) and isinstance(body[0].value, ast.Constant) and isinstance(body[0].value.value, str):
        return body[1:]
    return list(body)


def module_facts(tree):
    log = [n for n in tree.body if isinstance(n, ast.Assign) and any(isinstance(t, ast.Name) and t.id == 'log' for t in n.targets)]
    stores = [n for n in ast.walk(tree) if isinstance(n, ast.Name) and n.id == 'log' and isinstance(n.ctx, (ast.Store, ast.Del))]
    log_ok = len(log) == 1 and len(stores) == 1 and same(log[0], 'log = logging.getLogger(__name__)') and \
        any(isinstance(n, ast.Import) and any(a.name == 'logging' and a.asname is None for a in n.names) for n in tree.body)
    return dict(log_is_logger=log_ok, wvd_is_weakref=imported_from(tree, 'WeakValueDictionary', 'weakref'))


def gen_call(tree, facts):
    cls = find_class(tree, 'Singleton')
    if [ast.unparse(b) for b in cls.bases] != ['type']:
        raise Shape('Singleton is not a direct subclass of type')
    ms = [n for n in cls.body if isinstance(n, ast.FunctionDef) and n.name == '__call__']
    if len(ms) != 1 or ms[0].decorator_list:
        raise Shape('Singleton.__call__ not found exactly once (undecorated)')
    fn = ms[0]
    a = fn.args
    if [x.arg for x in a.args] != ['cls'] or a.vararg is None or a.vararg.arg != 'args' or a.kwarg is None or a.kwarg.arg != 'kwargs' \
            or a.kwonlyargs or a.posonlyargs or a.defaults:
        raise Shape('Singleton.__call__: signature is not (cls, *args, **kwargs)')
    body = strip_docstring(fn.body)
    if len(body) < 3 or not same(body[0], FIRST):
        raise Shape('Singleton.__call__: the first statement is not `%s`' % FIRST)
    for st, want in zip(body[1:3], PLUMBING):
        if not same(st, want):
            raise Shape('Singleton.__call__: keyword plumbing changed: %s' % ast.unparse(st)[:80])
    rest = body[3:]
    # args / kwargs / kwadd: nowhere else but in the constructor call
    cons = [n for st in rest for n in ast.walk(st) if isinstance(n, ast.Call) and isinstance(n.func, ast.Attribute) and n.func.attr == '__call__']
    inside = {id(m) for c in cons for m in ast.walk(c)}
    for n in names_in(rest, {'args', 'kwargs', 'kwadd', 'arg'}):
        if id(n) not in inside:
            raise Shape('Singleton.__call__: %s is used outside the constructor call' % n.id)
    for n in names_in(rest, {'canon', 'name', 'fresh', 'initKeys'}):
        if not isinstance(n.ctx, ast.Load):
            raise Shape('Singleton.__call__: %s is assigned' % n.id)
    for n in names_in(rest, {'cls'}):
        if not isinstance(n.ctx, ast.Load):
            raise Shape('Singleton.__call__: cls is assigned')
    fn2 = copy.copy(fn)
    fn2.args = ast.arguments(posonlyargs=[], args=[ast.arg(arg=p) for p, _ in CALL_SPEC['params']], vararg=None, kwonlyargs=[],
                             kw_defaults=[], kwarg=None, defaults=[])
    fn2.body = rest
    spec = dict(CALL_SPEC, constructor=True, _fn=fn2, **facts)
    check_signature(fn2, spec)
    definite_assignment(fn2, [p for p, _ in spec['params']] + ['cls', 'log', 'super', 'Singleton', 'SingletonError', 'args', 'kwargs'], spec['name'])
    tx = SingletonTx(spec, fn2)
    text = tx.run()
    return text, {'statements': sum(1 for n in ast.walk(fn) if isinstance(n, ast.stmt)) - 1, 'left_out': 3,
                  'source_lines': fn.end_lineno - fn.lineno + 1}


def gen_clear(tree, facts):
    fs = [n for n in tree.body if isinstance(n, ast.FunctionDef) and n.name == 'clear_singletons']
    if len(fs) != 1 or fs[0].decorator_list:
        raise Shape('clear_singletons not found exactly once')
    fn = fs[0]
    a = fn.args
    if [x.arg for x in a.args] != ['cls'] or a.vararg or a.kwarg or a.kwonlyargs or a.posonlyargs or a.defaults:
        raise Shape('clear_singletons: signature is not (cls)')
    body = strip_docstring(fn.body)
    fn2 = copy.copy(fn)
    fn2.args = ast.arguments(posonlyargs=[], args=[], vararg=None, kwonlyargs=[], kw_defaults=[], kwarg=None, defaults=[])
    fn2.body = body
    spec = dict(path=PATH, name='clear_singletons', params=[], locals={}, ret='Unit', _fn=fn2, **facts)
    if any(isinstance(n, (ast.Return, ast.Yield, ast.YieldFrom)) for n in ast.walk(fn)):
        raise Shape('clear_singletons: return / yield')
    definite_assignment(fn2, ['cls', 'WeakValueDictionary'], spec['name'])
    tx = SingletonTx(spec, fn2)
    out = []
    tx.stmts(body, out, '  ', False)
    if tx.locals or tx.loops:
        raise Shape('clear_singletons: locals / loops')
    text = ['/-- `clear_singletons` (%s), statement by statement; it falls off its end (returns None) -/' % PATH,
            'def py_clear_singletons : Py.SM κ Unit := do'] + out + ['  return ()']
    return '\n'.join(text) + '\n', {'statements': len(body), 'source_lines': fn.end_lineno - fn.lineno + 1}


def gen_pysingleton(repo):
    """`Gen/PySingleton.lean`: `Singleton.__call__` and `clear_singletons` of dsdobjects/singleton.py"""
    out = ['/- GENERATED by translator/pysingleton.py from the Python source — do not edit. -/',
           'import DsdVerif.Model.PyPreludeSingleton', '', 'set_option linter.unusedVariables false', '',
           'namespace Dsd.Gen', 'open Dsd', '', 'variable {κ : Type} [DecidableEq κ]', '']
    tree = ast.parse(open(os.path.join(repo, PATH)).read())
    builtins_unshadowed(tree, {'super', 'any', 'type'})
    if not any(isinstance(n, ast.ClassDef) and n.name == 'SingletonError' for n in tree.body):
        raise Shape('the exception class SingletonError is not defined in the module')
    facts = module_facts(tree)
    summary = {}
    text, summary['Singleton_call'] = gen_call(tree, facts)
    out.append(text)
    try:
        text, summary['clear_singletons'] = gen_clear(tree, facts)
    except Shape as e:
        # clear_singletons has none of the accepted shapes any more: a stub that raises, so that __call__ keeps its translation
        summary['clear_singletons'] = {'untranslated': str(e)}
        text = ('/-- `clear_singletons` could NOT be translated: %s -/\n' % str(e).replace('-/', '- /') +
                'def py_clear_singletons : Py.SM κ Unit := throw (Err.fault "untranslated")\n')
    out.append(text)
    out.append('end Dsd.Gen')
    return '\n'.join(out) + '\n', summary


if __name__ == '__main__':
    text, summ = gen_pysingleton(sys.argv[1])
    sys.stdout.write(text)
    sys.stderr.write(repr(summ) + '\n')
