#!/usr/bin/env python3
"""Statement-level translation of `ReactionS.reaction_string` and `ReactionS.__str__` (dsdobjects/base_classes.py) into Lean 4
(`Gen/PyStrings.lean`), with the getters they read.

    /venv/bin/python translator/pystrings.py <repo>  > lean/DsdVerif/Gen/PyStrings.lean

`StrTx(SetObjTx)` (translator/pyident3.py: members as pairs (name, canonical form), `self` as the state of `ExceptT Err (StateM Self)`), same
refusal policy (`Shape` -> raising stub, reported).  Record `ReactionSStr.Self` = `_reactants`, `_products` (lists of members), `_rtype`, `_name`
(`None`-able strs), `_const` (`None` or a number: the exact rational, as translator/pyunits.py), `_units` (`None` or a str); Lean names
`py_ReactionSStr_<method>` (no clash with Gen/PySetObjects.lean / Gen/PyUnits.lean).  Primitives: Model/PyPreludeStrings.lean (`Py.Str.…`).

Reading that is ADDED here:

  truthiness  `if x:` / `a if x else b` on a `None`-able number: `Py.Str.truthyNum x` - `None` AND ZERO are false; on a `None`-able str:
              `Py.Str.truthyOS x` - `None` and `''` are false
  f'lit{x}…'  literal pieces and replacement fields without conversion / spec: a str field is itself, a `None`-able str is `Py.strOpt`
              (`None` prints as `None`), a non-negative int its numeral
  'lit{SPEC}…'.format(a, …)   a str literal whose fields are `{}` (rule of pyident2.py) or `{:12s}` / `{:5s}` / `{:10g}`: the RENDERING of a
              formatted field is an opaque PARAMETER of the translation (as translator/pyreaderfn.py does): `fmt_12s, fmt_5s : String → String`
              (padding to a width), `fmt_10g_flint : Rat → String` for `'{:10g}'.format(flint(c))` (only this combination; `flint` must be
              the function imported from `.utils`).  `{:12s}` of a `None`-able str needs the str: `(← Py.unwrap x)` - TypeError for `None`, as
              `format(None, '12s')` raises.  Arguments are evaluated left to right before anything is formatted.
  self.m      the getters `reactants`, `products`, `rtype`, `name` translated here on the same record (`return iter(self._reactants)` is the
              list: consumed at once by the comprehension)

Not translated: `ReactionS.kernel_string` / `MacrostateS.kernel_string` (the MEMBERS' `kernel_string`: a third attribute of a member, not in the
(name, canonical form) reading), `__repr__` (`self.__class__.__name__`), `ComplexS.__repr__` (kernel string), `full_string` (not in this tree).
"""
import ast, os, sys
sys.path.insert(0, os.path.dirname(os.path.abspath(__file__)))
from pyfunc import Shape, NAT, STR, BOOL, L, O, ty, ident, definite_assignment, builtins_unshadowed, imported_from, check_signature
from pymethod import MethodTx, find_class, find_method, without_self, is_self
from pyident import PATH
from pyident2 import RMEMBER, lean_str
from pyident3 import SetObjTx

RAT = 'Rat'
ATTRS = [('_reactants', L(RMEMBER)), ('_products', L(RMEMBER)), ('_rtype', O(STR)), ('_name', O(STR)), ('_const', O(RAT)), ('_units', O(STR))]
FMT = {'12s': ('fmt_12s', 'String → String'), '5s': ('fmt_5s', 'String → String'), '10g': ('fmt_10g_flint', 'Rat → String')}
FMT_PARAMS = [(n, t) for n, t in FMT.values()]
METHODS = [
    dict(method='reactants', kind='getter', params=[], locals={}, ret=L(RMEMBER), iter_ok=True),
    dict(method='products', kind='getter', params=[], locals={}, ret=L(RMEMBER), iter_ok=True),
    dict(method='rtype', kind='getter', params=[], locals={}, ret=O(STR)),
    dict(method='name', kind='getter', params=[], locals={}, ret=O(STR)),
    dict(method='reaction_string', kind='getter', params=FMT_PARAMS, locals={'rc': STR}, ret=STR, uses=['reactants', 'products', 'rtype']),
    dict(method='__str__', kind='method', params=[], locals={}, ret=STR, uses=['name']),
]


class StrTx(SetObjTx):
    def truthy(self, node):
        if not isinstance(node, (ast.BoolOp, ast.UnaryOp)):
            c, t = self.ex(node)
            if t == O(RAT):
                return '(Py.Str.truthyNum %s)' % c
            if t == O(STR):
                return '(Py.Str.truthyOS %s)' % c
        return super().truthy(node)

    def ex(self, node, expect=None):
        if isinstance(node, ast.Attribute) and is_self(node.value):
            return MethodTx.ex(self, node, expect)              # self.name is the property, not a member's attribute
        if isinstance(node, ast.JoinedStr):
            parts = []
            for v in node.values:
                if isinstance(v, ast.Constant) and isinstance(v.value, str):
                    parts.append(lean_str(v.value))
                elif isinstance(v, ast.FormattedValue) and v.conversion == -1 and v.format_spec is None:
                    c, t = self.ex(v.value)
                    parts.append(c if t == STR else '(Py.strOpt %s)' % c if t == O(STR) else '(Py.strNat %s)' % c if t == NAT else None)
                    if parts[-1] is None:
                        raise Shape('%s: f-string field of type %s' % (self.name, ty(t)))
                else:
                    raise Shape('%s: f-string shape: %s' % (self.name, ast.unparse(node)[:60]))
            return '(' + ' ++ '.join(parts or ['""']) + ')', STR
        if isinstance(node, ast.Call) and isinstance(node.func, ast.Attribute) and node.func.attr == 'format' \
                and isinstance(node.func.value, ast.Constant) and isinstance(node.func.value.value, str) and ':' in node.func.value.value:
            lit = node.func.value.value
            pieces, specs, rest = [], [], lit
            while '{' in rest:
                i = rest.index('{'); j = rest.index('}', i)
                pieces.append(rest[:i]); specs.append(rest[i + 1:j]); rest = rest[j + 1:]
            pieces.append(rest)
            if node.keywords or len(specs) != len(node.args) or any('{' in p or '}' in p for p in pieces):
                raise Shape('%s: format shape: %s' % (self.name, ast.unparse(node)[:60]))
            parts = [lean_str(pieces[0])] if pieces[0] else []
            for a, sp, p in zip(node.args, specs, pieces[1:]):
                if sp == '':
                    c, t = self.ex(a)
                    f = c if t == STR else '(Py.strOpt %s)' % c if t == O(STR) else None
                elif sp in (':12s', ':5s'):
                    c, t = self.ex(a, STR)
                    f = '(%s %s)' % (FMT[sp[1:]][0], self.need(c, t, STR)) if t in (STR, O(STR)) else None
                elif sp == ':10g':
                    if not (isinstance(a, ast.Call) and isinstance(a.func, ast.Name) and a.func.id == 'flint' and len(a.args) == 1 and not a.keywords
                            and self.spec.get('flint_is_utils')):
                        raise Shape('%s: {:10g} of %s' % (self.name, ast.unparse(a)[:40]))
                    c, t = self.ex(a.args[0])
                    f = '(fmt_10g_flint %s)' % self.need(c, t, RAT) if t in (RAT, O(RAT)) else None
                else:
                    f = None
                if f is None:
                    raise Shape('%s: format field {%s} of %s' % (self.name, sp, ast.unparse(a)[:40]))
                if FMT.get(sp[1:], (None,))[0] not in (None,) and FMT[sp[1:]][0] not in self.params:
                    raise Shape('%s: no rendering parameter for {%s}' % (self.name, sp))
                parts.append(f)
                if p:
                    parts.append(lean_str(p))
            return '(' + ' ++ '.join(parts) + ')', STR
        return super().ex(node, expect)


def gen_pystrings(repo):
    out = ['/- GENERATED by translator/pystrings.py from the Python source — do not edit. -/',
           'import DsdVerif.Model.PyPreludeStrings', 'import DsdVerif.Model.PyPreludeIdent3', '', 'set_option linter.unusedVariables false', '',
           'namespace Dsd.Gen', 'open Dsd', '']
    tree = ast.parse(open(os.path.join(repo, PATH)).read())
    builtins_unshadowed(tree, {'isinstance', 'list', 'len', 'str', 'tuple', 'sorted', 'map', 'iter', 'next'})
    flint_ok = imported_from(tree, 'flint', 'utils')
    cls = find_class(tree, 'ReactionS')
    rec, label = 'ReactionSStr', 'ReactionSStr'
    out.append('/-- the part of a `ReactionS` object that the translated renderings read -/')
    out.append('structure %s.Self where\n' % rec + '\n'.join('  %s : %s' % (a, ty(t)) for a, t in ATTRS) + '\nderiving Repr, DecidableEq, Inhabited\n')
    out.append('abbrev %s.M := Py.MS %s.Self\n' % (rec, rec))
    summary, untranslated, methods = {}, {}, {}
    for spec in METHODS:
        full = '%s_%s' % (label, spec['method'])
        fn = None
        try:
            fn = find_method(cls, spec['method'], spec['kind'])
            fn2 = without_self(fn)
            if fn2.args.args or fn2.args.vararg or fn2.args.kwarg or fn2.args.kwonlyargs:
                raise Shape('%s: parameters' % full)
            s = dict(spec, name=full, lean=full, lean_full=full, path=PATH, str_is_builtin=True, _fn=fn2, cls_params=[], flint_is_utils=flint_ok)
            uses = {}
            for u in spec.get('uses', ()):
                if u not in methods:
                    raise Shape('%s: self.%s is not translated before it' % (full, u))
                uses[u] = methods[u]
            definite_assignment(fn2, ['self', 'iter', 'flint'], full)
            tx = StrTx(s, fn2, uses, ATTRS, rec, label)
            text = tx.run()
        except Shape as e:
            untranslated[full] = str(e)
            sig = ' '.join('(%s : %s)' % (q, ty(t)) for q, t in spec['params'])
            text = ('/-- `%s` (%s) could NOT be translated: %s -/\n' % (full, PATH, str(e).replace('-/', '- /')) +
                    'def py_%s %s : %s.M (%s) := throw (Err.fault "untranslated")\n' % (full, sig, rec, ty(spec['ret'])))
        out.append(text)
        if spec['kind'] == 'getter':
            methods[spec['method']] = spec
        summary[full] = {'statements': (sum(1 for _ in ast.walk(fn) if isinstance(_, ast.stmt)) - 1) if fn is not None else 0,
                         'loops': 0, 'source_lines': (fn.end_lineno - fn.lineno + 1) if fn is not None else 0}
    out.append('end Dsd.Gen')
    if untranslated:
        summary['untranslated'] = untranslated
    return '\n'.join(out) + '\n', summary


if __name__ == '__main__':
    text, summ = gen_pystrings(sys.argv[1])
    sys.stdout.write(text)
    sys.stderr.write(repr(summ) + '\n')
