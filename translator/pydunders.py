#!/usr/bin/env python3
"""Statement-level translation of the comparison and hash methods `__eq__ __ne__ __lt__ __gt__ __le__ __ge__ __hash__` of `DomainS`,
`ComplexS` (inherited by `StrandS`), `MacrostateS`, `ReactionS` (dsdobjects/base_classes.py) into Lean 4 (`Gen/PyDunders.lean`).

    /venv/bin/python translator/pydunders.py <repo>  > lean/DsdVerif/Gen/PyDunders.lean

An extension of translator/pyfunc.py (`DunderTx(FuncTx)`): the statements themselves, not a reduction to "operator + key".  Same refusal
policy (`Shape` -> raising stub, reported).  Primitives: Model/PyPreludeDunders.lean (`Py.Dunder.…`).

Reading that is ADDED here:

  operands    a method is a pure function (`Py.M`) of `self` and `other`.  `self` is read through the attributes the seven methods of its
              class read (stub `key`): a domain is `(name, length) : String × Nat`; a complex, a macrostate, a reaction is its
              `canonical_form` (`(names, structure)`; the tuple of the member complexes, each through ITS canonical form, by which
              `ComplexS.__eq__/__lt__` go; `(reactant forms, product forms, type)` for reactions among complexes with a str type).
              `other` is a TAGGED value `Py.Dunder.Operand key`: `same k` an object of the class named in the method's `isinstance` guard
              (subclasses included: `StrandS` is a `ComplexS`), `foreign` anything else.
  isinstance(other, C)   only with `C` the class the method is defined in: `Py.Dunder.isSame other`
  other.attr  `(← Py.Dunder.attrs other)` projected like `self.attr`: AttributeError unless `other` is of the kind
  self == other   (in `__ne__`) Python calls `type(self).__eq__(self, other)`: `(← py_<C>___eq__ self other)`.  Checked: that `__eq__` is
              translated before, and NO translated method mentions `NotImplemented`, so its result is the result of `==`.
  a < b, a > b, a <= b, a >= b   on two strs / two canonical forms of the same type: `lt a b`, `lt b a`, `Py.Dunder.le lt a b`
              (`a == b || lt a b`), `Py.Dunder.ge lt a b` with `lt` Python's order on that type: `Py.strLt`, `Py.ckeyLt`,
              `Py.seqLt Py.ckeyLt` (tuples of complexes), `Py.Dunder.rkeyLt`
  (a, b) == (c, d), x == y   `==` of the values (FuncTx)
  hash(x)     `hashfn x` for a parameter `hashfn : T → Int` of the translation (`T` the type of `x`): an arbitrary function, which is
              all the theorems use (equal arguments give equal hashes)
  return inside if   FuncTx; `assert` -> `Err.assertion` (FuncTx)

Not represented: operands of OTHER library classes that happen to have an attribute of the same name (`DomainS('a') < ComplexS(…)` compares
a str with a str); macrostate members / `None` types in reaction forms (the comparison raises: see Model/PyPreludeIdent2.lean `formLtM`).
"""
import ast, os, sys
sys.path.insert(0, os.path.dirname(os.path.abspath(__file__)))
from pyfunc import FuncTx, Shape, NAT, STR, BOOL, L, O, P, ty, ident, definite_assignment, builtins_unshadowed
from pymethod import find_class, find_method
from pyident import CKEY, PATH

RKEYC = 'Py.Dunder.RKeyC'
DKEY = P(STR, NAT)
FAMILIES = [
    dict(cls='DomainS', key=DKEY, attrs={'name': ('.1', STR), 'length': ('.2', NAT)}),
    dict(cls='ComplexS', key=CKEY, attrs={'canonical_form': ('', CKEY)}),
    dict(cls='MacrostateS', key=L(CKEY), attrs={'canonical_form': ('', L(CKEY))}),
    dict(cls='ReactionS', key=RKEYC, attrs={'canonical_form': ('', RKEYC)}),
]
METHODS = ['__eq__', '__ne__', '__lt__', '__gt__', '__le__', '__ge__', '__hash__']
LT = {repr(STR): 'Py.strLt', repr(CKEY): 'Py.ckeyLt', repr(L(CKEY)): '(Py.seqLt Py.ckeyLt)', repr(RKEYC): 'Py.Dunder.rkeyLt'}


def operand(t):
    return 'Py.Dunder.Operand (%s)' % ty(t)


class DunderTx(FuncTx):
    def __init__(self, spec, fn, fam, have_eq):
        super().__init__(spec, fn)
        self.fam, self.have_eq = fam, have_eq
        self.exc = {}
        for n in ast.walk(fn):
            if isinstance(n, ast.Name) and n.id == 'NotImplemented':
                raise Shape('%s: NotImplemented' % self.name)

    def static_test(self, node):
        return None                                  # nothing is decided by the typing here: `isinstance` is a run-time test of `other`

    def ex(self, node, expect=None):
        # self.attr / other.attr
        if isinstance(node, ast.Attribute) and isinstance(node.value, ast.Name) and node.value.id in ('self', 'other') and isinstance(node.ctx, ast.Load):
            if node.attr not in self.fam['attrs']:
                raise Shape('%s: %s.%s is not an attribute the comparison methods are declared to read' % (self.name, node.value.id, node.attr))
            proj, t = self.fam['attrs'][node.attr]
            if node.value.id == 'self':
                return 'self' + proj, t
            if 'other' not in self.params:
                raise Shape('%s: other' % self.name)
            return '(← Py.Dunder.attrs other)' + proj, t
        if isinstance(node, ast.Name) and node.id in ('self', 'other'):
            raise Shape('%s: %s is used other than through a declared attribute' % (self.name, node.id))
        if isinstance(node, ast.Call) and isinstance(node.func, ast.Name) and node.func.id == 'isinstance':
            if len(node.args) != 2 or node.keywords or not (isinstance(node.args[0], ast.Name) and node.args[0].id == 'other' and 'other' in self.params) \
                    or not (isinstance(node.args[1], ast.Name) and node.args[1].id == self.fam['cls']):
                raise Shape('%s: isinstance shape: %s' % (self.name, ast.unparse(node)))
            return '(Py.Dunder.isSame other)', BOOL
        if isinstance(node, ast.Call) and isinstance(node.func, ast.Name) and node.func.id == 'hash':
            if len(node.args) != 1 or node.keywords or 'hashfn' not in self.params:
                raise Shape('%s: hash shape' % self.name)
            c, t = self.ex(node.args[0])
            if ty(t) != self.spec['hash_arg']:
                raise Shape('%s: hash of a %s (the stub declares %s)' % (self.name, ty(t), self.spec['hash_arg']))
            return '(hashfn %s)' % c, 'Int'
        if isinstance(node, ast.Compare) and len(node.ops) == 1:
            op, l, r = node.ops[0], node.left, node.comparators[0]
            if isinstance(l, ast.Name) and l.id == 'self' and isinstance(r, ast.Name) and r.id == 'other':
                if not isinstance(op, ast.Eq) or not self.have_eq or self.spec['method'] == '__eq__' or 'other' not in self.params:
                    raise Shape('%s: %s on the objects themselves' % (self.name, ast.unparse(node)))
                return '(← py_%s___eq__ self other)' % self.fam['cls'], BOOL
            if isinstance(op, (ast.Lt, ast.Gt, ast.LtE, ast.GtE)):
                (a, ta), (b, tb) = self.ex(l), self.ex(r)
                if ta != tb or repr(ta) not in LT:
                    raise Shape('%s: %s on a %s and a %s' % (self.name, type(op).__name__, ty(ta), ty(tb)))
                lt = LT[repr(ta)]
                code = {ast.Lt: '(%s %s %s)' % (lt, a, b), ast.Gt: '(%s %s %s)' % (lt, b, a),
                        ast.LtE: '(Py.Dunder.le %s %s %s)' % (lt, a, b), ast.GtE: '(Py.Dunder.ge %s %s %s)' % (lt, a, b)}[type(op)]
                if isinstance(op, ast.Gt) and ('←' in a or '←' in b) and '←' in a and '←' in b:
                    raise Shape('%s: two fallible operands of >' % self.name)        # (the swapped order would swap the effects)
                return code, BOOL
        return super().ex(node, expect)


def gen_pydunders(repo):
    out = ['/- GENERATED by translator/pydunders.py from the Python source — do not edit. -/',
           'import DsdVerif.Model.PyPreludeDunders', '', 'set_option linter.unusedVariables false', '', 'namespace Dsd.Gen', 'open Dsd', '']
    tree = ast.parse(open(os.path.join(repo, PATH)).read())
    builtins_unshadowed(tree, {'isinstance', 'hash', 'len', 'list', 'tuple', 'sorted', 'str', 'NotImplemented'})
    summary, untranslated = {}, {}
    for fam in FAMILIES:
        cls = find_class(tree, fam['cls'])
        have_eq = False
        for m in METHODS:
            full = '%s_%s' % (fam['cls'], m)
            is_hash = m == '__hash__'
            hash_arg = {'DomainS': 'String'}.get(fam['cls'], ty(fam['key']))
            params = ([('hashfn', '%s → Int' % (hash_arg if ' ' not in hash_arg else '(%s)' % hash_arg)), ('self', fam['key'])] if is_hash
                      else [('self', fam['key']), ('other', operand(fam['key']))])
            ret = 'Int' if is_hash else BOOL
            fn = None
            try:
                fn = find_method(cls, m, 'method')
                a = fn.args
                if [x.arg for x in a.args] != (['self'] if is_hash else ['self', 'other']) or a.defaults or a.vararg or a.kwarg or a.kwonlyargs or a.posonlyargs:
                    raise Shape('%s: parameters %s' % (full, [x.arg for x in a.args]))
                spec = dict(path=PATH, name=full, lean=full, method=m, params=params, locals={}, ret=ret, hash_arg=hash_arg)
                definite_assignment(fn, ['self', 'other', 'isinstance', 'hash', fam['cls']], full)
                text = DunderTx(spec, fn, fam, have_eq).run()
                if m == '__eq__':
                    have_eq = True
            except Shape as e:
                untranslated[full] = str(e)
                sig = ' '.join('(%s : %s)' % (q, ty(t)) for q, t in params)
                text = ('/-- `%s` (%s) could NOT be translated: %s -/\n' % (full, PATH, str(e).replace('-/', '- /')) +
                        'def py_%s %s : Py.M (%s) := throw (Err.fault "untranslated")\n' % (full, sig, ret))
                if m == '__eq__':
                    have_eq = True          # the stub has the name: later methods still elaborate (and their theorems break with it)
            out.append(text)
            summary[full] = {'statements': (sum(1 for _ in ast.walk(fn) if isinstance(_, ast.stmt)) - 1) if fn is not None else 0,
                             'loops': 0, 'source_lines': (fn.end_lineno - fn.lineno + 1) if fn is not None else 0}
    out.append('end Dsd.Gen')
    if untranslated:
        summary['untranslated'] = untranslated
    return '\n'.join(out) + '\n', summary


if __name__ == '__main__':
    text, summ = gen_pydunders(sys.argv[1])
    sys.stdout.write(text)
    sys.stderr.write(repr(summ) + '\n')
