#!/usr/bin/env python3
"""Statement-level translation of the unit / rate-constant arithmetic into Lean 4 (`Gen/PyUnits.lean`, property C18).

    /venv/bin/python translator/pyunits.py <repo>  > lean/DsdVerif/Gen/PyUnits.lean

Translated, STATEMENT BY STATEMENT from the text of the working tree:
  dsdobjects/utils.py          `flint`, `convert_units`
  dsdobjects/base_classes.py   `ReactionS.arity`, `ReactionS.rate_constant` (getter and setter), `ReactionS.rateformat`,
                               `ComplexS.concentration` (getter and setter), `ComplexS.concentrationformat`

An extension of translator/pyfunc.py (`FuncTx`) and translator/pymethod.py (`MethodTx`): same rules, same refusal policy (a
statement or expression that has none of the accepted shapes raises `Shape`; nothing is guessed or skipped silently; nothing about
what the functions are supposed to compute is known here).  A function or method that is refused becomes a raising stub of the right
type (`Err.fault "untranslated"`) and is reported under `untranslated`, so that the file still elaborates and exactly the theorems and
streams about THAT definition break.

THE TRUSTED READING OF NUMBERS (a modelling decision; DESIGN.md section 9, Model/PyPreludeUnits.lean):

  numbers     a Python `int` or `float` is read as the EXACT rational it denotes: type `Rat`.  `a * b` is the exact product, `a / b`
              is `(← Py.div a b)`: ZeroDivisionError for `b = 0`, else the exact quotient.  Floating-point rounding, overflow to
              `inf`, `nan`, and the difference between the int `5` and the float `5.0` are NOT represented.
  float(x)    `(← Py.toFloat x)`: the same value.  CPython raises OverflowError for an int beyond the range of a double; such values
              are outside the reading, so `Py.toFloat` never raises (and Props/PyUnits `py_flint_eq` shows that the handler of
              `flint` is unreachable for the values that are represented).
  int(x)      `(← Py.toInt x)`: truncation towards zero, as a number.  (CPython: OverflowError for `inf`, ValueError for `nan`: outside.)
  x == y      on numbers: equality of the values.
  local constant tables   the float literals of the dict displays `conc = {…}` / `time = {…}` INSIDE `convert_units` are NOT
              transcribed again: translator/gen.py `gen_units` regenerates them on every run as `Gen.units_conc` / `Gen.units_time`
              (Gen/UnitTables.lean: per key the exact value of the decimal literal TEXT as numerator / denominator).  Here the name
              is read as `(Py.unitTable units_<name>)`, the dict of the numbers these rows denote, after checking that the display
              is the one `gen_units` reads and that it is a constant: exactly one statement `name = {…}` at the top level of the
              function body (gen_units reads the top-level statements of this shape), no other binding of the name anywhere in the
              function (assignment, augmented assignment, `del`, loop / comprehension target, parameter, `global` / `nonlocal`, nested
              def or lambda), pairwise different str constants as keys (so that first-match look-up in the item list IS `d[k]`),
              positive int / float constants as values, and every other occurrence of the name is `k in name` / `k not in name`
              or `name[k]` (no aliasing, no mutation, no iteration).  The assignment statement itself becomes a comment.

New rules (each as narrow as the nine definitions need):

  a * b, a / b   on numbers, see above; evaluation left to right (`val*conc[a]/conc[b]`: `conc[a]`, then `conc[b]`, then the division)
  k in d, d[k]   on a local constant table: `Py.dictHas` / `(← Py.dictGet …)` (KeyError) of pyfunc.py's dict rule, str keys
  raise       built-in exception classes `ValueError` (-> `Err.fault "ValueError"`), `NotImplementedError` (-> `Err.notImplemented`)
              (checked: the names are not bound in the module) and `ObjectInitError` (-> `Err.objectInit`; checked: a class defined in
              base_classes.py); the message (an f-string of attribute / parameter reads, which cannot raise) is dropped
  try … except OverflowError: H   a real `try … catch` of the exception `Err.fault "OverflowError"`; one handler, no `else` / `finally`,
              not inside a loop, the exception object unused; the try body may not assign locals (a Lean `try` would roll them back,
              Python keeps them).  A function whose last statement is such a `try` returns on every path if the body and the
              handler do.
  a <= b <= c    chained comparison of non-negative ints with infallible `a`, `c`: `b` is evaluated ONCE:
              `((fun m => decide (a ≤ m) && decide (m ≤ c)) b)`
  RateArg     the argument `tup` of the `rate_constant` setter is typed `Py.RateArg` (Model/PyPreludeUnits.lean; its docstring says
              which Python values each constructor stands for: a number, `(v,)`, `(v, u)`, `()`, a longer tuple).  On it:
              `isinstance(tup, tuple)` -> `Py.RateArg.isTuple tup` (a dynamic test, NOT decided by the typing); `len(tup)` ->
              `(← Py.RateArg.len tup)` (TypeError for a number); `tup[0]` -> `(← Py.RateArg.item0 tup)` (IndexError for `()`);
              `tup` where a 2-tuple is unpacked (`(constant, units) = tup …`) -> `(← Py.RateArg.asPair tup)` (ValueError unless it has
              two items); `tup` where the number itself is stored (`(constant, units) = (tup, None)`) -> `(← Py.RateArg.asNumber tup)`.
  a if c else b  with a `RateArg` branch, as the value of `(x, y) = …`: both branches are coerced to the pair type of the targets
              (previous item) inside their own `do` blocks, so that only the chosen branch is evaluated, as in Python
  (a, b) = e     the declared types of `a`, `b` are the expected type of `e`; `(a, b)` displays are coerced component-wise to an
              expected pair type (`x` to `some x` where a `None`-able value is expected)
  3-tuples    `(a, b, c)` is the nested pair `(a, (b, c))` (type tag `T3`): display, `t[0]` / `t[1]` / `t[2]` with constant index
              (`.1`, `.2.1`, `.2.2`; on a `None`-able triple `(← Py.unwrap t)` first: TypeError, as `None[0]`), and the unpacking
              `(a, b, c) = t` into three declared locals (`None`: TypeError)
  isinstance(value, (int, float))   only under `assert`, listed in the stub's `assume_asserts` (pyfunc.py): holds by the typing of
              `value` as a number; becomes a comment; the translation is refused if the assertion disappears
  s.split('/')   for a str kept as an opaque `String` (`self._units`, `output_units`): `Py.strSplit s '/' : List String` (on the
              characters it is pyfunc.py's `Py.split`); on a `None`-able str `(← Py.unwrapAttr s)` first (AttributeError);
              `l[1:]` is pyfunc.py's slice rule (`List.drop 1`)
  for a, b in zip(x, y)   `zip` of two already evaluated lists as the iterable of a `for`: `List.zip x y` (as long as the shorter)
  objects     `ReactionS.Self` = the attributes `_reactants`, `_products` (lists of OPAQUE objects: `List Unit`, only their lengths
              are read), `_const` (`None` or a number), `_units` (`None` or a str); `ComplexSConc.Self` = `_concentration` (`None`
              or a triple (mode : str, value : number, unit : str)).  Checked: the only assignments to these attributes in the class
              are in `__init__` and in the translated setters.  `py_ReactionS_init` / `py_ComplexSConc_init` are read off `__init__`
              (`_const`, `_units`, `_concentration` must be assigned `None` exactly once, at the top level; `_reactants` /
              `_products` must be `sorted(<parameter>, key=<lambda>)`, read as the parameter itself: a permutation of a `List Unit`
              is that list).
  typing deviation   `newc = self._const` in `rateformat` assigns to a local typed as a NUMBER: `(← Py.unwrap …)`, TypeError for
              `None` at the assignment.  CPython raises the TypeError later (`None * 1.0` inside `convert_units`) and, when the
              unit lists are empty, not at all (it returns `(None, output_units)`).  Unreachable through the translated setter,
              which never stores a `None` constant (Props/PyUnits `py_rate_set_const_isSome`); the theorems carry `_const = some c`.
"""
import ast, os, sys
sys.path.insert(0, os.path.dirname(os.path.abspath(__file__)))
from pyfunc import (FuncTx, Shape, NAT, STR, BOOL, CHAR, L, O, P, D, ty, ident, monadic, check_signature, definite_assignment,
                    imported_from, builtins_unshadowed, find_function)
from pymethod import MethodTx, find_class, find_method, without_self, is_self

RAT = 'Rat'                          # a Python number (int / float): the exact rational it denotes
RATEARG = 'Py.RateArg'               # the argument of the rate_constant setter
UNIT = 'Unit'                        # an opaque object (a reactant / product: only counted)
def T3(a, b, c):                     # a 3-tuple as a nested pair; the 4th entry is a tag that pyfunc.ty ignores
    return ('Prod', a, ('Prod', b, c), 'triple')
def is_t3(t):
    return isinstance(t, tuple) and len(t) == 4 and t[0] == 'Prod' and t[3] == 'triple'

UTILS = 'dsdobjects/utils.py'
BASE = 'dsdobjects/base_classes.py'
EXC_UNITS = {'ValueError': '(Err.fault "ValueError")', 'NotImplementedError': 'Err.notImplemented', 'ObjectInitError': 'Err.objectInit'}
BUILTIN_NAMES = {'isinstance', 'len', 'int', 'float', 'zip', 'tuple', 'sorted', 'ValueError', 'NotImplementedError', 'OverflowError'}
TRIPLE = T3(STR, RAT, STR)
RPAIR = P(RAT, O(STR))

# ---- typing stubs ----------------------------------------------------------------------------------------------------------
FLINT = dict(path=UTILS, name='flint', params=[('n', RAT)], locals={}, ret=RAT)
CONVERT = dict(path=UTILS, name='convert_units', params=[('val', RAT), ('unit_in', STR), ('unit_out', STR)], locals={}, ret=RAT,
               tables={'conc': 'units_conc', 'time': 'units_time'}, callees=['flint'])

R_ATTRS = [('_reactants', L(UNIT)), ('_products', L(UNIT)), ('_const', O(RAT)), ('_units', O(STR))]
R_METHODS = [
    dict(method='arity', kind='getter', lean='arity', params=[], locals={}, ret=P(NAT, NAT)),
    dict(method='rate_constant', kind='getter', lean='rate_constant', params=[], locals={}, ret=P(O(RAT), O(STR)), callees=['flint']),
    dict(method='rate_constant', kind='setter', lean='set_rate_constant', params=[('tup', RATEARG)],
         locals={'constant': RAT, 'units': O(STR)}, ret='Unit'),
    dict(method='rateformat', kind='method', lean='rateformat', params=[('output_units', STR)],
         locals={'old': L(STR), 'new': L(STR), 'newc': RAT}, ret=P(RAT, STR), callees=['convert_units']),
]
C_ATTRS = [('_concentration', O(TRIPLE))]
C_METHODS = [
    dict(method='concentration', kind='getter', lean='concentration', params=[], locals={}, ret=O(TRIPLE)),
    dict(method='concentration', kind='setter', lean='set_concentration', params=[('trip', O(TRIPLE))],
         locals={'mode': STR, 'value': RAT, 'unit': STR}, assume_asserts=['isinstance(value, (int, float))'], ret='Unit'),
    dict(method='concentrationformat', kind='method', lean='concentrationformat', params=[('out', STR)],
         locals={'mod': STR, 'val': RAT, 'uni': STR}, ret=TRIPLE, callees=['convert_units']),
]


# ---- the added rules -------------------------------------------------------------------------------------------------------
class UnitsRules:
    """the rules listed in the docstring of this file; everything else is delegated to FuncTx / MethodTx"""

    def need(self, code, t, want):
        if t == RATEARG and want == RAT:
            return '(← Py.RateArg.asNumber %s)' % code
        if t == RATEARG and want == RPAIR:
            return '(← Py.RateArg.asPair %s)' % code
        return super().need(code, t, want)

    def static_test(self, node):
        if isinstance(node, ast.Call) and isinstance(node.func, ast.Name) and node.func.id == 'isinstance' and len(node.args) == 2 \
                and not node.keywords and isinstance(node.args[0], ast.Name) and isinstance(node.args[1], ast.Name) \
                and node.args[1].id == 'tuple' and self.var(node.args[0].id)[1] == RATEARG:
            return None                                     # a dynamic test on a RateArg (rule "RateArg")
        return super().static_test(node)

    def ex(self, node, expect=None):
        if isinstance(node, ast.BinOp) and isinstance(node.op, (ast.Mult, ast.Div)):
            a, ta = self.ex(node.left, RAT)
            b, tb = self.ex(node.right, RAT)
            if ta != RAT or tb != RAT:
                raise Shape('%s: %s on %s and %s' % (self.name, type(node.op).__name__, ty(ta), ty(tb)))
            if isinstance(node.op, ast.Mult):
                return '(%s * %s)' % (a, b), RAT
            return '(← Py.div %s %s)' % (a, b), RAT         # ZeroDivisionError
        if isinstance(node, ast.Compare) and len(node.ops) == 2:
            if not all(isinstance(op, ast.LtE) for op in node.ops):
                raise Shape('%s: chained comparison: %s' % (self.name, ast.unparse(node)))
            (a, ta), (m, tm), (c, tc) = self.ex(node.left), self.ex(node.comparators[0]), self.ex(node.comparators[1])
            if (ta, tm, tc) != (NAT, NAT, NAT) or '←' in a or '←' in c:
                raise Shape('%s: chained comparison: %s' % (self.name, ast.unparse(node)))
            return '((fun (m : Nat) => (decide (%s ≤ m) && decide (m ≤ %s))) %s)' % (a, c, m), BOOL
        if isinstance(node, ast.Call) and isinstance(node.func, ast.Name) and not node.keywords and node.func.id not in self.specs:
            f, args = node.func.id, node.args
            if f in ('float', 'int') and len(args) == 1:
                a, ta = self.ex(args[0], RAT)
                if ta != RAT:
                    raise Shape('%s: %s() of a %s' % (self.name, f, ty(ta)))
                return '(← Py.%s %s)' % ('toFloat' if f == 'float' else 'toInt', a), RAT
            if f == 'len' and len(args) == 1 and isinstance(args[0], ast.Name) and self.var(args[0].id)[1] == RATEARG:
                return '(← Py.RateArg.len %s)' % self.var(args[0].id)[0], NAT
            if f == 'isinstance' and len(args) == 2 and isinstance(args[0], ast.Name) and isinstance(args[1], ast.Name) \
                    and args[1].id == 'tuple' and self.var(args[0].id)[1] == RATEARG:
                return '(Py.RateArg.isTuple %s)' % self.var(args[0].id)[0], BOOL
        if isinstance(node, ast.Call) and isinstance(node.func, ast.Attribute) and node.func.attr == 'split' and len(node.args) == 1 \
                and not node.keywords and isinstance(node.args[0], ast.Constant) and isinstance(node.args[0].value, str) \
                and len(node.args[0].value) == 1 and isinstance(node.func.value, (ast.Name, ast.Attribute)):
            a, ta = self.ex(node.func.value)
            sep = self.lit(node.args[0], CHAR)[0]
            if ta == STR:
                return '(Py.strSplit %s %s)' % (a, sep), L(STR)
            if ta == O(STR):
                return '(Py.strSplit (← Py.unwrapAttr %s) %s)' % (a, sep), L(STR)     # None.split: AttributeError
        if isinstance(node, ast.Subscript) and isinstance(node.slice, ast.Constant) and isinstance(node.slice.value, int) \
                and not isinstance(node.slice.value, bool) and isinstance(node.value, (ast.Name, ast.Attribute)):
            a, ta = self.ex(node.value)
            if ta == RATEARG:
                if node.slice.value != 0:
                    raise Shape('%s: item %d of a RateArg' % (self.name, node.slice.value))
                return '(← Py.RateArg.item0 %s)' % a, RAT
            if isinstance(ta, tuple) and ta[0] == 'Option' and is_t3(ta[1]):
                a, ta = '(← Py.unwrap %s)' % a, ta[1]                              # None[i]: TypeError
            if is_t3(ta):
                if node.slice.value not in (0, 1, 2):
                    raise Shape('%s: item %d of a 3-tuple' % (self.name, node.slice.value))
                return a + ('.1', '.2.1', '.2.2')[node.slice.value], (ta[1], ta[2][1], ta[2][2])[node.slice.value]
        if isinstance(node, ast.Tuple) and len(node.elts) == 3:
            want = expect if is_t3(expect) else (expect[1] if expect and expect[0] == 'Option' and is_t3(expect[1]) else None)
            ws = (want[1], want[2][1], want[2][2]) if want else (None, None, None)
            parts = [self.ex(e, w) for e, w in zip(node.elts, ws)]
            parts = [(self.need(c, t, w), w) if w is not None else (c, t) for (c, t), w in zip(parts, ws)]
            return '(%s, %s, %s)' % tuple(c for c, _ in parts), T3(*[t for _, t in parts])
        if isinstance(node, ast.Tuple) and len(node.elts) == 2 and expect and expect[0] == 'Prod' and not is_t3(expect):
            (a, ta), (b, tb) = self.ex(node.elts[0], expect[1]), self.ex(node.elts[1], expect[2])
            return '(%s, %s)' % (self.need(a, ta, expect[1]), self.need(b, tb, expect[2])), expect
        if isinstance(node, ast.IfExp) and expect is not None:
            (a, ta), (b, tb) = self.ex(node.body, expect), self.ex(node.orelse, expect)
            if RATEARG in (ta, tb):
                c = self.truthy(node.test)
                return '(← (if %s then %s else %s))' % (c, monadic(self.need(a, ta, expect)), monadic(self.need(b, tb, expect))), expect
        return super().ex(node, expect)

    def iter_ex(self, node):
        if isinstance(node, ast.Call) and isinstance(node.func, ast.Name) and node.func.id == 'zip' and len(node.args) == 2 \
                and not node.keywords:
            (a, ta), (b, tb) = self.ex(node.args[0]), self.ex(node.args[1])
            if not all(isinstance(t, tuple) and t[0] == 'List' for t in (ta, tb)) or '←' in a + b:
                raise Shape('%s: zip of a %s and a %s' % (self.name, ty(ta), ty(tb)))
            return '(List.zip %s %s)' % (a, b), L(P(ta[1], tb[1]))
        return super().iter_ex(node)

    def stmt(self, st, out, ind, inloop):
        tables = self.spec.get('table_stmts', {})
        if id(st) in tables:                                # the one statement `conc = {…}` that gen_units reads (checked)
            name, const = tables[id(st)]
            out.append(ind + '-- %s = {…}: the constant table `%s`, regenerated from this display (Gen/UnitTables.lean)' % (name, const))
            return
        if isinstance(st, ast.Assign) and len(st.targets) == 1 and isinstance(st.targets[0], ast.Tuple) \
                and all(isinstance(e, ast.Name) for e in st.targets[0].elts) and not isinstance(st.value, ast.Tuple):
            tg = st.targets[0]
            names = [e.id for e in tg.elts]
            if len(set(names)) != len(names) or any(n in self.loopvars or n not in self.locals for n in names):
                raise Shape('%s: unpacking into %s' % (self.name, names))
            if len(names) == 2:
                want = P(self.locals[names[0]], self.locals[names[1]])
                c, tc = self.ex(st.value, want)
                c = self.need(c, tc, want)
                self.ntmp = getattr(self, 'ntmp', 0) + 1
                out.append(ind + 'let t%d := %s      -- %s = …' % (self.ntmp, c, ast.unparse(tg)))
                self.destructure(tg, 't%d' % self.ntmp, want, out, ind)
                return
            if len(names) == 3:
                want = T3(*[self.locals[n] for n in names])
                c, tc = self.ex(st.value, want)
                if tc == O(want):
                    c, tc = '(← Py.unwrap %s)' % c, want                 # unpacking None: TypeError
                if tc != want:
                    raise Shape('%s: unpacking a %s into %s' % (self.name, ty(tc), names))
                self.ntmp = getattr(self, 'ntmp', 0) + 1
                out.append(ind + 'let t%d := %s      -- %s = …' % (self.ntmp, c, ast.unparse(tg)))
                for n, proj in zip(names, ('.1', '.2.1', '.2.2')):
                    out.append(ind + self.set_local(n, 't%d%s' % (self.ntmp, proj)))
                return
        return super().stmt(st, out, ind, inloop)

    def try_(self, st, out, ind, inloop):
        if st.orelse or st.finalbody or len(st.handlers) != 1:
            raise Shape('%s: try shape' % self.name)
        h = st.handlers[0]
        if not (isinstance(h.type, ast.Name) and h.type.id == 'OverflowError'):
            return super().try_(st, out, ind, inloop)
        if h.name is not None and any(isinstance(n, ast.Name) and n.id == h.name for s in h.body for n in ast.walk(s)):
            raise Shape('%s: the handler uses the exception object' % self.name)
        if inloop or self.loop_stack:
            raise Shape('%s: try inside a loop' % self.name)
        for s in st.body:
            for n in ast.walk(s):
                if isinstance(n, ast.Name) and isinstance(n.ctx, (ast.Store, ast.Del)):
                    raise Shape('%s: the try body assigns the local %s' % (self.name, n.id))
        out.append(ind + 'try')
        self.block(st.body, out, ind + '  ', False)
        out.append(ind + 'catch e =>')
        out.append(ind + '  match e with')
        out.append(ind + '  | .fault "OverflowError" =>')
        self.block(h.body, out, ind + '    ', False)
        out.append(ind + '  | e => throw e')


def returns(blk):
    """every path through the block ends in `return <value>` or `raise` (pyfunc.py's check, extended by `try`)"""
    if not blk:
        return False
    last = blk[-1]
    if isinstance(last, ast.Return):
        return last.value is not None
    if isinstance(last, ast.Raise):
        return True
    if isinstance(last, ast.If):
        return returns(last.body) and returns(last.orelse)
    if isinstance(last, ast.Try) and not last.orelse and not last.finalbody:
        return returns(last.body) and all(returns(h.body) for h in last.handlers)
    return False


class UnitsFuncTx(UnitsRules, FuncTx):
    """`flint`, `convert_units`: plain functions (no nested defs, generators, recursion, typed instances)"""

    def __init__(self, spec, fn, specs=None):
        super().__init__(spec, fn, specs=specs)
        self.exc = EXC_UNITS
        if self.generator is not None or self.recursive or self.nested_specs or self.fixed:
            raise Shape('%s: only plain functions' % self.name)

    def run(self):
        body, out = list(self.fn.body), []
        if any(isinstance(n, (ast.FunctionDef, ast.Lambda, ast.ClassDef, ast.Yield, ast.YieldFrom)) for n in ast.walk(ast.Module(body=body, type_ignores=[]))):
            raise Shape('%s: nested def / lambda / yield' % self.name)
        if not returns(body):
            raise Shape('%s: the function can fall off its end (it would return None)' % self.name)
        self.stmts(body, out, self.ind0, False)
        for f in self.flags:
            self.locals[f] = BOOL
        missing = self.assume - set(self.assumed_found)
        if missing:
            raise Shape('%s: assertion(s) no longer present: %s' % (self.name, sorted(missing)))
        fields = '\n'.join('  %s : %s := default' % (ident(n), ty(t)) for n, t in self.locals.items())
        text = ['/-- local variables of `%s` -/' % self.name, 'structure %s.Vars where\n%s' % (self.name, fields), '']
        text += [l + '\n' for l in self.loops]
        sig = ' '.join('(%s : %s)' % (ident(p), ty(self.params[p])) for p in self.param_order)
        init = ', '.join('%s := %s' % (ident(p), ident(p)) for p in self.rebound)
        text.append('/-- `%s` (%s), statement by statement -/' % (self.name, self.spec['path']))
        text.append('def py_%s %s : %s (%s) := do' % (self.name, sig, self.M, ty(self.spec['ret'])))
        text.append(self.ind0 + 'let mut v : %s.Vars := { %s }' % (self.name, init))
        return '\n'.join(text + out) + '\n'


class UnitsMethodTx(UnitsRules, MethodTx):
    """the methods of `ReactionS` / `ComplexS`: `self` as the record `<Rec>.Self`, the monad `<Rec>.M`"""

    def __init__(self, spec, fn, specs, attrs, rec):
        super().__init__(spec, fn, specs, {})
        self.attrs = dict(attrs)
        self.exc = EXC_UNITS
        self.M = rec + '.M'

    def method_call(self, name, args, keywords, as_value=True):
        raise Shape('%s: self.%s is not a declared attribute (calls of other methods are not translated here)' % (self.name, name))


# ---- checks on the source ----------------------------------------------------------------------------------------------------
def local_tables(fn, tables):
    """the function-local constant dict displays (rule "local constant tables"): name -> (the assignment statement, Lean constant)"""
    found = {}
    for n in ast.walk(fn):
        if n is not fn and isinstance(n, (ast.FunctionDef, ast.Lambda, ast.ClassDef, ast.Global, ast.Nonlocal)):
            raise Shape('%s: nested def / lambda / global declaration next to local constant tables' % fn.name)
    for name, const in tables.items():
        # what gen_units reads: the top-level statements `name = {…}` of the body (one target, a dict display)
        asg = [st for st in fn.body if isinstance(st, ast.Assign) and len(st.targets) == 1 and isinstance(st.targets[0], ast.Name)
               and st.targets[0].id == name and isinstance(st.value, ast.Dict)]
        binds = [n for n in ast.walk(fn) if isinstance(n, ast.Name) and n.id == name and not isinstance(n.ctx, ast.Load)]
        if len(asg) != 1 or len(binds) != 1 or binds[0] is not asg[0].targets[0]:
            raise Shape('%s: the table %s is not bound exactly once, by a top-level `%s = {…}`' % (fn.name, name, name))
        if any(a.arg == name for a in ast.walk(fn) if isinstance(a, ast.arg)):
            raise Shape('%s: the table name %s is a parameter' % (fn.name, name))
        d = asg[0].value
        if not all(isinstance(k, ast.Constant) and isinstance(k.value, str) for k in d.keys) or len({k.value for k in d.keys}) != len(d.keys):
            raise Shape('%s: the table %s has repeated or non-str keys' % (fn.name, name))
        for x in d.values:
            if not (isinstance(x, ast.Constant) and isinstance(x.value, (int, float)) and not isinstance(x.value, bool) and x.value > 0):
                raise Shape('%s: the table %s has a value that is not a positive number literal: %s' % (fn.name, name, ast.unparse(x)))
        ok = set()
        for n in ast.walk(fn):
            if isinstance(n, ast.Subscript) and isinstance(n.ctx, ast.Load) and not isinstance(n.slice, ast.Slice):
                ok.add(id(n.value))
            if isinstance(n, ast.Compare) and len(n.ops) == 1 and isinstance(n.ops[0], (ast.In, ast.NotIn)):
                ok.add(id(n.comparators[0]))
        for n in ast.walk(fn):
            if isinstance(n, ast.Name) and n.id == name and isinstance(n.ctx, ast.Load) and id(n) not in ok:
                raise Shape('%s: the table %s is used other than as `k in %s` / `%s[k]`' % (fn.name, name, name, name))
        found[name] = (asg[0], const)
    return found


def attr_stores(cls, attrs, allowed):
    """the only assignments to the record's attributes in the class body are in `__init__` and in the translated setters"""
    for m in cls.body:
        if isinstance(m, ast.FunctionDef):
            for n in ast.walk(m):
                if isinstance(n, ast.Attribute) and n.attr in attrs and not isinstance(n.ctx, ast.Load) and id(m) not in allowed:
                    raise Shape('%s.%s assigns %s outside __init__ and the translated setters' % (cls.name, m.name, n.attr))
        elif any(isinstance(n, ast.Name) and n.id in attrs and isinstance(n.ctx, ast.Store) for n in ast.walk(m)):
            raise Shape('%s: %s bound in the class body' % (cls.name, sorted(attrs)))


def init_values(cls, attrs):
    """`__init__`: attribute -> the value of its one top-level assignment"""
    init = [n for n in cls.body if isinstance(n, ast.FunctionDef) and n.name == '__init__']
    if len(init) != 1:
        raise Shape('%s.__init__ not found exactly once' % cls.name)
    init = init[0]
    vals = {}
    for a in attrs:
        stores = [n for n in ast.walk(init) if isinstance(n, ast.Attribute) and n.attr == a and not isinstance(n.ctx, ast.Load)]
        top = [st for st in init.body if isinstance(st, ast.Assign) and len(st.targets) == 1 and isinstance(st.targets[0], ast.Attribute)
               and is_self(st.targets[0].value) and st.targets[0].attr == a]
        if len(stores) != 1 or len(top) != 1 or stores[0] is not top[0].targets[0]:
            raise Shape('%s.__init__: self.%s is not assigned exactly once at the top level' % (cls.name, a))
        vals[a] = top[0].value
    return init, vals


def is_none(v):
    return isinstance(v, ast.Constant) and v.value is None


def gen_reaction_init(cls):
    init, vals = init_values(cls, [a for a, _ in R_ATTRS])
    pnames = [a.arg for a in init.args.args]
    for a, p in (('_reactants', 'reactants'), ('_products', 'products')):
        v = vals[a]
        ok = isinstance(v, ast.Call) and isinstance(v.func, ast.Name) and v.func.id == 'sorted' and len(v.args) == 1 \
            and isinstance(v.args[0], ast.Name) and v.args[0].id == p and p in pnames \
            and [k.arg for k in v.keywords] == ['key'] and isinstance(v.keywords[0].value, ast.Lambda)
        if not ok:
            raise Shape('%s.__init__: self.%s = %s (expected sorted(%s, key=lambda …))' % (cls.name, a, ast.unparse(v)[:50], p))
        if any(isinstance(n, ast.Name) and n.id == p and isinstance(n.ctx, ast.Store) for n in ast.walk(init)):
            raise Shape('%s.__init__ rebinds %s' % (cls.name, p))
    for a in ('_const', '_units'):
        if not is_none(vals[a]):
            raise Shape('%s.__init__: self.%s = %s (expected None)' % (cls.name, a, ast.unparse(vals[a])))
    return init, ('/-- the translated attributes of a new `ReactionS` as `__init__` assigns them (reactants / products as opaque objects) -/\n'
                  'def py_ReactionS_init (reactants products : List Unit) : ReactionS.Self :=\n'
                  '  { _reactants := reactants, _products := products, _const := none, _units := none }\n')


def gen_complex_init(cls):
    init, vals = init_values(cls, ['_concentration'])
    if not is_none(vals['_concentration']):
        raise Shape('%s.__init__: self._concentration = %s (expected None)' % (cls.name, ast.unparse(vals['_concentration'])))
    return init, ('/-- the translated attribute of a new `ComplexS` as `__init__` assigns it -/\n'
                  'def py_ComplexSConc_init : ComplexSConc.Self :=\n  { _concentration := none }\n')


def stub(kind, name, sig, rt, why, path):
    return ('/-- `%s` (%s) could NOT be translated: %s -/\n' % (name, path, why.replace('-/', '- /')) +
            'def py_%s %s : %s %s := throw (Err.fault "untranslated")\n' % (name, sig, kind, rt))


def nstmts(fn):
    return sum(1 for _ in ast.walk(fn) if isinstance(_, ast.stmt)) - 1


def gen_pyunits(repo):
    out = ['/- GENERATED by translator/pyunits.py from the Python source — do not edit. -/',
           'import DsdVerif.Model.PyPreludeUnits', 'import DsdVerif.Gen.UnitTables', '', 'set_option linter.unusedVariables false', '',
           'namespace Dsd.Gen', 'open Dsd', '']
    summary, untranslated, done = {}, {}, {}
    # ---- dsdobjects/utils.py
    tree = ast.parse(open(os.path.join(repo, UTILS)).read())
    builtins_unshadowed(tree, BUILTIN_NAMES)
    for spec in (FLINT, CONVERT):
        fn = find_function(tree, spec['name'])
        sig = ' '.join('(%s : %s)' % (ident(q), ty(t)) for q, t in spec['params'])
        try:
            check_signature(fn, spec)
            s = dict(spec, _fn=fn)
            callees = {}
            for c in spec.get('callees', ()):
                if c not in done:
                    raise Shape('%s: the callee %s is not translated' % (spec['name'], c))
                find_function(tree, c)
                callees[c] = done[c]
            if spec.get('tables'):
                tabs = local_tables(fn, spec['tables'])
                s['globals'] = {n: ('(Py.unitTable %s)' % const, D(STR, RAT)) for n, (_, const) in tabs.items()}
                s['table_stmts'] = {id(st): (n, const) for n, (st, const) in tabs.items()}
            definite_assignment(fn, [q for q, _ in spec['params']] + sorted(BUILTIN_NAMES) + list(callees), spec['name'])
            tx = UnitsFuncTx(s, fn, specs=callees)
            text = tx.run()
            done[spec['name']] = s
        except Shape as e:
            untranslated[spec['name']] = str(e)
            text = stub('Py.M', spec['name'], sig, '(%s)' % ty(spec['ret']), str(e), spec['path'])
            done[spec['name']] = dict(spec, _fn=fn)           # later definitions call the stub
            tx = None
        out.append(text)
        summary[spec['name']] = {'statements': nstmts(fn), 'loops': tx.nloops if tx else 0, 'source_lines': fn.end_lineno - fn.lineno + 1}
    # ---- dsdobjects/base_classes.py
    tree = ast.parse(open(os.path.join(repo, BASE)).read())
    builtins_unshadowed(tree, BUILTIN_NAMES)
    for f in ('flint', 'convert_units'):
        if not imported_from(tree, f, 'utils'):
            raise Shape('%s is not imported from .utils exactly once in base_classes.py' % f)
    if sum(1 for n in ast.walk(tree) if isinstance(n, ast.ClassDef) and n.name == 'ObjectInitError') != 1 \
            or not any(isinstance(n, ast.ClassDef) and n.name == 'ObjectInitError' for n in tree.body):
        raise Shape('ObjectInitError is not a class defined once in base_classes.py')
    for clsname, rec, attrs, methods, gen_init in (('ReactionS', 'ReactionS', R_ATTRS, R_METHODS, gen_reaction_init),
                                                   ('ComplexS', 'ComplexSConc', C_ATTRS, C_METHODS, gen_complex_init)):
        cls = find_class(tree, clsname)
        out.append('/-- the part of a `%s` object that the translated methods read or write -/' % clsname)
        out.append('structure %s.Self where\n' % rec + '\n'.join('  %s : %s' % (a, ty(t)) for a, t in attrs) + '\nderiving Repr, DecidableEq\n')
        out.append('abbrev %s.M := Py.MS %s.Self\n' % (rec, rec))
        init, text = gen_init(cls)
        out.append(text)
        fns = {(m['method'], m['kind']): find_method(cls, m['method'], m['kind']) for m in methods}
        attr_stores(cls, {a for a, _ in attrs}, {id(init)} | {id(f) for (_, k), f in fns.items() if k == 'setter'})
        for spec in methods:
            fn = fns[(spec['method'], spec['kind'])]
            full = '%s_%s' % (rec, spec['lean'])
            sig = ' '.join('(%s : %s)' % (ident(q), ty(t)) for q, t in spec['params'])
            rt = 'Unit' if spec['ret'] == 'Unit' else '(%s)' % ty(spec['ret'])
            tx = None
            try:
                fn2 = without_self(fn)
                s = dict(spec, name=full, lean=full, lean_full=full, path=BASE, _fn=fn2)
                check_signature(fn2, s)
                callees = {}
                for c in spec.get('callees', ()):
                    callees[c] = done[c]
                definite_assignment(fn2, [q for q, _ in spec['params']] + ['self', 'ObjectInitError'] + sorted(BUILTIN_NAMES) + list(callees), full)
                tx = UnitsMethodTx(s, fn2, callees, attrs, rec)
                text = tx.run()
            except Shape as e:
                untranslated[full] = str(e)
                text = stub(rec + '.M', full, sig, rt, str(e), BASE)
            out.append(text)
            summary[full] = {'statements': nstmts(fn), 'loops': tx.nloops if tx else 0, 'source_lines': fn.end_lineno - fn.lineno + 1}
    out.append('end Dsd.Gen')
    if untranslated:
        summary['untranslated'] = untranslated
    return '\n'.join(out) + '\n', summary


if __name__ == '__main__':
    text, summ = gen_pyunits(sys.argv[1])
    sys.stdout.write(text)
    sys.stderr.write(repr(summ) + '\n')
