#!/usr/bin/env python3
"""Statement-level translation of small imperative Python functions into Lean 4 (`Gen/PyFuncs.lean`, `Gen/PyIupac.lean`).

    python3 translator/pyfunc.py <repo>        > lean/DsdVerif/Gen/PyFuncs.lean      (dsdobjects/complex_utils.py, `gen_pyfuncs`)
    python3 translator/pyfunc.py <repo> iupac  > lean/DsdVerif/Gen/PyIupac.lean      (dsdobjects/iupac_utils.py, `gen_pyiupac`)

The loop algorithms of dsdobjects/complex_utils.py are transcribed STATEMENT BY STATEMENT from the source text of the
working tree.  Nothing about what the functions are supposed to compute is known here; if a statement does not have one of
the shapes below, `Shape` is raised and the tie is reported as broken (never skipped silently).

Reading of Python that this translator (together with Model/PyPrelude.lean) implements - the trusted part:

  values      immutable Lean values; `list` -> `List`, `None`-able -> `Option`, 2-tuples -> `×`, non-negative `int` -> `Nat`
              (subtraction is refused on `Nat`), one-character `str` -> `Char`, `str` iterated as characters -> `List Char`,
              a `set` of ints -> the list of its elements in insertion order (`in`, `add` only)
  typing      every parameter and local has a declared Lean type (FUNCS below = a typing stub); Lean's elaborator checks it
  locals      one structure `<f>.Vars`, a field per local; reads are `v.x`, writes are structure updates; a local that is read
              before it is written would be an UnboundLocalError in Python and is the field's `default` here (never happens in
              accepted shapes: checked by the definite-assignment pass)
  for         `for x in e: body` -> `List.foldlM (<f>.loopK … ) v e` with the body as a separate step function
              `Vars -> x -> Except Err Vars`; `continue` -> `return v`; no `break`, no `return` inside loops, no `else:`;
              the iterated value may not be assigned in the body (the fold reads it once, like Python's iterator over an
              unmodified list)
  exceptions  `raise E(...)` -> `throw <Err for E>` (messages dropped); `assert c` -> `throw Err.assertion` unless `c`;
              `l[i]`, `l[-1]`, `l.pop()`, `l[i] = x`, `l.index(x)` raise IndexError / ValueError as in Python (Py.idx …);
              using a `None`-able value where a tuple is needed raises TypeError (Py.unwrap)
  try         `try: S1 … Sn except IndexError: H`: the body runs on a snapshot; this equals Python's semantics because the
              translator checks that every variable assigned by S1 … S(n-1) is local to the try body (all its reads are in the
              body, after the assignment) and that Sn is the only other assignment
  mutation    a list may be mutated in place only while it is *fresh* (created in this activation and not yet stored in
              another list); parameters are never mutated.  `x = []; c.append(x)` (adjacent) makes `x` an alias of `c[-1]`
              for declared alias pairs: later `x.append(e)` is `Py.appendLast c e`; `c` may change its length only there.
  evaluation  left to right; fallible sub-expressions are lifted with `(← …)` to the statement, so they may not occur under
              `and` / `or` (refused); `elif` is emitted as a nested block

Rules added for `split_complex_pt` / `rotate_complex_pt` (each as narrow as these two functions need):

  a - b       on non-negative ints is the CHECKED subtraction `(← Py.sub a b)`: the difference when `b ≤ a`, otherwise the
              explicit translator fault `Err.fault "translator:negative"` (Python would continue with a negative int, which
              the `Nat` typing cannot represent) - never a silent truncation
  a if c else b   `(if c then a else b)` when both branches are infallible, otherwise `(← (if c then A else B))` where each
              branch is its own `do` block, so that only the chosen branch is evaluated (and can raise), as in Python; a branch
              of type `T` is coerced to `Option T` when the other branch is `None`-able
  list(map(lambda x: e, l)), [e for x in l]
              `List.map (fun x => e) l`, or `(← List.mapM (fun x => do …) l)` when `e` is fallible (elements in order, the
              first exception aborts, as `list(map(…))` and a comprehension do); one lambda parameter / one `for` clause
              without `if`; `x` gets the element type of `l`; `map` is accepted only directly under `list(…)`
  dict        a `dict` with int (or `None`) keys is the association list of its items in insertion order with pairwise
              different keys: `{k: v}` (constant keys), `k in d` -> `Py.dictHas d k`, `d[k]` -> `(← Py.dictGet d k)`
              (KeyError), `d[k] = v` -> `Py.dictSet d k v` (replaces the value of an existing key, else appends an item)
  unpacking   `a, b = e` and nested targets `(a, b), (c, d) = e` for a value typed as (nested) 2-tuples: `e` is evaluated
              once, then the names are assigned left to right; a loop target `j, (fr, to)` whose second component is a
              *list* is unpacked with `Py.unpack2` (ValueError unless the list has exactly two elements) at the start of
              each iteration
  break       every loop that contains a `break` of its own gets a Boolean field `brk<k>` in `Vars`: it is set to `false`
              before the fold, `break` is `v := { v with brk<k> := true }; return v`, and the step function starts with
              `if v.brk<k> then return v` - the remaining iterations are no-ops that do not even unpack their element, which
              is what leaving the loop means for a loop over an already evaluated list.  (`break` inside `try` is refused.)
  return in a loop   only the bare `return` of a generator: a field `returned`, set by the `return`, tested at the start of the
              step function of every enclosing loop and after each of these folds (there `return v` inside a step function,
              `return v.yielded` in the function body)
  generators  a function with `generator=T` in its stub is translated to the LIST of the values it yields (what
              `list(f(…))` is): a field `yielded : List T`, `yield e` appends `e`, `return` / falling off the end returns
              `v.yielded`.  An exception raised after some values were yielded makes the whole result that exception.
              Generator objects are only accepted where they are consumed at once: `for x in f(…)`, `for x in chain(f(…), g(…))`
              (`chain` must be `itertools.chain`; the lists are concatenated, the first generator's exception comes first)
  recursion   a function with `recursive=True` calls itself through a parameter: the definition is by structural recursion on
              an extra first argument `fuel`; with no fuel left the call is `Err.fault "RecursionError"`; step functions get
              the function for the recursive calls as their first parameter `recur`
  calls       `g(args)` of a function translated before (`callees`): positional / keyword arguments matched with the
              parameters of its stub, all of them supplied.  `make_loop_index` returns both of its result shapes together
              (see its stub); the caller's literal `components=True/False` picks the pair the Python caller receives.
  nested def  `def h(p…)` as a statement of the function body itself (not under `if` / `for`), translated like a function of
              its own named `<f>.<h>` whose parameters are the enclosing function's parameters followed by its own.  A call
              `h(a, b)` is `(← <f>.<h> params… a b)` where `params…` are the CURRENT values of the enclosing parameters at the
              call (`v.p` when the enclosing function rebinds `p`): a closure reads the variable when it runs, and it runs
              inside that call, because `h` may only be called, never stored or returned (checked).  `h` may not assign the
              captured names, may not touch the enclosing function's locals, may not be used before its `def` (definite
              assignment), and may not recurse.
  a % b       on non-negative ints `(← Py.mod a b)`: ZeroDivisionError for `b = 0`
  l[:-1]      `List.dropLast l` (all but the last element; `[]` for `[]`)
  None-able int   a value typed `Option Nat` (`turns`): `x == n` / `x != n` against an int compares `x` with `some n`
              (`None == 3` is False); `x > n`, `x - n` need the int: `(← Py.unwrap x)`, TypeError for `None` as in Python 3

Rules added for the rest of complex_utils.py (`make_strand_table`, `strand_table_to_sequence`, `split_complex_db`,
`rotate_complex_db`) and for the sequence-level functions of iupac_utils.py (`gen_pyiupac`, Gen/PyIupac.lean):

  str         three readings of a Python `str`, chosen by the typing stub: `Char` (a one-character str), `String` (an opaque
              name: only compared, stored, measured with `len`) and `Text` (`List Char` in Lean: the list of its characters;
              iterating it, `list(s)`, `reversed(s)`, `zip` give its one-character strs, `len(s)` its length).  Where a `Text`
              is needed a `Char` c is `[c]` and a `String` s is `s.toList`; nothing else is coerced.
  typed instances   a function whose behaviour depends on the TYPE of an argument is translated once per typing
              (`inst='make_strand_table_list'` …: own Lean names `py_<inst>`, `<inst>.Vars`).  An instance may FIX a Boolean
              parameter to a literal (`fixed={'join': False}`): the parameter disappears from the Lean signature, a read of
              it is the literal, and a call of the instance must pass that very value statically (a literal, the caller's
              own parameter fixed to the same value, or the equal constant default) - otherwise `Shape`.
  if <static>  `if isinstance(x, list):` and `if p:` / `if not p:` for a fixed parameter `p` are decided by the typing of the
              instance: only the branch that runs is translated, the other one is mentioned in a comment and not translated
              (it need not be typable).  `isinstance(x, list)` is False for `Text` / `String` / `Char`, True for a `List …`
              only if the stub lists `x` in `pylists` (older stubs use `List Char` for a str too); anything else is `Shape`.
  defaults    a call may omit a parameter of a translated callee: the value is the default written in the callee's `def`,
              if that is a constant (str / int / bool / None, typed by the parameter), or `set('<one character>')` for a
              parameter typed as a set of characters which the callee never rebinds (it is never mutated: parameters are
              not).  Defaults are evaluated once at definition time; for these immutable uses that is the same value.
  fuel        a function that calls a fuel-bounded (recursive) translation takes `fuel` as its own first argument
              (`fuel=True`) and passes it on unchanged; only calls written in the function body itself (not in a loop body).
  for over a generator, fallible body   `for x in g(…): body` reads the translated generator as the list `list(g(…))` (rule
              "generators").  This is exact whenever `g` does not raise after its first `yield`, or the body raises on none
              of the values yielded before; otherwise BOTH readings end in an exception, but CPython reports the body's (it
              runs between the yields) and the translation the generator's.  `split_complex_db` / `rotate_complex_db` are the
              only users (Props/PyFuncs `py_rotate_complex_db_no_strand` shows the one reachable case).
  comprehensions   `[e for T in it if c …]` and the generator expression `(e for T in it)` directly under `all(…)` or
              `sep.join(…)` (consumed at once): one `for` clause; `T` a name or a pair of names (`let a := c.1; let b := c.2`
              over a list of pairs); infallible conditions -> `List.filter`; element -> `List.map`, or `List.mapM` when it
              can raise (elements in order, first exception aborts).  `it` is a list, a `Text`, `zip(a, b)` or `groupby`.
  zip(a, b)   only as the iterable of a comprehension: `List.zip a b` (as long as the shorter argument)
  groupby(l, key=lambda x: k)   `itertools.groupby` (import checked), only as the iterable of a comprehension with target
              `k, g` whose group `g` is used as `list(g)` in the element only (a group dies when the next one is requested):
              `Py.groupby (fun x => k) l : List (κ × List α)` - maximal runs of CONSECUTIVE elements whose key equals the
              key of the first element of the run.  Keys: Bool / int / str (compared with `==`).
  reduce(lambda a, b: e, l)   `functools.reduce` (import checked) without initial value and with an infallible `e`:
              `(← Py.reduce (fun a b => e) l)`, TypeError for an empty list
  all(c for …)   `List.all` of the list of the (infallible) condition values
  s.split(sep)   `Text` `s`, `Char` `sep`: `Py.split s sep : List Text` (empty pieces kept, never the empty list)
  sep.join(X)    `sep` a str literal or `f'{x}'`; `X` a list / generator expression of `Text`, `Char` or `String` items:
              `Py.strJoin sep parts : Text` with the items coerced to `Text` as above
  f'{x}'      exactly one replacement field without conversion or format spec, `x` a str: `format(x, '')`, which is `x`
  a & b       on non-negative ints: `a &&& b`
  len(s)      of a `Text` / `String`: its number of characters
  module-level tables   a global name listed in the stub's `globals` is read as the Lean constant of the same name that
              translator/gen.py regenerates from the same source file (Gen/IupacTables.lean).  Checked here: the module binds
              the name exactly once, by a dict display with pairwise different constant keys (so that first-match look-up
              in the item list IS `d[k]`) or a list display of constants, and every other occurrence is `name[…]` read
              (no rebinding, `global`, mutation, aliasing).  `d[k]` -> `(← Py.dictGet d k)` (KeyError), `l[i]` -> `Py.idx`.
  raise       the exception classes of the stub's `exc` table, which must be classes defined in the module;
              `ConstraintError` -> `Err.fault "ConstraintError"` (`Err` has no constructor of its own for it)
  built-ins   `isinstance list zip all len reversed set` must not be bound anywhere in the module (checked for the new stubs)
  falling off the end   every path of a function that is not a generator must end in `return <value>` or `raise` (it would
              return None otherwise, which no result type here can hold): `Shape`
"""
import ast, os, sys

class Shape(Exception):
    pass

NAT, CHAR, STR, BOOL = 'Nat', 'Char', 'String', 'Bool'
INT = 'Int'                         # a Python int that may be negative (method translations: `turns`)
TEXT = 'Text'                       # a Python `str` kept as the list of its characters (Lean `List Char`)
def L(t): return ('List', t)
def O(t): return ('Option', t)
def P(a, b): return ('Prod', a, b)
def D(k, v): return ('Dict', k, v)
LOC = P(NAT, NAT)
PTAB = L(L(O(LOC)))                 # pair table
STAB = L(L(STR))                    # strand table (domain names)
PART = P(STAB, PTAB)

def ty(t, top=True):
    if t == TEXT:
        return 'List Char' if top else '(List Char)'
    if isinstance(t, str):
        return t
    if t[0] == 'List':
        s = 'List ' + ty(t[1], False)
    elif t[0] == 'Option':
        s = 'Option ' + ty(t[1], False)
    elif t[0] == 'Dict':
        s = 'List ' + ty(P(t[1], t[2]), False)
    else:
        s = ty(t[1], False) + ' × ' + ty(t[2], False)
    return s if top else '(' + s + ')'

KEYWORDS = {'at', 'from', 'end', 'open', 'in', 'fun', 'do', 'then', 'else', 'if', 'let', 'have', 'show', 'by', 'where', 'with',
            'match', 'to', 'for', 'local', 'section', 'namespace', 'def', 'theorem', 'instance', 'class', 'structure', 'mut'}
def ident(n):
    return '«%s»' % n if n in KEYWORDS else n

EXC = {'SecondaryStructureError': 'Err.secondaryStructure'}


def own_nodes(fn):
    """the nodes of a function body without the bodies of nested function definitions"""
    todo = list(fn.body)
    while todo:
        n = todo.pop()
        yield n
        if not isinstance(n, ast.FunctionDef):
            todo.extend(ast.iter_child_nodes(n))


def own_breaks(loop):
    """the `break` statements that leave `loop` itself (not those of loops nested in it)"""
    found, todo = [], list(loop.body)
    while todo:
        n = todo.pop()
        if isinstance(n, ast.Break):
            found.append(n)
        elif isinstance(n, ast.Try) and any(isinstance(m, ast.Break) for m in ast.walk(n)):
            raise Shape('break inside try')
        elif not isinstance(n, (ast.For, ast.While, ast.FunctionDef)):
            todo.extend(ast.iter_child_nodes(n))
    return found


def strip_arrow(code):
    """`X` if code is `(← X)` with an infallible X, else None"""
    if code.startswith('(← ') and code.endswith(')') and '←' not in code[3:]:
        depth = 0
        for k, ch in enumerate(code):
            depth += ch == '('
            depth -= ch == ')'
            if depth == 0 and k < len(code) - 1:
                return None
        return code[3:-1]
    return None


def monadic(code):
    """an expression of type `Py.M T` for the translation `code : T` of an expression (which may contain lifted `(← …)`):
    its own `do` block, so that the lifts stay inside it"""
    x = strip_arrow(code)
    if x is not None:
        return '(%s)' % x
    if '←' not in code:
        return '(pure %s)' % code
    return '(do pure %s)' % code


def lean_name(spec):
    """`py_<this>` is the Lean definition: the function's name, or the name of the typed instance"""
    return spec.get('lean', spec.get('inst', spec['name']))


class FuncTx:
    M = 'Py.M'                                                  # the monad of the emitted definitions

    def __init__(self, spec, fn, parent=None, specs=None):
        self.spec, self.fn = spec, fn
        self.name = spec.get('inst', spec['name'])             # a typed instance has its own Lean names
        self.parent = parent
        self.specs = specs or {}                                # stubs of the functions translated before (callees)
        self.params = dict(spec['params'])
        self.fixed = dict(spec.get('fixed', {}))                # parameters fixed to a literal by this typed instance
        self.globals = dict(spec.get('globals', {}))            # module-level constant tables: name -> (Lean constant, type)
        self.exc = spec.get('exc', EXC)
        self.ncomp = 0
        self.param_order = [p for p, _ in spec['params'] if p not in self.fixed]
        if parent is not None:                                  # nested def: the enclosing parameters come first
            own = self.param_order
            cap = [q for q in parent.param_order if q not in own]
            for n in ast.walk(fn):                              # (an assignment would make the name a local of the nested def)
                if isinstance(n, ast.Name) and isinstance(n.ctx, (ast.Store, ast.Del)) and n.id in cap:
                    raise Shape('%s: assignment to the captured variable %s' % (self.name, n.id))
            self.params = dict([(q, parent.params[q]) for q in cap] + list(spec['params']))
            self.param_order = cap + own
        self.generator = spec.get('generator')                  # type of the yielded values
        self.recursive = bool(spec.get('recursive'))
        self.nested_specs = dict(spec.get('nested', {}))
        self.nested = {}                                        # name -> FuncTx of a nested def
        self.nested_text = []
        self.flags = []                                         # Boolean fields for break / return inside loops
        self.loop_stack = []                                    # (k, has_break) of the loops around the current statement
        self.ret_flag = False
        self.ind0 = '    ' if self.recursive else '  '
        self.locals = dict(spec['locals'])
        self.sets = set(spec.get('sets', ()))
        self.aliases = dict(spec.get('aliases', {}))          # X -> container Y
        self.assume = set(spec.get('assume_asserts', ()))
        self.ret_override = dict(spec.get('ret_override', {}))
        self.loopvars = {}                                      # name -> type (current nesting)
        self.loops = []                                         # emitted loop functions (text)
        self.nloops = 0
        self.assumed_found = []
        # parameters that the body rebinds become locals initialised from the parameter
        self.rebound = []
        for node in ast.walk(fn) if not self.nested_specs else sorted(own_nodes(fn), key=lambda n: (getattr(n, 'lineno', 0), getattr(n, 'col_offset', 0))):
            if isinstance(node, (ast.Assign, ast.AugAssign)):
                for t in (node.targets if isinstance(node, ast.Assign) else [node.target]):
                    for n in ast.walk(t):
                        if isinstance(n, ast.Name) and isinstance(n.ctx, ast.Store) and n.id in self.params and n.id not in self.rebound:
                            self.rebound.append(n.id)
        for p in self.rebound:
            if p in self.fixed:
                raise Shape('%s: the fixed parameter %s is assigned' % (self.name, p))
            self.locals[p] = self.params[p]
        for n in list(self.fixed) + list(self.globals):
            if n in self.locals or (n in self.globals and n in self.params):
                raise Shape('%s: %s is both a fixed parameter / module-level table and a variable' % (self.name, n))
        if self.generator is not None:
            if not any(isinstance(n, ast.Yield) for n in own_nodes(fn)):
                raise Shape('%s: no yield in a function declared as a generator' % self.name)
            if any(isinstance(n, ast.Return) and n.value is not None for n in own_nodes(fn)):
                raise Shape('%s: return with a value in a generator' % self.name)
            self.ret_flag = any(isinstance(n, ast.Return) for st in own_nodes(fn) if isinstance(st, ast.For) for n in ast.walk(st))
        elif any(isinstance(n, (ast.Yield, ast.YieldFrom)) for n in own_nodes(fn)):
            raise Shape('%s: yield in a function that is not declared as a generator' % self.name)
        if any(isinstance(n, ast.YieldFrom) for n in own_nodes(fn)):
            raise Shape('%s: yield from' % self.name)
        for n in ('yielded', 'returned', 'recur', 'fuel'):
            if n in self.params or n in self.locals:
                raise Shape('%s: the name %s is used by the translation' % (self.name, n))

    def recur_code(self):
        """the function for recursive calls: the parameter `recur` of a step function, the smaller instance in the body"""
        return 'recur' if self.loop_stack else '(py_%s fuel)' % lean_name(self.spec)

    # ---- names -------------------------------------------------------------------------------------------------
    def var(self, n):
        if n in self.loopvars:
            return ident(n), self.loopvars[n]
        if n in self.locals:
            return 'v.' + ident(n), self.locals[n]
        if n in self.fixed:                                     # a parameter fixed by the typed instance: its literal
            if not isinstance(self.fixed[n], bool):
                raise Shape('%s: fixed parameter %s: only True / False' % (self.name, n))
            return ('true' if self.fixed[n] else 'false'), BOOL
        if n in self.params:
            return ident(n), self.params[n]
        if n in self.globals:                                   # a module-level constant table (regenerated from the source)
            return self.globals[n]
        raise Shape('%s: name %r has no declared type' % (self.name, n))

    # ---- expressions -------------------------------------------------------------------------------------------
    def lit(self, node, expect):
        v = node.value
        if v is None:
            return 'none', expect if expect and expect[0] == 'Option' else ('Option', '?')
        if isinstance(v, bool):
            return ('true' if v else 'false'), BOOL
        if isinstance(v, int):
            if v < 0:
                raise Shape('negative literal')
            return str(v), NAT
        if isinstance(v, str):
            if expect == CHAR and len(v) == 1:
                return "'%s'" % ({"'": "\\'", '\\': '\\\\'}.get(v, v)), CHAR
            if expect == STR:
                return '"%s"' % v.replace('\\', '\\\\').replace('"', '\\"'), STR
            if expect == L(CHAR):
                return '[' + ', '.join("'%s'" % c for c in v) + ']', L(CHAR)
            if expect == TEXT:
                return '[' + ', '.join("'%s'" % ({"'": "\\'", '\\': '\\\\'}.get(c, c)) for c in v) + ']', TEXT
            raise Shape('%s: cannot type the string literal %r (expected %s)' % (self.name, v, expect))
        raise Shape('literal ' + repr(v))

    def pure(self, code):
        if '←' in code:
            raise Shape('%s: a fallible sub-expression under and / or / a conditional expression: %s' % (self.name, code))
        return code

    def truthy(self, node):
        """translate `node` used as a condition"""
        if isinstance(node, ast.BoolOp):
            op = ' && ' if isinstance(node.op, ast.And) else ' || '
            return '(' + op.join(self.pure(self.truthy(x)) for x in node.values) + ')'
        if isinstance(node, ast.UnaryOp) and isinstance(node.op, ast.Not):
            return '(!' + self.truthy(node.operand) + ')'
        c, t = self.ex(node)
        if t == BOOL:
            return c
        if isinstance(t, tuple) and t[0] == 'List':
            return '(!(%s).isEmpty)' % c
        if isinstance(t, tuple) and t[0] == 'Option' and isinstance(t[1], tuple) and t[1][0] == 'Prod':
            return '(%s).isSome' % c                 # None is false, a 2-tuple is true
        if isinstance(t, tuple) and t[0] == 'Option' and isinstance(t[1], tuple) and t[1][0] == 'List':
            return '(Py.truthyOL %s)' % c            # None and the empty list are false
        raise Shape('%s: truth value of a %s' % (self.name, ty(t)))

    def need(self, code, t, want):
        """coerce an expression of type t to `want` where Python would do so implicitly or raise"""
        if t == want:
            return code
        if isinstance(t, tuple) and t[0] == 'Option' and t[1] == want:
            return '(← Py.unwrap %s)' % code
        if isinstance(want, tuple) and want[0] == 'Option' and want[1] == t:
            return '(some %s)' % code
        if isinstance(t, tuple) and t[0] == 'Option' and t[1] == '?' and isinstance(want, tuple) and want[0] == 'Option':
            return code
        if want == TEXT and t == CHAR:                          # a one-character str as a str
            return '[%s]' % code
        if want == TEXT and t == STR:                           # an opaque str as the list of its characters
            return '(%s).toList' % code
        if want == INT and t == NAT:                            # a non-negative int where any int may stand
            return '(Int.ofNat %s)' % code
        raise Shape('%s: a %s where a %s is needed: %s' % (self.name, ty(t), ty(want), code))

    def ex(self, node, expect=None):
        if isinstance(node, ast.Constant):
            return self.lit(node, expect)
        if isinstance(node, ast.Name):
            return self.var(node.id)
        if isinstance(node, ast.Tuple) and len(node.elts) == 2:
            ea = expect[1] if expect and expect[0] == 'Prod' else None
            eb = expect[2] if expect and expect[0] == 'Prod' else None
            (a, ta), (b, tb) = self.ex(node.elts[0], ea), self.ex(node.elts[1], eb)
            return '(%s, %s)' % (a, b), P(ta, tb)
        if isinstance(node, ast.List):
            et = expect[1] if expect and expect[0] == 'List' else None
            items = [self.ex(e, et) for e in node.elts]
            if not items:
                if et is None:
                    raise Shape('%s: cannot type []' % self.name)
                return '[]', L(et)
            if et is None:
                et = items[0][1]
            return '[' + ', '.join(self.need(c, t, et) for c, t in items) + ']', L(et)
        if isinstance(node, ast.BinOp):
            if isinstance(node.op, ast.Add):
                a, ta = self.ex(node.left, expect)
                b, tb = self.ex(node.right, ta)
                if ta == NAT and tb == NAT:
                    return '(%s + %s)' % (a, b), NAT
                if INT in (ta, tb) and ta in (NAT, INT) and tb in (NAT, INT):
                    return '(%s + %s)' % (self.need(a, ta, INT), self.need(b, tb, INT)), INT
                if ta in (CHAR, STR, TEXT) and tb in (CHAR, STR, TEXT):       # str + str: the characters of both
                    return '(%s ++ %s)' % (self.need(a, ta, TEXT), self.need(b, tb, TEXT)), TEXT
                if isinstance(ta, tuple) and ta[0] == 'List' and tb == ta:
                    return '(%s ++ %s)' % (a, b), ta
                raise Shape('%s: + on %s and %s' % (self.name, ty(ta), ty(tb)))
            if isinstance(node.op, ast.Sub):
                a, ta = self.ex(node.left, NAT)
                b, tb = self.ex(node.right, NAT)
                if ta == O(NAT):                                    # `None - 1` is a TypeError
                    a, ta = self.need(a, ta, NAT), NAT
                if ta == NAT and tb == NAT:
                    return '(← Py.sub %s %s)' % (a, b), NAT        # checked: translator fault instead of a negative int
                if INT in (ta, tb) and ta in (NAT, INT) and tb in (NAT, INT):
                    return '(%s - %s)' % (self.need(a, ta, INT), self.need(b, tb, INT)), INT
                raise Shape('%s: - on %s and %s' % (self.name, ty(ta), ty(tb)))
            if isinstance(node.op, ast.Mod):
                a, ta = self.ex(node.left, NAT)
                b, tb = self.ex(node.right, NAT)
                if ta == NAT and tb == NAT:
                    return '(← Py.mod %s %s)' % (a, b), NAT        # ZeroDivisionError
                if INT in (ta, tb) and ta in (NAT, INT) and tb in (NAT, INT):     # floored modulo, ZeroDivisionError
                    return '(← Py.imod %s %s)' % (self.need(a, ta, INT), self.need(b, tb, INT)), INT
                raise Shape('%s: %% on %s and %s' % (self.name, ty(ta), ty(tb)))
            if isinstance(node.op, ast.BitAnd):
                a, ta = self.ex(node.left, NAT)
                b, tb = self.ex(node.right, NAT)
                if ta == NAT and tb == NAT:
                    return '(%s &&& %s)' % (a, b), NAT              # bitwise and of non-negative ints
                raise Shape('%s: & on %s and %s' % (self.name, ty(ta), ty(tb)))
            raise Shape('%s: operator %s' % (self.name, type(node.op).__name__))
        if isinstance(node, ast.JoinedStr):
            # f'{x}' with a single replacement field, no conversion, no format spec, for a str x: format(x, '') is x
            if len(node.values) == 1 and isinstance(node.values[0], ast.FormattedValue) and node.values[0].conversion == -1 \
                    and node.values[0].format_spec is None:
                c, t = self.ex(node.values[0].value)
                if t in (CHAR, STR, TEXT):
                    return c, t
            raise Shape('%s: f-string shape: %s' % (self.name, ast.unparse(node)[:60]))
        if isinstance(node, ast.IfExp):
            c = self.truthy(node.test)
            (a, ta), (b, tb) = self.ex(node.body, expect), self.ex(node.orelse, expect)
            t = ta
            if ta != tb:
                if isinstance(ta, tuple) and ta[0] == 'Option' and ta[1] in (tb, '?'):
                    t = ta if ta[1] == tb else O(tb)
                elif isinstance(tb, tuple) and tb[0] == 'Option' and tb[1] in (ta, '?'):
                    t = tb if tb[1] == ta else O(ta)
                else:
                    raise Shape('%s: conditional expression of a %s and a %s' % (self.name, ty(ta), ty(tb)))
                a, b = self.need(a, ta, t), self.need(b, tb, t)
            if '←' not in a and '←' not in b:
                return '(if %s then %s else %s)' % (c, a, b), t
            return '(← (if %s then %s else %s))' % (c, monadic(a), monadic(b)), t
        if isinstance(node, ast.Dict):
            if not (expect and expect[0] == 'Dict'):
                raise Shape('%s: cannot type the dict %s' % (self.name, ast.unparse(node)))
            if not all(isinstance(k, ast.Constant) for k in node.keys) or len({k.value for k in node.keys}) != len(node.keys):
                raise Shape('%s: dict keys must be different constants' % self.name)
            items = []
            for k, x in zip(node.keys, node.values):
                (kc, kt), (xc, xt) = self.ex(k, expect[1]), self.ex(x, expect[2])
                items.append('(%s, %s)' % (self.need(kc, kt, expect[1]), self.need(xc, xt, expect[2])))
            return '[' + ', '.join(items) + ']', expect
        if isinstance(node, ast.ListComp):
            if len(node.generators) == 1 and not node.generators[0].is_async and \
                    (node.generators[0].ifs or isinstance(node.generators[0].target, ast.Tuple) or self.lazy_iter(node.generators[0].iter)):
                return self.comp(node, expect)                      # `if` clause, pair target, zip / groupby
            if len(node.generators) != 1 or node.generators[0].ifs or node.generators[0].is_async \
                    or not isinstance(node.generators[0].target, ast.Name):
                raise Shape('%s: comprehension shape: %s' % (self.name, ast.unparse(node)[:60]))
            g = node.generators[0]
            return self.mapped(g.target.id, node.elt, g.iter, expect)
        if isinstance(node, ast.UnaryOp) and isinstance(node.op, ast.Not):
            return '(!' + self.truthy(node.operand) + ')', BOOL
        if isinstance(node, ast.UnaryOp) and isinstance(node.op, ast.USub):
            a, ta = self.ex(node.operand)
            if ta not in (NAT, INT):
                raise Shape('%s: unary minus on a %s' % (self.name, ty(ta)))
            return '(-%s)' % self.need(a, ta, INT), INT
        if isinstance(node, ast.BoolOp):
            return self.truthy(node), BOOL
        if isinstance(node, ast.Compare) and len(node.ops) == 1:
            op, l, r = node.ops[0], node.left, node.comparators[0]
            if isinstance(op, (ast.Is, ast.IsNot)) and isinstance(r, ast.Constant) and r.value is None:
                a, ta = self.ex(l)
                if not (isinstance(ta, tuple) and ta[0] == 'Option'):
                    raise Shape('%s: `is None` on a %s' % (self.name, ty(ta)))
                return ('(%s).isNone' if isinstance(op, ast.Is) else '(%s).isSome') % a, BOOL
            if isinstance(op, (ast.Is, ast.IsNot)) and isinstance(r, ast.Constant) and isinstance(r.value, bool):
                a, ta = self.ex(l)
                if ta != BOOL:
                    raise Shape('%s: `is %s` on a %s' % (self.name, r.value, ty(ta)))
                return '(%s %s %s)' % (a, '==' if isinstance(op, ast.Is) else '!=', 'true' if r.value else 'false'), BOOL
            if isinstance(op, (ast.In, ast.NotIn)):
                if isinstance(r, ast.Call) and isinstance(r.func, ast.Name) and r.func.id == 'set' and len(r.args) == 1:
                    r = r.args[0]                                  # `x in set(l)` is `x in l`
                b, tb = self.ex(r)
                if isinstance(tb, tuple) and tb[0] == 'Dict':
                    a, ta = self.ex(l, tb[1])
                    c = '(Py.dictHas %s %s)' % (b, self.need(a, ta, tb[1]))
                    return (c if isinstance(op, ast.In) else '(!%s)' % c), BOOL
                if isinstance(tb, tuple) and tb[0] == 'Option' and isinstance(tb[1], tuple) and tb[1][0] == 'List':
                    b, tb = '(← Py.unwrap %s)' % b, tb[1]          # `x in None` is a TypeError
                if not (isinstance(tb, tuple) and tb[0] == 'List'):
                    raise Shape('%s: `in` on a %s' % (self.name, ty(tb)))
                a, ta = self.ex(l, tb[1])
                a = self.need(a, ta, tb[1])
                c = '(%s).contains %s' % (b, a)
                return ('(%s)' % c if isinstance(op, ast.In) else '(!(%s))' % c), BOOL
            if isinstance(l, ast.Constant) and not isinstance(r, ast.Constant):
                b, tb = self.ex(r)
                a, ta = self.ex(l, tb)
            else:
                a, ta = self.ex(l)
                b, tb = self.ex(r, ta)
            if isinstance(op, (ast.Eq, ast.NotEq)):
                if ta == O(NAT) and tb == NAT:                      # `None == 3` is False: compare as None-able ints
                    b, tb = '(some %s)' % b, ta
                elif tb == O(NAT) and ta == NAT:
                    a, ta = '(some %s)' % a, tb
                elif (ta, tb) in ((NAT, INT), (INT, NAT)):          # ints of either sign
                    a, b, ta, tb = self.need(a, ta, INT), self.need(b, tb, INT), INT, INT
                if ta != tb:
                    raise Shape('%s: == on %s and %s' % (self.name, ty(ta), ty(tb)))
                return '(%s %s %s)' % (a, '==' if isinstance(op, ast.Eq) else '!=', b), BOOL
            sym = {ast.Lt: '<', ast.Gt: '>', ast.LtE: '≤', ast.GtE: '≥'}.get(type(op))
            if sym is None:
                raise Shape('%s: comparison %s' % (self.name, type(op).__name__))
            if (ta, tb) in ((O(NAT), NAT), (NAT, O(NAT))):         # `None > 0` is a TypeError
                a, b, ta, tb = self.need(a, ta, NAT), self.need(b, tb, NAT), NAT, NAT
            if ta == NAT and tb == NAT:
                return '(decide (%s %s %s))' % (a, sym, b), BOOL
            if INT in (ta, tb) and ta in (NAT, INT) and tb in (NAT, INT):
                return '(decide (%s %s %s))' % (self.need(a, ta, INT), sym, self.need(b, tb, INT)), BOOL
            # tuples of two ints (a None-able side raises TypeError)
            if sym == '<':
                a2, b2 = self.need(a, ta, LOC), self.need(b, tb, LOC)
                return '(Py.tupleLt %s %s)' % (a2, b2), BOOL
            raise Shape('%s: %s on %s and %s' % (self.name, sym, ty(ta), ty(tb)))
        if isinstance(node, ast.Subscript):
            base, tb = self.ex(node.value)
            sl = node.slice
            if isinstance(sl, ast.Slice):
                if sl.step is not None or not (tb == TEXT or (isinstance(tb, tuple) and tb[0] == 'List')):
                    raise Shape('%s: slice shape' % self.name)
                c = base
                if sl.lower is None and isinstance(sl.upper, ast.UnaryOp) and isinstance(sl.upper.op, ast.USub) \
                        and isinstance(sl.upper.operand, ast.Constant) and sl.upper.operand.value == 1:
                    return '(List.dropLast %s)' % base, tb          # l[:-1]
                if sl.upper is not None:
                    u, tu = self.ex(sl.upper)
                    if tu != NAT: raise Shape('slice bound')
                    c = '(List.take %s %s)' % (u, c)
                if sl.lower is not None:
                    lo, tl = self.ex(sl.lower)
                    if tl != NAT: raise Shape('slice bound')
                    c = '(List.drop %s %s)' % (lo, c)
                return c, tb
            if isinstance(tb, tuple) and tb[0] == 'Dict' and not isinstance(sl, ast.Slice):
                k, tk = self.ex(sl, tb[1])
                return '(← Py.dictGet %s %s)' % (base, self.need(k, tk, tb[1])), tb[2]
            if isinstance(tb, tuple) and tb[0] == 'Option' and isinstance(tb[1], tuple) and tb[1][0] in ('Prod', 'List'):
                base, tb = '(← Py.unwrap %s)' % base, tb[1]          # `None[i]` is a TypeError
            if isinstance(tb, tuple) and tb[0] == 'Prod':
                if isinstance(sl, ast.Constant) and sl.value in (0, 1):
                    return '%s.%d' % (base, sl.value + 1), tb[1 + sl.value]
                raise Shape('%s: tuple subscript' % self.name)
            if isinstance(tb, tuple) and tb[0] == 'List':
                if isinstance(sl, ast.UnaryOp) and isinstance(sl.op, ast.USub) and isinstance(sl.operand, ast.Constant) and sl.operand.value == 1:
                    return '(← Py.last %s)' % base, tb[1]
                i, ti = self.ex(sl)
                if ti != NAT:
                    raise Shape('%s: index of type %s' % (self.name, ty(ti)))
                return '(← Py.idx %s %s)' % (base, i), tb[1]
            raise Shape('%s: subscript of a %s' % (self.name, ty(tb)))
        if isinstance(node, ast.Call) and isinstance(node.func, ast.Name) and \
                (node.func.id in self.specs or node.func.id in self.nested or node.func.id == self.spec['name'].split('.')[-1]):
            return self.call(node)
        if isinstance(node, ast.Call) and not node.keywords:
            f = node.func
            if isinstance(f, ast.Name):
                if f.id == 'list' and len(node.args) == 1 and isinstance(node.args[0], ast.Call) and not node.args[0].keywords \
                        and isinstance(node.args[0].func, ast.Name) and node.args[0].func.id == 'map':
                    m = node.args[0]
                    if len(m.args) != 2 or not isinstance(m.args[0], ast.Lambda):
                        raise Shape('%s: map shape: %s' % (self.name, ast.unparse(m)[:60]))
                    la = m.args[0].args
                    if len(la.args) != 1 or la.vararg or la.kwarg or la.kwonlyargs or la.defaults or la.posonlyargs:
                        raise Shape('%s: lambda shape' % self.name)
                    return self.mapped(la.args[0].arg, m.args[0].body, m.args[1], expect)
                if f.id == 'str' and len(node.args) == 1 and self.spec.get('str_is_builtin'):
                    a, ta = self.ex(node.args[0])
                    if ta in (CHAR, STR, TEXT):                      # str(s) of a str is s
                        return a, ta
                    raise Shape('%s: str() of a %s' % (self.name, ty(ta)))
                if f.id == 'len' and len(node.args) == 1:
                    a, ta = self.ex(node.args[0])
                    if ta in (TEXT, STR):                            # number of characters of a str
                        return '(%s).length' % a, NAT
                    if isinstance(ta, tuple) and ta[0] == 'Option' and isinstance(ta[1], tuple) and ta[1][0] == 'List':
                        return '(← Py.unwrap %s).length' % a, NAT   # len(None) is a TypeError
                    if not (isinstance(ta, tuple) and ta[0] == 'List'): raise Shape('len of ' + ty(ta))
                    return '(%s).length' % a, NAT
                if f.id == 'list' and len(node.args) == 1:
                    a, ta = self.ex(node.args[0])
                    if ta == TEXT:                                   # the list of the one-character strs of a str
                        return a, L(CHAR)
                    if not (isinstance(ta, tuple) and ta[0] == 'List'): raise Shape('list() of ' + ty(ta))
                    return a, ta                                   # a copy; values are immutable here
                if f.id == 'enumerate' and len(node.args) == 1:
                    a, ta = self.ex(node.args[0])
                    if isinstance(ta, tuple) and ta[0] == 'Option' and isinstance(ta[1], tuple) and ta[1][0] == 'List':
                        a, ta = '(← Py.unwrap %s)' % a, ta[1]            # enumerate(None) is a TypeError
                    return '(Py.enumerate %s)' % a, L(P(NAT, ta[1]))
                if f.id == 'range' and len(node.args) in (1, 2):
                    args = [self.ex(x) for x in node.args]
                    if any(t != NAT for _, t in args): raise Shape('range of non-Nat')
                    if len(args) == 1:
                        return '(List.range %s)' % args[0][0], L(NAT)
                    return '(Py.range2 %s %s)' % (args[0][0], args[1][0]), L(NAT)
                if f.id == 'reversed' and len(node.args) == 1:
                    a, ta = self.ex(node.args[0])
                    if not (ta == TEXT or (isinstance(ta, tuple) and ta[0] == 'List')): raise Shape('reversed of ' + ty(ta))
                    return '(List.reverse %s)' % a, ta
                if f.id == 'reduce' and len(node.args) == 2 and isinstance(node.args[0], ast.Lambda):
                    # functools.reduce(lambda a, b: e, l) without an initial value, `e` infallible
                    if not self.spec.get('reduce_is_functools'):
                        raise Shape('%s: reduce is not functools.reduce' % self.name)
                    la = node.args[0].args
                    if len(la.args) != 2 or la.vararg or la.kwarg or la.kwonlyargs or la.defaults or la.posonlyargs:
                        raise Shape('%s: lambda shape' % self.name)
                    l, tl = self.ex(node.args[1])
                    if not (isinstance(tl, tuple) and tl[0] == 'List'):
                        raise Shape('%s: reduce over a %s' % (self.name, ty(tl)))
                    names = [x.arg for x in la.args]
                    if names[0] == names[1] or any(x in self.loopvars or x in self.locals or x in self.params for x in names):
                        raise Shape('%s: the lambda parameters %s shadow other variables' % (self.name, names))
                    saved = dict(self.loopvars)
                    self.loopvars[names[0]] = self.loopvars[names[1]] = tl[1]
                    b, tb = self.ex(node.args[0].body, tl[1])
                    self.loopvars = saved
                    if tb != tl[1] or '←' in b:
                        raise Shape('%s: reduce with a fallible or ill-typed function: %s' % (self.name, b))
                    return '(← Py.reduce (fun (%s : %s) (%s : %s) => %s) %s)' % (ident(names[0]), ty(tl[1]), ident(names[1]), ty(tl[1]), b, l), tl[1]
                if f.id == 'all' and len(node.args) == 1 and isinstance(node.args[0], ast.GeneratorExp):
                    # all(c for … in …) with an infallible c: the generator is consumed at once; stopping at the first
                    # False is not observable
                    c, tc = self.comp(node.args[0], L(BOOL))
                    if tc != L(BOOL) or '←' in c:
                        raise Shape('%s: all() of %s' % (self.name, ast.unparse(node.args[0])[:60]))
                    return '(List.all %s (fun b => b))' % c, BOOL
                if f.id == 'set' and len(node.args) == 0:
                    if not (expect and expect[0] == 'List'): raise Shape('cannot type set()')
                    return '[]', expect
            if isinstance(f, ast.Attribute) and isinstance(f.value, ast.Name):
                if f.attr == 'index' and len(node.args) == 1:
                    a, ta = self.ex(f.value)
                    x, tx = self.ex(node.args[0], ta[1])
                    return '(← Py.index %s %s)' % (a, self.need(x, tx, ta[1])), NAT
                if f.attr == 'split' and len(node.args) == 1:
                    a, ta = self.ex(f.value)                         # s.split(sep): a str and a one-character separator
                    x, tx = self.ex(node.args[0], CHAR)
                    if ta != TEXT or tx != CHAR:
                        raise Shape('%s: split of a %s at a %s' % (self.name, ty(ta), ty(tx)))
                    return '(Py.split %s %s)' % (a, x), L(TEXT)
            if isinstance(f, ast.Attribute) and f.attr == 'join' and len(node.args) == 1 and \
                    isinstance(f.value, (ast.Constant, ast.JoinedStr)):
                # sep.join(parts): `sep` a str literal or f'{x}', `parts` a list / generator expression of strs
                sep, tsep = self.ex(f.value, TEXT)
                sep = self.need(sep, tsep, TEXT)
                arg = node.args[0]
                parts, tp = self.comp(arg, None) if isinstance(arg, ast.GeneratorExp) else self.ex(arg)
                if tp == L(TEXT):
                    pass
                elif tp == L(CHAR):                                   # one-character strs
                    parts = '(List.map (fun c => [c]) %s)' % parts
                elif tp == L(STR):
                    parts = '(List.map String.toList %s)' % parts
                else:
                    raise Shape('%s: join of a %s' % (self.name, ty(tp)))
                return '(Py.strJoin %s %s)' % (sep, parts), TEXT
        raise Shape('%s: unsupported expression: %s' % (self.name, ast.unparse(node)[:80]))

    def mapped(self, x, body, iter_, expect):
        """`list(map(lambda x: body, iter_))` / `[body for x in iter_]`"""
        it, tit = self.ex(iter_)
        if tit == TEXT:                                             # iterating a str: its characters
            tit = L(CHAR)
        if not (isinstance(tit, tuple) and tit[0] == 'List'):
            raise Shape('%s: map / comprehension over a %s' % (self.name, ty(tit)))
        if x in self.loopvars or x in self.locals or x in self.params:
            raise Shape('%s: the bound variable %s shadows another variable' % (self.name, x))
        saved = dict(self.loopvars)
        self.loopvars[x] = tit[1]
        want = expect[1] if expect and expect[0] == 'List' else None
        b, tb = self.ex(body, want)
        if want is not None:
            b, tb = self.need(b, tb, want), want
        self.loopvars = saved
        if '←' not in b:
            return '(List.map (fun (%s : %s) => %s) %s)' % (ident(x), ty(tit[1]), b, it), L(tb)
        return '(← List.mapM (fun (%s : %s) => %s) %s)' % (ident(x), ty(tit[1]), monadic(b), it), L(tb)

    def lazy_iter(self, node):
        """`zip(…)` / `groupby(…)`: lazy iterators, accepted only as the iterable of a comprehension (consumed at once)"""
        return isinstance(node, ast.Call) and isinstance(node.func, ast.Name) and node.func.id in ('zip', 'groupby')

    def comp(self, node, expect):
        """`[e for T in it if c]` / `(e for T in it if c)` consumed at once: one `for` clause, `T` a name or a pair of names,
        infallible conditions `c`; `it` a list, a str, `zip(a, b)` or `groupby(l, key=lambda x: k)`"""
        if len(node.generators) != 1 or node.generators[0].is_async:
            raise Shape('%s: comprehension shape: %s' % (self.name, ast.unparse(node)[:60]))
        g = node.generators[0]
        tg = g.target
        group_var = None
        if self.lazy_iter(g.iter) and g.iter.func.id == 'zip':
            if len(g.iter.args) != 2 or g.iter.keywords:
                raise Shape('%s: zip shape' % self.name)
            (a, ta), (b, tb) = self.ex(g.iter.args[0]), self.ex(g.iter.args[1])
            ta, tb = (L(CHAR) if ta == TEXT else ta), (L(CHAR) if tb == TEXT else tb)
            if not all(isinstance(t, tuple) and t[0] == 'List' for t in (ta, tb)) or '←' in a + b:
                raise Shape('%s: zip of a %s and a %s' % (self.name, ty(ta), ty(tb)))
            it, tit = '(List.zip %s %s)' % (a, b), L(P(ta[1], tb[1]))         # as long as the shorter one
        elif self.lazy_iter(g.iter):
            # itertools.groupby(l, key=lambda x: k): a group `g` is only valid until the next group is requested, so the
            # target must be `k, g` and `g` may only be used as `list(g)` in the element expression
            if not self.spec.get('groupby_is_itertools'):
                raise Shape('%s: groupby is not itertools.groupby' % self.name)
            c = g.iter
            if len(c.args) != 1 or len(c.keywords) != 1 or c.keywords[0].arg != 'key' or not isinstance(c.keywords[0].value, ast.Lambda):
                raise Shape('%s: groupby shape: %s' % (self.name, ast.unparse(c)[:60]))
            la = c.keywords[0].value.args
            if len(la.args) != 1 or la.vararg or la.kwarg or la.kwonlyargs or la.defaults or la.posonlyargs:
                raise Shape('%s: lambda shape' % self.name)
            l, tl = self.ex(c.args[0])
            if not (isinstance(tl, tuple) and tl[0] == 'List') or '←' in l:
                raise Shape('%s: groupby over a %s' % (self.name, ty(tl)))
            x = la.args[0].arg
            if x in self.loopvars or x in self.locals or x in self.params:
                raise Shape('%s: the bound variable %s shadows another variable' % (self.name, x))
            saved = dict(self.loopvars)
            self.loopvars[x] = tl[1]
            k, tk = self.ex(c.keywords[0].value.body)
            self.loopvars = saved
            if '←' in k or tk not in (BOOL, NAT, CHAR, STR):
                raise Shape('%s: groupby key: %s' % (self.name, k))
            if not (isinstance(tg, ast.Tuple) and len(tg.elts) == 2 and all(isinstance(e, ast.Name) for e in tg.elts)):
                raise Shape('%s: groupby target %s' % (self.name, ast.unparse(tg)))
            group_var = tg.elts[1].id
            uses = [n for n in ast.walk(node.elt) if isinstance(n, ast.Name) and n.id == group_var]
            wrapped = [n.args[0] for n in ast.walk(node.elt) if isinstance(n, ast.Call) and isinstance(n.func, ast.Name)
                       and n.func.id == 'list' and len(n.args) == 1 and not n.keywords]
            if any(u not in wrapped for u in uses) or any(isinstance(n, ast.Name) and n.id == group_var for c2 in g.ifs for n in ast.walk(c2)):
                raise Shape('%s: the group %s of groupby is used other than as list(%s)' % (self.name, group_var, group_var))
            it, tit = '(Py.groupby (fun (%s : %s) => %s) %s)' % (ident(x), ty(tl[1]), k, l), L(P(tk, tl))
        else:
            it, tit = self.ex(g.iter)
            if tit == TEXT:
                tit = L(CHAR)
            if not (isinstance(tit, tuple) and tit[0] == 'List'):
                raise Shape('%s: comprehension over a %s' % (self.name, ty(tit)))
        et = tit[1]
        saved = dict(self.loopvars)
        def fresh(n):
            if n in self.loopvars or n in self.locals or n in self.params or n in self.globals:
                raise Shape('%s: the bound variable %s shadows another variable' % (self.name, n))
        if isinstance(tg, ast.Name):
            fresh(tg.id)
            arg, lets = ident(tg.id), ''
            self.loopvars[tg.id] = et
        elif isinstance(tg, ast.Tuple) and len(tg.elts) == 2 and all(isinstance(e, ast.Name) for e in tg.elts) \
                and tg.elts[0].id != tg.elts[1].id and isinstance(et, tuple) and et[0] == 'Prod':
            self.ncomp += 1
            arg = 'c%d' % self.ncomp
            fresh(arg)
            lets = ''
            for i, e in enumerate(tg.elts):
                fresh(e.id)
                self.loopvars[e.id] = et[1 + i]
                lets += 'let %s := %s.%d; ' % (ident(e.id), arg, i + 1)
        else:
            raise Shape('%s: comprehension target %s over a %s' % (self.name, ast.unparse(tg), ty(tit)))
        conds = [self.pure(self.truthy(c)) for c in g.ifs]
        want = expect[1] if expect and expect[0] == 'List' else None
        b, tb = self.ex(node.elt, want)
        if want is not None:
            b, tb = self.need(b, tb, want), want
        self.loopvars = saved
        for c in conds:
            it = '(List.filter (fun (%s : %s) => %s%s) %s)' % (arg, ty(et), lets, c, it)
        if '←' not in b:
            return '(List.map (fun (%s : %s) => %s%s) %s)' % (arg, ty(et), lets, b, it), L(tb)
        x = strip_arrow(b)
        body = x if x is not None else 'pure %s' % b
        return '(← List.mapM (fun (%s : %s) => (do %s%s)) %s)' % (arg, ty(et), lets, body, it), L(tb)

    def static_test(self, node):
        """a test that the typing of this instance decides: a parameter fixed to True / False, `isinstance(x, list)`"""
        if isinstance(node, ast.UnaryOp) and isinstance(node.op, ast.Not):
            r = self.static_test(node.operand)
            return None if r is None else not r
        if isinstance(node, ast.Name) and node.id in self.fixed and node.id not in self.loopvars:
            return bool(self.fixed[node.id])
        if isinstance(node, ast.Call) and isinstance(node.func, ast.Name) and node.func.id == 'isinstance':
            if len(node.args) != 2 or node.keywords or not isinstance(node.args[0], ast.Name) \
                    or not (isinstance(node.args[1], ast.Name) and node.args[1].id == 'list'):
                raise Shape('%s: isinstance shape: %s' % (self.name, ast.unparse(node)))
            x = node.args[0].id
            _, t = self.var(x)
            if t in (TEXT, STR, CHAR):
                return False
            # a `List …` type stands for a Python list only where the stub says so (older stubs use `List Char` for a str)
            if isinstance(t, tuple) and t[0] == 'List' and x in self.spec.get('pylists', ()):
                return True
            raise Shape('%s: isinstance(%s, list) is not decided by the typing' % (self.name, x))
        return None

    def default_value(self, cspec, q, tq):
        """the value of the parameter `q` that a call of `cspec` omits: the default of the `def`, if it is a constant
        (or `set('<one character>')` for a set of characters that the callee never rebinds or mutates)"""
        fn = cspec.get('_fn')
        if fn is None:
            raise Shape('%s: no definition at hand for the default of %s' % (self.name, q))
        names = [a.arg for a in fn.args.args]
        defaults = dict(zip(names[len(names) - len(fn.args.defaults):], fn.args.defaults))
        if q not in defaults:
            raise Shape('%s: %s is called without %s, which has no default' % (self.name, cspec['name'], q))
        d = defaults[q]
        if isinstance(d, ast.Constant):
            c, tc = FuncTx.lit(self, d, tq)
            return self.need(c, tc, tq), d
        if isinstance(d, ast.Call) and isinstance(d.func, ast.Name) and d.func.id == 'set' and len(d.args) == 1 and not d.keywords \
                and isinstance(d.args[0], ast.Constant) and isinstance(d.args[0].value, str) and len(d.args[0].value) == 1 and tq == L(CHAR):
            if any(isinstance(n, ast.Name) and n.id == q and isinstance(n.ctx, (ast.Store, ast.Del)) for n in ast.walk(fn)):
                raise Shape('%s: the mutable default of %s is rebound by %s' % (self.name, q, cspec['name']))
            return FuncTx.lit(self, d.args[0], L(CHAR))[0], d
        raise Shape('%s: default of %s in %s: %s' % (self.name, q, cspec['name'], ast.unparse(d)[:40]))

    def call(self, node, as_iter=False):
        """a call of a nested def, of the function itself (recursion) or of a function translated before"""
        f = node.func.id
        own = self.spec['name'].split('.')[-1]
        if f in self.nested:
            tx = self.nested[f]
            # the captured parameters of the enclosing function are passed with the value they have NOW (a closure reads the
            # variable when it runs, and it runs inside this call)
            cspec, params, head = tx.spec, tx.spec['params'], '%s %s' % (tx.name, ' '.join(self.var(q)[0] for q in tx.param_order[:len(tx.param_order) - len(tx.spec['params'])]))
        elif f == own:
            if not self.recursive or self.parent is not None:
                raise Shape('%s: recursive call in a function that is not declared recursive' % self.name)
            cspec, params, head = self.spec, self.spec['params'], self.recur_code()
        else:
            cspec, params, head = self.specs[f], self.specs[f]['params'], 'py_' + lean_name(self.specs[f])
            if cspec.get('recursive') or cspec.get('fuel'):
                # a fuel-bounded callee: this function takes `fuel` itself and passes it on (only from its own body)
                if not self.spec.get('fuel') or self.loop_stack or self.parent is not None:
                    raise Shape('%s: call of the recursive function %s from another function' % (self.name, f))
                head += ' fuel'
        if cspec.get('generator') is not None and not as_iter:
            raise Shape('%s: the generator %s(…) is not consumed by a for loop' % (self.name, f))
        names = [q for q, _ in params]
        given = dict(zip(names, node.args))
        if len(node.args) > len(names):
            raise Shape('%s: too many arguments for %s' % (self.name, f))
        for kw in node.keywords:
            if kw.arg is None or kw.arg not in names or kw.arg in given:
                raise Shape('%s: keyword argument of %s' % (self.name, f))
            given[kw.arg] = kw.value
        if set(given) != set(names) and not (set(given) < set(names) and cspec.get('_fn') is not None):
            raise Shape('%s: %s is called without %s (defaults are not modelled)' % (self.name, f, sorted(set(names) - set(given))))
        args = []
        cfixed = cspec.get('fixed', {})
        for q, tq in params:                       # evaluated in the order written: positional first, then keywords
            if q in cfixed:
                # the callee is a typed instance with `q` fixed: the call must pass that very value, statically
                g = given[q] if q in given else self.default_value(cspec, q, tq)[1]
                if isinstance(g, ast.Name) and g.id in self.fixed and g.id not in self.loopvars and g.id not in self.locals:
                    val = self.fixed[g.id]
                elif isinstance(g, ast.Constant):
                    val = g.value
                else:
                    raise Shape('%s: %s of %s is fixed by the instance and must be passed as a literal' % (self.name, q, f))
                if val is not cfixed[q]:
                    raise Shape('%s: %s of %s is %r in the instance %s' % (self.name, q, f, cfixed[q], lean_name(cspec)))
                continue
            if q not in given:                     # omitted: the constant default of the definition
                args.append(self.default_value(cspec, q, tq)[0])
                continue
            c, tc = self.ex(given[q], tq)
            args.append(self.need(c, tc, tq))
        order = [q for q in names[:len(node.args)]] + [kw.arg for kw in node.keywords]
        if order != [q for q in names if q in given] and any('←' in a for a in args):
            raise Shape('%s: fallible keyword arguments out of order' % self.name)
        code, t = '(← %s %s)' % (head, ' '.join(args)), cspec['ret']
        if 'ret_pick' in cspec:                    # the callee's translation returns all its result shapes together
            q, table = cspec['ret_pick']
            g = given[q] if q in given else self.default_value(cspec, q, dict(params)[q])[1]
            if not (isinstance(g, ast.Constant) and g.value in table):
                raise Shape('%s: %s of %s must be a literal' % (self.name, q, f))
            proj, t = table[g.value]
            code = '((fun r => %s) %s)' % (proj, code)
        return code, t

    def iter_ex(self, node):
        """the iterable of a `for`: a list, a generator call, or `chain` of generator calls / lists"""
        def one(n):
            if isinstance(n, ast.Call) and isinstance(n.func, ast.Name) and \
                    (n.func.id in self.specs or n.func.id in self.nested or n.func.id == self.spec['name'].split('.')[-1]):
                return self.call(n, as_iter=True)
            return self.ex(n)
        if isinstance(node, ast.Call) and isinstance(node.func, ast.Name) and node.func.id == 'chain' and not node.keywords \
                and len(node.args) == 2:
            if not self.spec.get('chain_is_itertools'):
                raise Shape('%s: chain is not itertools.chain' % self.name)
            (a, ta), (b, tb) = one(node.args[0]), one(node.args[1])
            if ta != tb or not (isinstance(ta, tuple) and ta[0] == 'List'):
                raise Shape('%s: chain of a %s and a %s' % (self.name, ty(ta), ty(tb)))
            return '(%s ++ %s)' % (a, b), ta
        return one(node)

    def destructure(self, target, code, t, out, ind):
        """assign the components of the value `code : t` (nested 2-tuples) to the names of `target`, left to right"""
        if isinstance(target, ast.Name):
            if target.id in self.loopvars or target.id not in self.locals:
                raise Shape('%s: unpacking into %s' % (self.name, target.id))
            out.append(ind + self.set_local(target.id, self.need(code, t, self.locals[target.id])))
            return
        if isinstance(target, ast.Tuple) and len(target.elts) == 2 and isinstance(t, tuple) and t[0] == 'Prod':
            self.destructure(target.elts[0], code + '.1', t[1], out, ind)
            self.destructure(target.elts[1], code + '.2', t[2], out, ind)
            return
        raise Shape('%s: cannot unpack a %s into %s' % (self.name, ty(t), ast.unparse(target)))

    # ---- statements --------------------------------------------------------------------------------------------
    def set_local(self, n, code):
        return 'v := { v with %s := %s }' % (ident(n), code)

    def assign_name(self, n, value, out, ind):
        if n in self.loopvars:
            raise Shape('%s: assignment to the loop variable %s' % (self.name, n))
        if n not in self.locals:
            raise Shape('%s: local %r has no declared type' % (self.name, n))
        t = self.locals[n]
        c, tc = self.ex(value, t)
        out.append(ind + self.set_local(n, self.need(c, tc, t)))

    def stmts(self, body, out, ind, inloop):
        i = 0
        while i < len(body):
            st = body[i]
            nxt = body[i + 1] if i + 1 < len(body) else None
            # alias creation: X = [] ; Y.append(X)
            if (isinstance(st, ast.Assign) and len(st.targets) == 1 and isinstance(st.targets[0], ast.Name)
                    and st.targets[0].id in self.aliases):
                x = st.targets[0].id
                y = self.aliases[x]
                ok = (isinstance(st.value, ast.List) and not st.value.elts and isinstance(nxt, ast.Expr)
                      and isinstance(nxt.value, ast.Call) and isinstance(nxt.value.func, ast.Attribute)
                      and nxt.value.func.attr == 'append' and isinstance(nxt.value.func.value, ast.Name)
                      and nxt.value.func.value.id == y and len(nxt.value.args) == 1
                      and isinstance(nxt.value.args[0], ast.Name) and nxt.value.args[0].id == x)
                if not ok:
                    raise Shape('%s: %s is no longer created as `%s = []; %s.append(%s)`' % (self.name, x, x, y, x))
                out.append(ind + self.set_local(y, '(v.%s ++ [[]])' % ident(y)) + '      -- %s = []; %s.append(%s)' % (x, y, x))
                i += 2
                continue
            self.stmt(st, out, ind, inloop)
            i += 1

    def stmt(self, st, out, ind, inloop):
        if isinstance(st, ast.Expr) and isinstance(st.value, ast.Constant) and isinstance(st.value.value, str):
            return                                                                    # docstring
        if isinstance(st, ast.Pass):
            out.append(ind + 'pure ()')
            return
        if isinstance(st, ast.Assert):
            txt = ast.unparse(st.test)
            if txt in self.assume:
                self.assumed_found.append(txt)
                out.append(ind + '-- assert %s   (holds by typing)' % txt)
                return
            out.append(ind + 'if !%s then throw Err.assertion' % self.truthy(st.test))
            return
        if isinstance(st, ast.Raise):
            exc = st.exc
            nm = exc.func.id if isinstance(exc, ast.Call) and isinstance(exc.func, ast.Name) else (exc.id if isinstance(exc, ast.Name) else None)
            if nm not in self.exc:
                raise Shape('%s: raise of %s' % (self.name, ast.unparse(exc)[:40]))
            out.append(ind + 'throw %s' % self.exc[nm])
            return
        if isinstance(st, ast.Continue):
            if not inloop:
                raise Shape('continue outside a loop')
            out.append(ind + 'return v      -- continue')
            return
        if isinstance(st, ast.Break):
            if not inloop or not self.loop_stack or self.loop_stack[-1] is None:
                raise Shape('%s: break outside a loop (or inside try)' % self.name)
            out.append(ind + self.set_local('brk%d' % self.loop_stack[-1], 'true'))
            out.append(ind + 'return v      -- break')
            return
        if isinstance(st, ast.Expr) and isinstance(st.value, ast.Yield):
            if self.generator is None or st.value.value is None:
                raise Shape('%s: yield shape' % self.name)
            c, tc = self.ex(st.value.value, self.generator)
            out.append(ind + self.set_local('yielded', '(v.yielded ++ [%s])' % self.need(c, tc, self.generator)) + '      -- yield')
            return
        if isinstance(st, ast.Return) and self.generator is not None:
            if st.value is not None:
                raise Shape('%s: return with a value in a generator' % self.name)
            if self.loop_stack:
                if not inloop:
                    raise Shape('%s: return inside try inside a loop' % self.name)
                out.append(ind + self.set_local('returned', 'true'))
                out.append(ind + 'return v      -- return (inside a loop)')
            else:
                out.append(ind + 'return v.yielded      -- return')
            return
        if isinstance(st, ast.Return):
            if inloop:
                raise Shape('%s: return inside a loop' % self.name)
            txt = ast.unparse(st.value)
            if txt in self.ret_override:
                out.append(ind + 'return %s      -- return %s' % (self.ret_override[txt], txt))
            elif self.ret_override:
                raise Shape('%s: the return expression changed: %s' % (self.name, txt))
            else:
                c, tc = self.ex(st.value, self.spec['ret'])
                out.append(ind + 'return %s' % self.need(c, tc, self.spec['ret']))
            return
        if isinstance(st, ast.Assign) and len(st.targets) == 1:
            tg = st.targets[0]
            if isinstance(tg, ast.Name):
                if tg.id == '_':                                            # `_ = stack.pop()`
                    return self.stmt(ast.Expr(value=st.value), out, ind, inloop)
                if isinstance(st.value, ast.Call) and isinstance(st.value.func, ast.Attribute) and st.value.func.attr == 'pop' \
                        and not st.value.args and isinstance(st.value.func.value, ast.Name):
                    s = st.value.func.value.id
                    self.mutable(s)
                    out.append(ind + 'let pp ← Py.pop v.%s' % ident(s))
                    out.append(ind + 'v := { v with %s := pp.1, %s := pp.2 }' % (ident(tg.id), ident(s)))
                    return
                return self.assign_name(tg.id, st.value, out, ind)
            if isinstance(tg, ast.Tuple) and isinstance(st.value, ast.Tuple) and len(tg.elts) == len(st.value.elts) \
                    and all(isinstance(e, ast.Name) for e in tg.elts):
                names = {e.id for e in tg.elts}
                if any(isinstance(n, ast.Name) and n.id in names for e in st.value.elts for n in ast.walk(e)):
                    raise Shape('%s: simultaneous assignment that reads its targets' % self.name)
                for e, val in zip(tg.elts, st.value.elts):
                    self.assign_name(e.id, val, out, ind)
                return
            if isinstance(tg, ast.Tuple) and not isinstance(st.value, ast.Tuple):
                c, tc = self.ex(st.value)
                self.ntmp = getattr(self, 'ntmp', 0) + 1
                out.append(ind + 'let t%d := %s      -- %s = …' % (self.ntmp, c, ast.unparse(tg)))
                self.destructure(tg, 't%d' % self.ntmp, tc, out, ind)
                return
            if isinstance(tg, ast.Subscript) and isinstance(tg.value, ast.Name) and tg.value.id in self.locals \
                    and self.locals[tg.value.id][0] == 'Dict':
                x = tg.value.id                                             # d[k] = e
                self.mutable(x)
                cx, tx = self.var(x)
                k, tk = self.ex(tg.slice, tx[1])
                e, te = self.ex(st.value, tx[2])
                if '←' in k:                                                # Python evaluates the value before the key
                    raise Shape('%s: fallible key in %s' % (self.name, ast.unparse(st)[:40]))
                out.append(ind + self.set_local(x, '(Py.dictSet %s %s %s)' % (cx, self.need(k, tk, tx[1]), self.need(e, te, tx[2]))))
                return
            if isinstance(tg, ast.Subscript):
                # X[i] = e   |   X[i][j] = e
                if isinstance(tg.value, ast.Name):
                    x = tg.value.id
                    self.mutable(x)
                    cx, tx = self.var(x)
                    i, ti = self.ex(tg.slice)
                    e, te = self.ex(st.value, tx[1])
                    out.append(ind + 'let t ← Py.setIdx %s %s %s' % (cx, i, self.need(e, te, tx[1])))
                    out.append(ind + self.set_local(x, 't'))
                    return
                if isinstance(tg.value, ast.Subscript) and isinstance(tg.value.value, ast.Name):
                    x = tg.value.value.id
                    self.mutable(x)
                    cx, tx = self.var(x)
                    i, ti = self.ex(tg.value.slice)
                    j, tj = self.ex(tg.slice)
                    e, te = self.ex(st.value, tx[1][1])
                    out.append(ind + 'let t ← Py.setIdx2 %s %s %s %s' % (cx, i, j, self.need(e, te, tx[1][1])))
                    out.append(ind + self.set_local(x, 't'))
                    return
            raise Shape('%s: assignment shape: %s' % (self.name, ast.unparse(st)[:60]))
        if isinstance(st, ast.AugAssign) and isinstance(st.op, ast.Add) and isinstance(st.target, ast.Name):
            n = st.target.id
            c, t = self.var(n)
            if n not in self.locals:
                raise Shape('augmented assignment to ' + n)
            if t == NAT:
                e, te = self.ex(st.value, NAT)
                if te != NAT: raise Shape('+= of a %s to a Nat' % ty(te))
                out.append(ind + self.set_local(n, '(%s + %s)' % (c, e)))
                return
            if t == TEXT:                                                   # str += str
                e, te = self.ex(st.value, TEXT)
                out.append(ind + self.set_local(n, '(%s ++ %s)' % (c, self.need(e, te, TEXT))))
                return
            if t == L(CHAR):                                                # str += one character
                e, te = self.ex(st.value, CHAR)
                if te != CHAR: raise Shape('%s: += of a %s to a str' % (self.name, ty(te)))
                out.append(ind + self.set_local(n, '(%s ++ [%s])' % (c, e)))
                return
            raise Shape('%s: += on a %s' % (self.name, ty(t)))
        if isinstance(st, ast.Expr) and isinstance(st.value, ast.Call) and isinstance(st.value.func, ast.Attribute) \
                and isinstance(st.value.func.value, ast.Name) and not st.value.keywords:
            x, m, args = st.value.func.value.id, st.value.func.attr, st.value.args
            if m == 'append' and len(args) == 1:
                if x in self.aliases:
                    y = self.aliases[x]
                    cy, tyy = self.var(y)
                    e, te = self.ex(args[0], tyy[1][1])
                    out.append(ind + 'let t ← Py.appendLast %s %s      -- %s.append(…), %s is %s[-1]' % (cy, self.need(e, te, tyy[1][1]), x, x, y))
                    out.append(ind + self.set_local(y, 't'))
                    return
                if x in self.aliases.values():
                    raise Shape('%s: %s.append outside the alias-creating pair' % (self.name, x))
                self.mutable(x)
                cx, tx = self.var(x)
                e, te = self.ex(args[0], tx[1])
                out.append(ind + self.set_local(x, '(%s ++ [%s])' % (cx, self.need(e, te, tx[1]))))
                return
            if m == 'add' and len(args) == 1 and x in self.sets:
                cx, tx = self.var(x)
                e, te = self.ex(args[0], tx[1])
                out.append(ind + self.set_local(x, '(Py.setAdd %s %s)' % (cx, self.need(e, te, tx[1]))))
                return
            if m == 'pop' and not args:
                self.mutable(x)
                out.append(ind + 'let pp ← Py.pop v.%s' % ident(x))
                out.append(ind + self.set_local(x, 'pp.2'))
                return
            raise Shape('%s: method call %s.%s' % (self.name, x, m))
        if isinstance(st, ast.If) and self.static_test(st.test) is not None:
            # decided by the typing of this instance: only the branch that runs is translated
            r = self.static_test(st.test)
            out.append(ind + '-- if %s: %s at this typing; only the %s branch is translated' % (ast.unparse(st.test), r, 'if' if r else 'else'))
            self.block(st.body if r else st.orelse, out, ind, inloop)
            return
        if isinstance(st, ast.If) and isinstance(st.test, ast.BoolOp) and isinstance(st.test.op, ast.And) \
                and any('←' in self.truthy(x) for x in st.test.values[1:]):
            # `if a and b: body` with a fallible `b`: Python evaluates `b` only when `a` is true -> nested tests
            inner = ast.If(test=st.test.values[-1], body=st.body, orelse=st.orelse)
            rest = st.test.values[:-1]
            outer_test = rest[0] if len(rest) == 1 else ast.BoolOp(op=ast.And(), values=rest)
            return self.stmt(ast.If(test=outer_test, body=[inner], orelse=st.orelse), out, ind, inloop)
        if isinstance(st, ast.If):
            out.append(ind + 'if %s then' % self.truthy(st.test))
            self.block(st.body, out, ind + '  ', inloop)
            if st.orelse:
                out.append(ind + 'else')
                self.block(st.orelse, out, ind + '  ', inloop)
            return
        if isinstance(st, ast.For):
            return self.loop(st, out, ind)
        if isinstance(st, ast.Try):
            return self.try_(st, out, ind, inloop)
        raise Shape('%s: unsupported statement: %s' % (self.name, ast.unparse(st)[:60]))

    def block(self, body, out, ind, inloop):
        n = len(out)
        self.stmts(body, out, ind, inloop)
        if len(out) == n or all(l.strip().startswith('--') for l in out[n:]):
            out.append(ind + 'pure ()')

    def mutable(self, x):
        if x in self.params and x not in self.rebound:
            raise Shape('%s: in-place mutation of the parameter %s' % (self.name, x))
        if x in self.loopvars:
            raise Shape('%s: in-place mutation of the loop variable %s' % (self.name, x))

    def try_(self, st, out, ind, inloop):
        if st.orelse or st.finalbody or len(st.handlers) != 1:
            raise Shape('%s: try shape' % self.name)
        h = st.handlers[0]
        if not (isinstance(h.type, ast.Name) and h.type.id == 'IndexError'):
            raise Shape('%s: handler for %s' % (self.name, ast.unparse(h.type) if h.type else 'everything'))
        # partial effects: variables assigned before the last statement must be local to the try body
        assigned = []
        for s in st.body[:-1]:
            if not (isinstance(s, ast.Assign) and len(s.targets) == 1 and isinstance(s.targets[0], ast.Name)):
                raise Shape('%s: try body statement %s' % (self.name, ast.unparse(s)[:40]))
            assigned.append(s.targets[0].id)
        for x in assigned:
            reads_in = sum(1 for s in st.body for n in ast.walk(s) if isinstance(n, ast.Name) and n.id == x and isinstance(n.ctx, ast.Load))
            reads_all = sum(1 for n in ast.walk(self.fn) if isinstance(n, ast.Name) and n.id == x and isinstance(n.ctx, ast.Load))
            if reads_in != reads_all:
                raise Shape('%s: %s is assigned inside a try body and read outside it' % (self.name, x))
        last = st.body[-1]
        ok_last = (isinstance(last, ast.Assign) and len(last.targets) == 1 and isinstance(last.targets[0], ast.Name)) or \
                  (isinstance(last, ast.Expr) and isinstance(last.value, ast.Call) and isinstance(last.value.func, ast.Attribute)
                   and last.value.func.attr == 'pop')
        if not ok_last:
            raise Shape('%s: last statement of the try body: %s' % (self.name, ast.unparse(last)[:40]))
        out.append(ind + 'let r := (do')
        out.append(ind + '  let mut v := v')
        self.stmts(st.body, out, ind + '  ', False)
        out.append(ind + '  return v : %s _)' % self.M)
        out.append(ind + 'match r with')
        out.append(ind + '| .ok v\' => v := v\'')
        out.append(ind + '| .error (.fault "IndexError") =>')
        self.block(h.body, out, ind + '  ', inloop)
        out.append(ind + '| .error e => throw e')

    def loop(self, st, out, ind):
        has_break = bool(own_breaks(st))
        if st.orelse and not has_break:
            raise Shape('%s: for … else without break' % self.name)
        has_ret = self.ret_flag and any(isinstance(n, ast.Return) for n in ast.walk(st))
        it, tit = self.iter_ex(st.iter)
        if not (isinstance(tit, tuple) and tit[0] == 'List'):
            raise Shape('%s: iteration over a %s' % (self.name, ty(tit)))
        stored = {n.id for s in st.body for n in ast.walk(s) if isinstance(n, ast.Name) and isinstance(n.ctx, ast.Store)}
        mutated = {n.func.value.id for s in st.body for n in ast.walk(s)
                   if isinstance(n, ast.Call) and isinstance(n.func, ast.Attribute) and isinstance(n.func.value, ast.Name)
                   and n.func.attr in ('append', 'pop', 'add')}
        for n in ast.walk(st.iter):
            if isinstance(n, ast.Name) and (n.id in stored or n.id in mutated) and n.id not in self.loopvars:
                raise Shape('%s: the loop over %s changes it' % (self.name, ast.unparse(st.iter)))
        et = tit[1]
        self.nloops += 1
        k = self.nloops
        saved = dict(self.loopvars)
        binds = []
        def bind(target, code, t):
            if isinstance(target, ast.Name) and target.id != '_':
                self.loopvars[target.id] = t
                binds.append('let %s := %s' % (ident(target.id), code))
            elif isinstance(target, ast.Tuple) and len(target.elts) == 2 and isinstance(t, tuple) and t[0] == 'Prod':
                bind(target.elts[0], code + '.1', t[1])
                bind(target.elts[1], code + '.2', t[2])
            elif isinstance(target, ast.Tuple) and len(target.elts) == 2 and isinstance(t, tuple) and t[0] == 'List':
                tmp = code.replace('.', '_')                       # a list unpacked into two names: ValueError unless len 2
                binds.append('let %s ← Py.unpack2 %s' % (tmp, code))
                bind(target.elts[0], tmp + '.1', t[1])
                bind(target.elts[1], tmp + '.2', t[1])
            else:
                raise Shape('%s: loop target %s' % (self.name, ast.unparse(st.target)))
        if isinstance(st.target, ast.Name):
            if st.target.id == '_':
                arg = '_x'
            else:
                arg = ident(st.target.id)
                self.loopvars[st.target.id] = et
        elif isinstance(st.target, ast.Tuple) and len(st.target.elts) == 2 and isinstance(et, tuple) and et[0] == 'Prod':
            arg = 'x%d' % k
            bind(st.target, arg, et)
        else:
            raise Shape('%s: loop target %s' % (self.name, ast.unparse(st.target)))
        for n in self.loopvars:
            if n in self.locals and n not in saved:
                raise Shape('%s: %s is both a loop variable and a local' % (self.name, n))
        outer = [(ident(n), t) for n, t in saved.items()]
        sig = ' '.join('(%s : %s)' % (ident(p), ty(self.params[p])) for p in self.param_order)
        sig += ''.join(' (%s : %s)' % (n, ty(t)) for n, t in outer)
        rec_arg = ''
        if self.recursive:
            sig = '(recur : %s → %s (%s)) ' % (' → '.join(ty(t, False) for _, t in self.spec['params']), self.M, ty(self.spec['ret'])) + sig
            rec_arg = self.recur_code() + ' '
        body = ['def %s.loop%d %s (v : %s.Vars) (%s : %s) : %s %s.Vars := do' % (self.name, k, sig, self.name, arg, ty(et), self.M, self.name),
                '  let mut v := v']
        if has_ret:
            body.append('  if v.returned then return v      -- after return')
        if has_break:
            body.append('  if v.brk%d then return v      -- after break' % k)
            self.flags.append('brk%d' % k)
        body += ['  ' + b for b in binds]
        self.loop_stack.append(k if has_break else None)
        self.stmts(st.body, body, '  ', True)
        self.loop_stack.pop()
        body.append('  return v')
        self.loops.append('\n'.join(body))
        call = '%s.loop%d %s%s' % (self.name, k, rec_arg, ' '.join([ident(p) for p in self.param_order] + [n for n, _ in outer]))
        if has_break:
            out.append(ind + self.set_local('brk%d' % k, 'false'))
        out.append(ind + 'v ← List.foldlM (%s) v %s      -- for %s in %s' % (call, it, ast.unparse(st.target), ast.unparse(st.iter)))
        if has_ret:
            out.append(ind + ('if v.returned then return v' if self.loop_stack else 'if v.returned then return v.yielded'))
        if st.orelse:                                   # for … else: the else block runs iff the loop was not left by break
            if has_ret:
                raise Shape('%s: for … else in a loop with return' % self.name)
            out.append(ind + 'if !v.brk%d then      -- else: (of the for loop)' % k)
            self.block(st.orelse, out, ind + '  ', bool(self.loop_stack))
        # loop variables are not visible after the loop
        after = set(self.loopvars) - set(saved)
        self.loopvars = saved
        self.dead_after_loop = getattr(self, 'dead_after_loop', set()) | after

    def run(self):
        # loop variables must not be used outside their loop
        out = []
        body = list(self.fn.body)
        if self.nested_specs:
            # nested defs: statements of the body itself (not under if / for), each translated as a function of its own
            for d in [st for st in body if isinstance(st, ast.FunctionDef)]:
                body.remove(d)
                if d.name not in self.nested_specs or d.decorator_list:
                    raise Shape('%s: nested def %s has no typing stub' % (self.name, d.name))
                nspec = dict(self.nested_specs[d.name], name='%s.%s' % (self.name, d.name), path=self.spec['path'])
                if nspec.get('generator') is not None or nspec.get('recursive') or nspec.get('nested'):
                    raise Shape('%s: nested def %s: only plain functions' % (self.name, d.name))
                check_signature(d, nspec)
                definite_assignment(d, [q for q, _ in nspec['params']] + self.param_order + list(self.specs), nspec['name'])
                tx = FuncTx(nspec, d, parent=self, specs=self.specs)
                self.nested_text.append(tx.run())
                self.nested[d.name] = tx
            if set(self.nested) != set(self.nested_specs):
                raise Shape('%s: nested def(s) not found among the statements of the body: %s' % (self.name, sorted(set(self.nested_specs) - set(self.nested))))
            called = {id(n.func) for n in own_nodes(self.fn) if isinstance(n, ast.Call)}
            for n in self.nested:
                if n in self.locals or n in self.params:
                    raise Shape('%s: %s is both a nested def and a variable' % (self.name, n))
                if any(isinstance(m, ast.Name) and m.id == n and id(m) not in called for m in own_nodes(self.fn)):
                    raise Shape('%s: the nested def %s is used other than by calling it' % (self.name, n))
        if self.generator is not None:
            self.locals['yielded'] = L(self.generator)
            if self.ret_flag:
                self.locals['returned'] = BOOL
        def returns(blk):
            """every path through the block ends in `return <value>` or `raise`"""
            if not blk:
                return False
            last = blk[-1]
            if isinstance(last, ast.Return):
                return last.value is not None
            if isinstance(last, ast.Raise):
                return True
            if isinstance(last, ast.If):
                return returns(last.body) and returns(last.orelse)
            return False
        if self.generator is None and not returns(body):
            raise Shape('%s: the function can fall off its end (it would return None)' % self.name)
        self.stmts(body, out, self.ind0, False)
        if self.generator is not None and not (body and isinstance(body[-1], ast.Return)):
            out.append(self.ind0 + 'return v.yielded      -- end of the generator')
        for f in self.flags:
            self.locals[f] = BOOL
        missing = self.assume - set(self.assumed_found)
        if missing:
            raise Shape('%s: assertion(s) no longer present: %s' % (self.name, sorted(missing)))
        fields = '\n'.join('  %s : %s := default' % (ident(n), ty(t)) for n, t in self.locals.items())
        text = ['/-- local variables of `%s` -/' % self.name,
                'structure %s.Vars where\n%s' % (self.name, fields), '']
        text = self.nested_text + text
        text += [l + '\n' for l in self.loops]
        sig = ' '.join('(%s : %s)' % (ident(p), ty(self.params[p])) for p in self.param_order)
        init = ', '.join('%s := %s' % (ident(p), ident(p)) for p in self.rebound)
        if self.parent is not None:
            text.append('/-- the nested function `%s` (%s), statement by statement -/' % (self.name, self.spec['path']))
            text.append('def %s %s : %s (%s) := do' % (self.name, sig, self.M, ty(self.spec['ret'])))
        elif self.recursive:
            text.append('/-- `%s` (%s), statement by statement; `list(…)` of the generator, recursion depth bounded by `fuel` -/'
                        % (self.name, self.spec['path']) if self.generator is not None else
                        '/-- `%s` (%s), statement by statement; recursion depth bounded by `fuel` -/' % (self.name, self.spec['path']))
            text.append('def py_%s (fuel : Nat) %s : %s (%s) :=' % (lean_name(self.spec), sig, self.M, ty(self.spec['ret'])))
            text.append('  match fuel with')
            text.append('  | 0 => throw (Err.fault "RecursionError")')
            text.append('  | fuel + 1 => do')
        elif 'inst' in self.spec or self.spec.get('fuel'):
            note = []
            if 'inst' in self.spec:
                note.append('the typed instance `%s`' % self.spec['inst'])
            if self.fixed:
                note.append(', '.join('%s = %r' % kv for kv in self.fixed.items()))
            if self.generator is not None:
                note.append('`list(…)` of the generator')
            if self.spec.get('fuel'):
                note.append('`fuel` bounds the recursion depth of the functions it calls')
            text.append('/-- `%s` (%s), statement by statement; %s -/' % (self.spec['name'], self.spec['path'], '; '.join(note)))
            text.append('def py_%s %s%s : %s (%s) := do' % (lean_name(self.spec), '(fuel : Nat) ' if self.spec.get('fuel') else '', sig,
                                                            self.M, ty(self.spec['ret'])))
        else:
            text.append('/-- `%s` (%s), statement by statement -/' % (self.name, self.spec['path']))
            text.append('def py_%s %s : %s (%s) := do' % (self.spec.get('lean', self.name), sig, self.M, ty(self.spec['ret'])))
        text.append(self.ind0 + 'let mut v : %s.Vars := { %s }' % (self.name, init))
        text += out
        return '\n'.join(text) + '\n'


def definite_assignment(fn, params, name):
    """every read of a local is preceded by a write on every path (conservative: straight-line order within blocks,
    loop bodies may read what was written before the loop or earlier in the body)"""
    def walk(body, have):
        for st in body:
            if isinstance(st, ast.FunctionDef):             # a nested def is checked on its own (FuncTx.run); its name is bound
                have.add(st.name)
                continue
            if isinstance(st, ast.For):
                check(st.iter, have)
                inner = set(have) | {n.id for n in ast.walk(st.target) if isinstance(n, ast.Name)}
                walk(st.body, inner)
                continue
            if isinstance(st, ast.If):
                check(st.test, have)
                a, b = set(have), set(have)
                walk(st.body, a); walk(st.orelse, b)
                ends = lambda blk: blk and isinstance(blk[-1], (ast.Raise, ast.Continue, ast.Return, ast.Break))
                if ends(st.body) and ends(st.orelse): pass
                elif ends(st.body): have |= b
                elif ends(st.orelse): have |= a
                else: have |= (a & b)
                continue
            if isinstance(st, ast.Try):
                a = set(have); walk(st.body, a)
                for h in st.handlers:
                    b = set(have); walk(h.body, b)
                    if not (h.body and isinstance(h.body[-1], (ast.Raise, ast.Continue, ast.Return))):
                        a &= b
                have |= a
                continue
            if isinstance(st, (ast.Assign, ast.AugAssign)):
                check(st.value, have)
                tgs = st.targets if isinstance(st, ast.Assign) else [st.target]
                if isinstance(st, ast.AugAssign):
                    check(st.target, have, load_too=True)
                for t in tgs:
                    if isinstance(t, ast.Name):
                        have.add(t.id)
                    elif isinstance(t, ast.Tuple):
                        have |= {e.id for e in ast.walk(t) if isinstance(e, ast.Name)}
                    else:
                        check(t, have, load_too=True)
                continue
            check(st, have)
    def check(node, have, load_too=False):
        # names bound by a lambda / a comprehension are visible in its body only
        if isinstance(node, ast.Lambda):
            return check(node.body, set(have) | {a.arg for a in node.args.args}, load_too)
        if isinstance(node, (ast.ListComp, ast.GeneratorExp)):
            inner = set(have)
            for g in node.generators:
                check(g.iter, inner, load_too)
                inner |= {n.id for n in ast.walk(g.target) if isinstance(n, ast.Name)}
                for c in g.ifs:
                    check(c, inner, load_too)
            return check(node.elt, inner, load_too)
        if isinstance(node, ast.Name):
            if (isinstance(node.ctx, ast.Load) or load_too) and node.id not in have and node.id not in BUILTINS:
                raise Shape('%s: %s may be read before it is assigned' % (name, node.id))
            return
        for n in ast.iter_child_nodes(node):
            check(n, have, load_too)
    walk(fn.body, set(params))

BUILTINS = {'len', 'list', 'set', 'range', 'reversed', 'enumerate', 'IndexError', 'SecondaryStructureError', 'None', 'True', 'False',
            'map', 'chain', 'isinstance', 'groupby', 'reduce', 'zip', 'all', 'ConstraintError'}


def check_signature(fn, spec):
    """the parameters of the typing stub are the parameters of the definition (others must be unused by the body)"""
    declared = [a.arg for a in fn.args.args]
    want = [p for p, _ in spec['params']]
    if fn.args.vararg or fn.args.kwarg or fn.args.kwonlyargs or fn.args.posonlyargs:
        raise Shape('%s: parameter list shape' % spec['name'])
    for a in declared:
        if a not in want and any(isinstance(n, ast.Name) and n.id == a for n in ast.walk(ast.Module(body=fn.body, type_ignores=[]))):
            raise Shape('%s: parameter %s is used but not declared in the typing stub' % (spec['name'], a))
    if [a for a in declared if a in want] != want:
        raise Shape('%s: parameters changed: %s' % (spec['name'], declared))


FUNCS = [
    dict(path='dsdobjects/complex_utils.py', name='make_pair_table',
         params=[('ss', L(CHAR)), ('strand_break', CHAR), ('ignore', L(CHAR))],
         locals={'pair_table': L(L(O(LOC))), 'stack': L(LOC), 'strand_index': NAT, 'domain_index': NAT, 'loc': LOC},
         aliases={'strand': 'pair_table'},
         assume_asserts=['len(strand_break) == 1'],
         ret=L(L(O(LOC)))),
    dict(path='dsdobjects/complex_utils.py', name='pair_table_to_dot_bracket',
         params=[('pt', L(L(O(LOC)))), ('strand_break', CHAR), ('join', BOOL)],
         locals={'out': L(CHAR), 'locus': LOC},
         assume_asserts=['len(strand_break) == 1'],
         ret_override={'out if join else list(out)': 'v.out'},        # a str and the list of its characters are both `List Char`
         ret=L(CHAR)),
    dict(path='dsdobjects/complex_utils.py', name='make_loop_index',
         params=[('pt', L(L(O(LOC)))), ('components', BOOL)],
         locals={'loop_index': L(L(NAT)), 'exterior': L(NAT), 'myext': L(L(O(NAT))), 'stack': L(LOC), 'cl': NAT, 'nl': NAT,
                 'ext': L(O(NAT)), 'loc': LOC, 'ploc': LOC},
         sets=['exterior'],
         aliases={'loop': 'loop_index'},
         # the two result shapes are returned together; the caller picks by `components`
         ret_override={'(loop_index, exterior) if not components else (loop_index, myext)': '(v.loop_index, v.exterior, v.myext)'},
         # … which a translated caller does from the literal it passes for `components`
         ret_pick=('components', {False: ('(r.1, r.2.1)', P(L(L(NAT)), L(NAT))), True: ('(r.1, r.2.2)', P(L(L(NAT)), L(L(O(NAT)))))}),
         ret=P(L(L(NAT)), P(L(NAT), L(L(O(NAT)))))),
    dict(path='dsdobjects/complex_utils.py', name='rotate_complex_once',
         params=[('seq', L(STR)), ('sst', L(CHAR))],
         locals={'stack': L(NAT), 'p': NAT, 'nstr': L(CHAR)},
         ret=P(L(STR), L(CHAR))),
    # `list(split_complex_pt(stab, ptab))`.  `ext` is the `myext` of make_loop_index: a list of 2-element LISTS `[cl, cl']`
    # (hence Py.unpack2 for the loop target); `seen` is a dict whose keys are the entries of these lists (ints; `None` only as
    # far as the typing goes)
    dict(path='dsdobjects/complex_utils.py', name='split_complex_pt',
         params=[('stab', STAB), ('ptab', PTAB)],
         locals={'li': L(L(NAT)), 'ext': L(L(O(NAT))), 'seen': D(O(NAT), NAT), 'i': NAT,
                 'iss': STAB, 'ipt': PTAB, 'oss': STAB, 'opt': PTAB},
         nested={'splice': dict(params=[('i', NAT), ('j', NAT)],
                                locals={'innerss': STAB, 'innerpt': PTAB, 'outerss': STAB, 'outerpt': PTAB},
                                ret=P(PART, PART))},
         callees=['make_loop_index'],
         generator=PART, recursive=True,
         ret=L(PART)),
    # `wrap(x, m)` for a non-negative `x` (what its callers below pass; the docstring's negative `x` is outside the typing)
    dict(path='dsdobjects/complex_utils.py', name='wrap', lean='wrap_nat',      # Gen/PyExprs has the Int version `py_wrap`
         params=[('x', NAT), ('m', NAT)], locals={},
         ret=NAT),
    # `list(rotate_complex_pt(stab, ptab, turns))`; `turns` is an int or None
    dict(path='dsdobjects/complex_utils.py', name='rotate_complex_pt',
         params=[('stab', STAB), ('ptab', PTAB), ('turns', O(NAT))],
         locals={},
         nested={'rotate_locus': dict(params=[('x', O(LOC)), ('n', NAT)], locals={}, ret=O(LOC))},
         callees=['wrap'],
         generator=PART, recursive=True,
         ret=L(PART)),
    # ---- the rest of complex_utils.py ------------------------------------------------------------------------------
    # make_strand_table on a Python list of domain names (`isinstance(seq, list)` is True): the groupby branch.
    # `strand_break` is a name like the others (a str of any length), so the assertion on its length is a real check.
    dict(path='dsdobjects/complex_utils.py', name='make_strand_table', inst='make_strand_table_list',
         params=[('seq', L(STR)), ('strand_break', STR)], locals={}, pylists=['seq'],
         ret=STAB),
    # make_strand_table on a str (`isinstance(seq, list)` is False): the `.split` branch; a strand is the list of its
    # one-character strs
    dict(path='dsdobjects/complex_utils.py', name='make_strand_table', inst='make_strand_table_str',
         params=[('seq', TEXT), ('strand_break', CHAR)], locals={},
         assume_asserts=['len(strand_break) == 1'],
         ret=L(L(CHAR))),
    # strand_table_to_sequence(st, strand_break, join=False) on a table of names: the `reduce` branch, a list of names
    dict(path='dsdobjects/complex_utils.py', name='strand_table_to_sequence', inst='strand_table_to_sequence_list',
         params=[('st', STAB), ('strand_break', STR), ('join', BOOL)], fixed={'join': False}, locals={},
         ret=L(STR)),
    # strand_table_to_sequence(st, strand_break, join=True) on a table of one-character names: the `str.join` branch, a str
    dict(path='dsdobjects/complex_utils.py', name='strand_table_to_sequence', inst='strand_table_to_sequence_str',
         params=[('st', L(L(CHAR))), ('strand_break', CHAR), ('join', BOOL)], fixed={'join': True}, locals={},
         ret=TEXT),
    # `list(split_complex_db(seq, sst, join=False))` for a list of names and a structure (str or list of characters)
    dict(path='dsdobjects/complex_utils.py', name='split_complex_db',
         params=[('seq', L(STR)), ('sst', L(CHAR)), ('join', BOOL)], fixed={'join': False},
         locals={'stab': STAB, 'ptab': PTAB, 'nseq': L(STR), 'nsst': L(CHAR)},
         callees=[('make_strand_table', 'make_strand_table_list'), 'make_pair_table', 'split_complex_pt',
                  ('strand_table_to_sequence', 'strand_table_to_sequence_list'), 'pair_table_to_dot_bracket'],
         generator=P(L(STR), L(CHAR)), fuel=True,
         ret=L(P(L(STR), L(CHAR)))),
    # `list(rotate_complex_db(seq, sst, turns, join=False))`
    dict(path='dsdobjects/complex_utils.py', name='rotate_complex_db',
         params=[('seq', L(STR)), ('sst', L(CHAR)), ('turns', O(NAT)), ('join', BOOL)], fixed={'join': False},
         locals={'stab': STAB, 'ptab': PTAB, 'nseq': L(STR), 'nsst': L(CHAR)},
         callees=[('make_strand_table', 'make_strand_table_list'), 'make_pair_table', 'rotate_complex_pt',
                  ('strand_table_to_sequence', 'strand_table_to_sequence_list'), 'pair_table_to_dot_bracket'],
         generator=P(L(STR), L(CHAR)), fuel=True,
         ret=L(P(L(STR), L(CHAR)))),
]

# ---- dsdobjects/iupac_utils.py: the sequence-level functions ----------------------------------------------------------
# the module-level tables are regenerated from the source as Lean data by translator/gen.py (Gen/IupacTables.lean); a global
# name is read as that constant (same name), after checking that the module binds it exactly once, to a display with
# pairwise different constant keys (so that first-match look-up in the item list is `d[k]`), and never touches it again
IUPAC = 'dsdobjects/iupac_utils.py'
IUPAC_TABLES = {n: (n, D(CHAR, CHAR)) for n in ('wc_complement_dna', 'wc_complement_rna', 'wobble_complement_dna', 'wobble_complement_rna')}
IUPAC_TABLES.update({'iupac_bin': ('iupac_bin', D(CHAR, NAT)), 'bin_iupac_dna': ('bin_iupac_dna', L(STR)), 'bin_iupac_rna': ('bin_iupac_rna', L(STR))})
IUPAC_EXC = {'ConstraintError': '(Err.fault "ConstraintError")'}      # `Err` has no constructor of its own for it
IUPAC_FUNCS = [
    dict(path=IUPAC, name=n, params=[('sequence', TEXT), ('material', STR)], locals={}, globals=IUPAC_TABLES, exc=IUPAC_EXC, ret=TEXT)
    for n in ('complement', 'wc_complement', 'reverse_complement', 'reverse_wc_complement')
] + [
    dict(path=IUPAC, name='add_constraints', params=[('seq1', TEXT), ('seq2', TEXT), ('material', STR)], locals={'con': TEXT},
         globals=IUPAC_TABLES, exc=IUPAC_EXC, ret=TEXT),
]


def imported_from(tree, name, module):
    """`name` is bound exactly once at module level, by `from <module> import … name …`"""
    binders = []
    for n in tree.body:
        if isinstance(n, ast.ImportFrom):
            binders += [(n.module, a.name) for a in n.names if (a.asname or a.name) == name]
        elif isinstance(n, ast.Import):
            binders += [(None, a.name) for a in n.names if (a.asname or a.name.split('.')[0]) == name]
        elif isinstance(n, (ast.FunctionDef, ast.ClassDef)) and n.name == name:
            binders.append((None, 'def'))
        elif isinstance(n, (ast.Assign, ast.AugAssign, ast.AnnAssign, ast.For, ast.With)):
            binders += [(None, 'assign') for m in ast.walk(n) if isinstance(m, ast.Name) and isinstance(m.ctx, ast.Store) and m.id == name]
    return binders == [(module, name)]


def imports_chain(tree):
    """`chain` is bound exactly once at module level, by `from itertools import … chain …`"""
    return imported_from(tree, 'chain', 'itertools')


def builtins_unshadowed(tree, names):
    """none of the built-in names the translation rules give a meaning to is bound at module level"""
    for n in ast.walk(tree):
        bound = None
        if isinstance(n, ast.Name) and isinstance(n.ctx, (ast.Store, ast.Del)):
            bound = n.id
        elif isinstance(n, (ast.FunctionDef, ast.ClassDef)):
            bound = n.name
        elif isinstance(n, ast.alias):
            bound = (n.asname or n.name).split('.')[0]
        elif isinstance(n, ast.arg):
            bound = n.arg
        if bound in names:
            raise Shape('the built-in name %s is bound in the module' % bound)


def check_constant_table(tree, name):
    """the module-level name `name` is bound exactly once, by a plain assignment of a dict display with pairwise different
    constant keys or of a list display of constants, and every other occurrence reads an item of it (`name[…]`)"""
    stores = [n for n in ast.walk(tree) if isinstance(n, ast.Name) and n.id == name and isinstance(n.ctx, (ast.Store, ast.Del))]
    asg = [n for n in tree.body if isinstance(n, ast.Assign) and len(n.targets) == 1 and isinstance(n.targets[0], ast.Name)
           and n.targets[0].id == name]
    if len(stores) != 1 or len(asg) != 1:
        raise Shape('the table %s is not bound exactly once at module level' % name)
    v = asg[0].value
    if isinstance(v, ast.Dict):
        if not all(isinstance(k, ast.Constant) for k in v.keys) or len({k.value for k in v.keys}) != len(v.keys):
            raise Shape('the table %s has repeated or non-constant keys' % name)
    elif not (isinstance(v, ast.List) and all(isinstance(e, ast.Constant) for e in v.elts)):
        raise Shape('the table %s is not a display of constants' % name)
    reads = {id(n.value) for n in ast.walk(tree) if isinstance(n, ast.Subscript) and isinstance(n.ctx, ast.Load)
             and isinstance(n.value, ast.Name) and n.value.id == name}
    for n in ast.walk(tree):
        if isinstance(n, ast.Name) and n.id == name and isinstance(n.ctx, ast.Load) and id(n) not in reads:
            raise Shape('the table %s is used other than by reading an item' % name)
        if isinstance(n, (ast.Global, ast.Nonlocal)) and name in n.names:
            raise Shape('the table %s is declared global' % name)
        if isinstance(n, (ast.arg,)) and n.arg == name or isinstance(n, (ast.FunctionDef, ast.ClassDef)) and n.name == name:
            raise Shape('the table name %s is bound again' % name)


def find_function(tree, name):
    c = [n for n in tree.body if isinstance(n, ast.FunctionDef) and n.name == name]
    if len(c) != 1:
        raise Shape('function %s not found exactly once' % name)
    return c[0]


def translate(repo, funcs, out, want_done=False):
    """translate the functions of the typing stubs `funcs` in order, appending the Lean text to `out`"""
    summary = {}
    trees = {}
    done = {}
    for spec in funcs:
        if spec['path'] not in trees:
            trees[spec['path']] = ast.parse(open(os.path.join(repo, spec['path'])).read())
        tree = trees[spec['path']]
        fn = find_function(tree, spec['name'])
        key = spec.get('inst', spec['name'])
        want = [p for p, _ in spec['params']]
        # parameters the stub does not list must be unused by the body (e.g. `turns` of rotate_complex_once)
        check_signature(fn, spec)
        callees = {}
        for c in spec.get('callees', ()):
            cname, ckey = (c, c) if isinstance(c, str) else c    # (Python name, typed instance)
            if ckey not in done or done[ckey]['name'] != cname:
                raise Shape('%s: the callee %s is not translated before it' % (spec['name'], ckey))
            find_function(tree, cname)                          # … and is the module-level function of that name
            callees[cname] = done[ckey]
        for g in spec.get('globals', ()):
            check_constant_table(tree, g)
        if 'inst' in spec or spec.get('globals') or spec.get('fuel'):
            builtins_unshadowed(tree, {'isinstance', 'list', 'zip', 'all', 'len', 'reversed', 'set'})
        for exc in spec.get('exc', {}):
            if not any(isinstance(n, ast.ClassDef) and n.name == exc for n in tree.body):
                raise Shape('%s: the exception class %s is not defined in the module' % (spec['name'], exc))
        spec = dict(spec, chain_is_itertools=imports_chain(tree), groupby_is_itertools=imported_from(tree, 'groupby', 'itertools'),
                    reduce_is_functools=imported_from(tree, 'reduce', 'functools'), _fn=fn)
        definite_assignment(fn, want + list(callees) + list(spec.get('globals', ())) + ([spec['name']] if spec.get('recursive') else []),
                            spec['name'])
        tx = FuncTx(spec, fn, specs=callees)
        out.append(tx.run())
        done[key] = spec
        summary[key] = {'statements': sum(1 for _ in ast.walk(fn) if isinstance(_, ast.stmt)) - 1,
                        'loops': tx.nloops, 'source_lines': (fn.end_lineno - fn.lineno + 1)}
    if want_done:
        return summary, done
    return summary


def gen_pyfuncs(repo):
    out = ['/- GENERATED by translator/pyfunc.py from the Python source — do not edit. -/',
           'import DsdVerif.Model.PyPrelude', '', 'set_option linter.unusedVariables false', '', 'namespace Dsd.Gen', 'open Dsd', '']
    summary = translate(repo, FUNCS, out)
    out.append('end Dsd.Gen')
    return '\n'.join(out) + '\n', summary


def gen_pyiupac(repo):
    """`Gen/PyIupac.lean`: the sequence-level functions of dsdobjects/iupac_utils.py over the regenerated tables"""
    out = ['/- GENERATED by translator/pyfunc.py from the Python source — do not edit. -/',
           'import DsdVerif.Model.PyPrelude', 'import DsdVerif.Gen.IupacTables', '', 'set_option linter.unusedVariables false', '',
           'namespace Dsd.Gen', 'open Dsd', '']
    summary = translate(repo, IUPAC_FUNCS, out)
    out.append('end Dsd.Gen')
    return '\n'.join(out) + '\n', summary


if __name__ == '__main__':
    text, summ = (gen_pyiupac if len(sys.argv) > 2 and sys.argv[2] == 'iupac' else gen_pyfuncs)(sys.argv[1])
    sys.stdout.write(text)
    sys.stderr.write(repr(summ) + '\n')
