#!/usr/bin/env python3
"""Statement-level translation of small imperative Python functions into Lean 4 (`Gen/PyFuncs.lean`).

The loop algorithms of dsdobjects/complex_utils.py are transcribed STATEMENT BY STATEMENT from the source text of the
working tree.  Nothing about what the functions are supposed to compute is known here; if a statement does not have one of
the shapes below, `Shape` is raised and the tie is reported as broken (never skipped silently).

Reading of Python that this translator (together with Model/PyPrelude.lean) implements - the trusted part:

  values      immutable Lean values; `list` -> `List`, `None`-able -> `Option`, 2-tuples -> `×`, non-negative `int` -> `Nat`
              (subtraction is refused on `Nat`), one-character `str` -> `Char`, `str` iterated as characters -> `List Char`,
              a `set` of ints -> the list of its elements in insertion order (`in`, `add` only)
  typing      every parameter and local has a declared Lean type (FUNCS below = a typing stub); Lean's elaborator checks it
  locals      one structure `<f>.Vars`, a field per local; reads are `v.x`, writes are structure updates; a local that is read
              before it is written would be an UnboundLocalError in Python and is the field's `default` here (never happens in
              accepted shapes: checked by the definite-assignment pass)
  for         `for x in e: body` -> `List.foldlM (<f>.loopK … ) v e` with the body as a separate step function
              `Vars -> x -> Except Err Vars`; `continue` -> `return v`; no `break`, no `return` inside loops, no `else:`;
              the iterated value may not be assigned in the body (the fold reads it once, like Python's iterator over an
              unmodified list)
  exceptions  `raise E(...)` -> `throw <Err for E>` (messages dropped); `assert c` -> `throw Err.assertion` unless `c`;
              `l[i]`, `l[-1]`, `l.pop()`, `l[i] = x`, `l.index(x)` raise IndexError / ValueError as in Python (Py.idx …);
              using a `None`-able value where a tuple is needed raises TypeError (Py.unwrap)
  try         `try: S1 … Sn except IndexError: H`: the body runs on a snapshot; this equals Python's semantics because the
              translator checks that every variable assigned by S1 … S(n-1) is local to the try body (all its reads are in the
              body, after the assignment) and that Sn is the only other assignment
  mutation    a list may be mutated in place only while it is *fresh* (created in this activation and not yet stored in
              another list); parameters are never mutated.  `x = []; c.append(x)` (adjacent) makes `x` an alias of `c[-1]`
              for declared alias pairs: later `x.append(e)` is `Py.appendLast c e`; `c` may change its length only there.
  evaluation  left to right; fallible sub-expressions are lifted with `(← …)` to the statement, so they may not occur under
              `and` / `or` / a conditional expression (refused); `elif` is emitted as a nested block
"""
import ast, os, sys

class Shape(Exception):
    pass

NAT, CHAR, STR, BOOL = 'Nat', 'Char', 'String', 'Bool'
def L(t): return ('List', t)
def O(t): return ('Option', t)
def P(a, b): return ('Prod', a, b)
LOC = P(NAT, NAT)

def ty(t, top=True):
    if isinstance(t, str):
        return t
    if t[0] == 'List':
        s = 'List ' + ty(t[1], False)
    elif t[0] == 'Option':
        s = 'Option ' + ty(t[1], False)
    else:
        s = ty(t[1], False) + ' × ' + ty(t[2], False)
    return s if top else '(' + s + ')'

KEYWORDS = {'at', 'from', 'end', 'open', 'in', 'fun', 'do', 'then', 'else', 'if', 'let', 'have', 'show', 'by', 'where', 'with',
            'match', 'to', 'for', 'local', 'section', 'namespace', 'def', 'theorem', 'instance', 'class', 'structure', 'mut'}
def ident(n):
    return '«%s»' % n if n in KEYWORDS else n

EXC = {'SecondaryStructureError': 'Err.secondaryStructure'}


class FuncTx:
    def __init__(self, spec, fn):
        self.spec, self.fn = spec, fn
        self.name = spec['name']
        self.params = dict(spec['params'])
        self.param_order = [p for p, _ in spec['params']]
        self.locals = dict(spec['locals'])
        self.sets = set(spec.get('sets', ()))
        self.aliases = dict(spec.get('aliases', {}))          # X -> container Y
        self.assume = set(spec.get('assume_asserts', ()))
        self.ret_override = dict(spec.get('ret_override', {}))
        self.loopvars = {}                                      # name -> type (current nesting)
        self.loops = []                                         # emitted loop functions (text)
        self.nloops = 0
        self.assumed_found = []
        # parameters that the body rebinds become locals initialised from the parameter
        self.rebound = []
        for node in ast.walk(fn):
            if isinstance(node, (ast.Assign, ast.AugAssign)):
                for t in (node.targets if isinstance(node, ast.Assign) else [node.target]):
                    for n in ast.walk(t):
                        if isinstance(n, ast.Name) and isinstance(n.ctx, ast.Store) and n.id in self.params and n.id not in self.rebound:
                            self.rebound.append(n.id)
        for p in self.rebound:
            self.locals[p] = self.params[p]

    # ---- names -------------------------------------------------------------------------------------------------
    def var(self, n):
        if n in self.loopvars:
            return ident(n), self.loopvars[n]
        if n in self.locals:
            return 'v.' + ident(n), self.locals[n]
        if n in self.params:
            return ident(n), self.params[n]
        raise Shape('%s: name %r has no declared type' % (self.name, n))

    # ---- expressions -------------------------------------------------------------------------------------------
    def lit(self, node, expect):
        v = node.value
        if v is None:
            return 'none', expect if expect and expect[0] == 'Option' else ('Option', '?')
        if isinstance(v, bool):
            return ('true' if v else 'false'), BOOL
        if isinstance(v, int):
            if v < 0:
                raise Shape('negative literal')
            return str(v), NAT
        if isinstance(v, str):
            if expect == CHAR and len(v) == 1:
                return "'%s'" % ({"'": "\\'", '\\': '\\\\'}.get(v, v)), CHAR
            if expect == STR:
                return '"%s"' % v.replace('\\', '\\\\').replace('"', '\\"'), STR
            if expect == L(CHAR):
                return '[' + ', '.join("'%s'" % c for c in v) + ']', L(CHAR)
            raise Shape('%s: cannot type the string literal %r (expected %s)' % (self.name, v, expect))
        raise Shape('literal ' + repr(v))

    def pure(self, code):
        if '←' in code:
            raise Shape('%s: a fallible sub-expression under and / or / a conditional expression: %s' % (self.name, code))
        return code

    def truthy(self, node):
        """translate `node` used as a condition"""
        if isinstance(node, ast.BoolOp):
            op = ' && ' if isinstance(node.op, ast.And) else ' || '
            return '(' + op.join(self.pure(self.truthy(x)) for x in node.values) + ')'
        if isinstance(node, ast.UnaryOp) and isinstance(node.op, ast.Not):
            return '(!' + self.truthy(node.operand) + ')'
        c, t = self.ex(node)
        if t == BOOL:
            return c
        if isinstance(t, tuple) and t[0] == 'List':
            return '(!(%s).isEmpty)' % c
        if isinstance(t, tuple) and t[0] == 'Option' and isinstance(t[1], tuple) and t[1][0] == 'Prod':
            return '(%s).isSome' % c                 # None is false, a 2-tuple is true
        raise Shape('%s: truth value of a %s' % (self.name, ty(t)))

    def need(self, code, t, want):
        """coerce an expression of type t to `want` where Python would do so implicitly or raise"""
        if t == want:
            return code
        if isinstance(t, tuple) and t[0] == 'Option' and t[1] == want:
            return '(← Py.unwrap %s)' % code
        if isinstance(want, tuple) and want[0] == 'Option' and want[1] == t:
            return '(some %s)' % code
        if isinstance(t, tuple) and t[0] == 'Option' and t[1] == '?' and isinstance(want, tuple) and want[0] == 'Option':
            return code
        raise Shape('%s: a %s where a %s is needed: %s' % (self.name, ty(t), ty(want), code))

    def ex(self, node, expect=None):
        if isinstance(node, ast.Constant):
            return self.lit(node, expect)
        if isinstance(node, ast.Name):
            return self.var(node.id)
        if isinstance(node, ast.Tuple) and len(node.elts) == 2:
            ea = expect[1] if expect and expect[0] == 'Prod' else None
            eb = expect[2] if expect and expect[0] == 'Prod' else None
            (a, ta), (b, tb) = self.ex(node.elts[0], ea), self.ex(node.elts[1], eb)
            return '(%s, %s)' % (a, b), P(ta, tb)
        if isinstance(node, ast.List):
            et = expect[1] if expect and expect[0] == 'List' else None
            items = [self.ex(e, et) for e in node.elts]
            if not items:
                if et is None:
                    raise Shape('%s: cannot type []' % self.name)
                return '[]', L(et)
            if et is None:
                et = items[0][1]
            return '[' + ', '.join(self.need(c, t, et) for c, t in items) + ']', L(et)
        if isinstance(node, ast.BinOp):
            if isinstance(node.op, ast.Add):
                a, ta = self.ex(node.left, expect)
                b, tb = self.ex(node.right, ta)
                if ta == NAT and tb == NAT:
                    return '(%s + %s)' % (a, b), NAT
                if isinstance(ta, tuple) and ta[0] == 'List' and tb == ta:
                    return '(%s ++ %s)' % (a, b), ta
                raise Shape('%s: + on %s and %s' % (self.name, ty(ta), ty(tb)))
            raise Shape('%s: operator %s' % (self.name, type(node.op).__name__))
        if isinstance(node, ast.UnaryOp) and isinstance(node.op, ast.Not):
            return '(!' + self.truthy(node.operand) + ')', BOOL
        if isinstance(node, ast.BoolOp):
            return self.truthy(node), BOOL
        if isinstance(node, ast.Compare) and len(node.ops) == 1:
            op, l, r = node.ops[0], node.left, node.comparators[0]
            if isinstance(op, (ast.Is, ast.IsNot)) and isinstance(r, ast.Constant) and r.value is None:
                a, ta = self.ex(l)
                if not (isinstance(ta, tuple) and ta[0] == 'Option'):
                    raise Shape('%s: `is None` on a %s' % (self.name, ty(ta)))
                return ('(%s).isNone' if isinstance(op, ast.Is) else '(%s).isSome') % a, BOOL
            if isinstance(op, (ast.Is, ast.IsNot)) and isinstance(r, ast.Constant) and isinstance(r.value, bool):
                a, ta = self.ex(l)
                if ta != BOOL:
                    raise Shape('%s: `is %s` on a %s' % (self.name, r.value, ty(ta)))
                return '(%s %s %s)' % (a, '==' if isinstance(op, ast.Is) else '!=', 'true' if r.value else 'false'), BOOL
            if isinstance(op, (ast.In, ast.NotIn)):
                if isinstance(r, ast.Call) and isinstance(r.func, ast.Name) and r.func.id == 'set' and len(r.args) == 1:
                    r = r.args[0]                                  # `x in set(l)` is `x in l`
                b, tb = self.ex(r)
                if not (isinstance(tb, tuple) and tb[0] == 'List'):
                    raise Shape('%s: `in` on a %s' % (self.name, ty(tb)))
                a, ta = self.ex(l, tb[1])
                a = self.need(a, ta, tb[1])
                c = '(%s).contains %s' % (b, a)
                return ('(%s)' % c if isinstance(op, ast.In) else '(!(%s))' % c), BOOL
            if isinstance(l, ast.Constant) and not isinstance(r, ast.Constant):
                b, tb = self.ex(r)
                a, ta = self.ex(l, tb)
            else:
                a, ta = self.ex(l)
                b, tb = self.ex(r, ta)
            if isinstance(op, (ast.Eq, ast.NotEq)):
                if ta != tb:
                    raise Shape('%s: == on %s and %s' % (self.name, ty(ta), ty(tb)))
                return '(%s %s %s)' % (a, '==' if isinstance(op, ast.Eq) else '!=', b), BOOL
            sym = {ast.Lt: '<', ast.Gt: '>', ast.LtE: '≤', ast.GtE: '≥'}.get(type(op))
            if sym is None:
                raise Shape('%s: comparison %s' % (self.name, type(op).__name__))
            if ta == NAT and tb == NAT:
                return '(decide (%s %s %s))' % (a, sym, b), BOOL
            # tuples of two ints (a None-able side raises TypeError)
            if sym == '<':
                a2, b2 = self.need(a, ta, LOC), self.need(b, tb, LOC)
                return '(Py.tupleLt %s %s)' % (a2, b2), BOOL
            raise Shape('%s: %s on %s and %s' % (self.name, sym, ty(ta), ty(tb)))
        if isinstance(node, ast.Subscript):
            base, tb = self.ex(node.value)
            sl = node.slice
            if isinstance(sl, ast.Slice):
                if sl.step is not None or not (isinstance(tb, tuple) and tb[0] == 'List'):
                    raise Shape('%s: slice shape' % self.name)
                c = base
                if sl.upper is not None:
                    u, tu = self.ex(sl.upper)
                    if tu != NAT: raise Shape('slice bound')
                    c = '(List.take %s %s)' % (u, c)
                if sl.lower is not None:
                    lo, tl = self.ex(sl.lower)
                    if tl != NAT: raise Shape('slice bound')
                    c = '(List.drop %s %s)' % (lo, c)
                return c, tb
            if isinstance(tb, tuple) and tb[0] == 'Option' and isinstance(tb[1], tuple) and tb[1][0] == 'Prod':
                base, tb = '(← Py.unwrap %s)' % base, tb[1]
            if isinstance(tb, tuple) and tb[0] == 'Prod':
                if isinstance(sl, ast.Constant) and sl.value in (0, 1):
                    return '%s.%d' % (base, sl.value + 1), tb[1 + sl.value]
                raise Shape('%s: tuple subscript' % self.name)
            if isinstance(tb, tuple) and tb[0] == 'List':
                if isinstance(sl, ast.UnaryOp) and isinstance(sl.op, ast.USub) and isinstance(sl.operand, ast.Constant) and sl.operand.value == 1:
                    return '(← Py.last %s)' % base, tb[1]
                i, ti = self.ex(sl)
                if ti != NAT:
                    raise Shape('%s: index of type %s' % (self.name, ty(ti)))
                return '(← Py.idx %s %s)' % (base, i), tb[1]
            raise Shape('%s: subscript of a %s' % (self.name, ty(tb)))
        if isinstance(node, ast.Call) and not node.keywords:
            f = node.func
            if isinstance(f, ast.Name):
                if f.id == 'len' and len(node.args) == 1:
                    a, ta = self.ex(node.args[0])
                    if not (isinstance(ta, tuple) and ta[0] == 'List'): raise Shape('len of ' + ty(ta))
                    return '(%s).length' % a, NAT
                if f.id == 'list' and len(node.args) == 1:
                    a, ta = self.ex(node.args[0])
                    if not (isinstance(ta, tuple) and ta[0] == 'List'): raise Shape('list() of ' + ty(ta))
                    return a, ta                                   # a copy; values are immutable here
                if f.id == 'enumerate' and len(node.args) == 1:
                    a, ta = self.ex(node.args[0])
                    return '(Py.enumerate %s)' % a, L(P(NAT, ta[1]))
                if f.id == 'range' and len(node.args) in (1, 2):
                    args = [self.ex(x) for x in node.args]
                    if any(t != NAT for _, t in args): raise Shape('range of non-Nat')
                    if len(args) == 1:
                        return '(List.range %s)' % args[0][0], L(NAT)
                    return '(Py.range2 %s %s)' % (args[0][0], args[1][0]), L(NAT)
                if f.id == 'reversed' and len(node.args) == 1:
                    a, ta = self.ex(node.args[0])
                    return '(List.reverse %s)' % a, ta
                if f.id == 'set' and len(node.args) == 0:
                    if not (expect and expect[0] == 'List'): raise Shape('cannot type set()')
                    return '[]', expect
            if isinstance(f, ast.Attribute) and isinstance(f.value, ast.Name):
                if f.attr == 'index' and len(node.args) == 1:
                    a, ta = self.ex(f.value)
                    x, tx = self.ex(node.args[0], ta[1])
                    return '(← Py.index %s %s)' % (a, self.need(x, tx, ta[1])), NAT
        raise Shape('%s: unsupported expression: %s' % (self.name, ast.unparse(node)[:80]))

    # ---- statements --------------------------------------------------------------------------------------------
    def set_local(self, n, code):
        return 'v := { v with %s := %s }' % (ident(n), code)

    def assign_name(self, n, value, out, ind):
        if n in self.loopvars:
            raise Shape('%s: assignment to the loop variable %s' % (self.name, n))
        if n not in self.locals:
            raise Shape('%s: local %r has no declared type' % (self.name, n))
        t = self.locals[n]
        c, tc = self.ex(value, t)
        out.append(ind + self.set_local(n, self.need(c, tc, t)))

    def stmts(self, body, out, ind, inloop):
        i = 0
        while i < len(body):
            st = body[i]
            nxt = body[i + 1] if i + 1 < len(body) else None
            # alias creation: X = [] ; Y.append(X)
            if (isinstance(st, ast.Assign) and len(st.targets) == 1 and isinstance(st.targets[0], ast.Name)
                    and st.targets[0].id in self.aliases):
                x = st.targets[0].id
                y = self.aliases[x]
                ok = (isinstance(st.value, ast.List) and not st.value.elts and isinstance(nxt, ast.Expr)
                      and isinstance(nxt.value, ast.Call) and isinstance(nxt.value.func, ast.Attribute)
                      and nxt.value.func.attr == 'append' and isinstance(nxt.value.func.value, ast.Name)
                      and nxt.value.func.value.id == y and len(nxt.value.args) == 1
                      and isinstance(nxt.value.args[0], ast.Name) and nxt.value.args[0].id == x)
                if not ok:
                    raise Shape('%s: %s is no longer created as `%s = []; %s.append(%s)`' % (self.name, x, x, y, x))
                out.append(ind + self.set_local(y, '(v.%s ++ [[]])' % ident(y)) + '      -- %s = []; %s.append(%s)' % (x, y, x))
                i += 2
                continue
            self.stmt(st, out, ind, inloop)
            i += 1

    def stmt(self, st, out, ind, inloop):
        if isinstance(st, ast.Expr) and isinstance(st.value, ast.Constant) and isinstance(st.value.value, str):
            return                                                                    # docstring
        if isinstance(st, ast.Pass):
            out.append(ind + 'pure ()')
            return
        if isinstance(st, ast.Assert):
            txt = ast.unparse(st.test)
            if txt in self.assume:
                self.assumed_found.append(txt)
                out.append(ind + '-- assert %s   (holds by typing)' % txt)
                return
            out.append(ind + 'if !%s then throw Err.assertion' % self.truthy(st.test))
            return
        if isinstance(st, ast.Raise):
            exc = st.exc
            nm = exc.func.id if isinstance(exc, ast.Call) and isinstance(exc.func, ast.Name) else (exc.id if isinstance(exc, ast.Name) else None)
            if nm not in EXC:
                raise Shape('%s: raise of %s' % (self.name, ast.unparse(exc)[:40]))
            out.append(ind + 'throw %s' % EXC[nm])
            return
        if isinstance(st, ast.Continue):
            if not inloop:
                raise Shape('continue outside a loop')
            out.append(ind + 'return v      -- continue')
            return
        if isinstance(st, ast.Return):
            if inloop:
                raise Shape('%s: return inside a loop' % self.name)
            txt = ast.unparse(st.value)
            if txt in self.ret_override:
                out.append(ind + 'return %s      -- return %s' % (self.ret_override[txt], txt))
            elif self.ret_override:
                raise Shape('%s: the return expression changed: %s' % (self.name, txt))
            else:
                c, tc = self.ex(st.value, self.spec['ret'])
                out.append(ind + 'return %s' % self.need(c, tc, self.spec['ret']))
            return
        if isinstance(st, ast.Assign) and len(st.targets) == 1:
            tg = st.targets[0]
            if isinstance(tg, ast.Name):
                if tg.id == '_':                                            # `_ = stack.pop()`
                    return self.stmt(ast.Expr(value=st.value), out, ind, inloop)
                if isinstance(st.value, ast.Call) and isinstance(st.value.func, ast.Attribute) and st.value.func.attr == 'pop' \
                        and not st.value.args and isinstance(st.value.func.value, ast.Name):
                    s = st.value.func.value.id
                    self.mutable(s)
                    out.append(ind + 'let pp ← Py.pop v.%s' % ident(s))
                    out.append(ind + 'v := { v with %s := pp.1, %s := pp.2 }' % (ident(tg.id), ident(s)))
                    return
                return self.assign_name(tg.id, st.value, out, ind)
            if isinstance(tg, ast.Tuple) and isinstance(st.value, ast.Tuple) and len(tg.elts) == len(st.value.elts) \
                    and all(isinstance(e, ast.Name) for e in tg.elts):
                names = {e.id for e in tg.elts}
                if any(isinstance(n, ast.Name) and n.id in names for e in st.value.elts for n in ast.walk(e)):
                    raise Shape('%s: simultaneous assignment that reads its targets' % self.name)
                for e, val in zip(tg.elts, st.value.elts):
                    self.assign_name(e.id, val, out, ind)
                return
            if isinstance(tg, ast.Subscript):
                # X[i] = e   |   X[i][j] = e
                if isinstance(tg.value, ast.Name):
                    x = tg.value.id
                    self.mutable(x)
                    cx, tx = self.var(x)
                    i, ti = self.ex(tg.slice)
                    e, te = self.ex(st.value, tx[1])
                    out.append(ind + 'let t ← Py.setIdx %s %s %s' % (cx, i, self.need(e, te, tx[1])))
                    out.append(ind + self.set_local(x, 't'))
                    return
                if isinstance(tg.value, ast.Subscript) and isinstance(tg.value.value, ast.Name):
                    x = tg.value.value.id
                    self.mutable(x)
                    cx, tx = self.var(x)
                    i, ti = self.ex(tg.value.slice)
                    j, tj = self.ex(tg.slice)
                    e, te = self.ex(st.value, tx[1][1])
                    out.append(ind + 'let t ← Py.setIdx2 %s %s %s %s' % (cx, i, j, self.need(e, te, tx[1][1])))
                    out.append(ind + self.set_local(x, 't'))
                    return
            raise Shape('%s: assignment shape: %s' % (self.name, ast.unparse(st)[:60]))
        if isinstance(st, ast.AugAssign) and isinstance(st.op, ast.Add) and isinstance(st.target, ast.Name):
            n = st.target.id
            c, t = self.var(n)
            if n not in self.locals:
                raise Shape('augmented assignment to ' + n)
            if t == NAT:
                e, te = self.ex(st.value, NAT)
                if te != NAT: raise Shape('+= of a %s to a Nat' % ty(te))
                out.append(ind + self.set_local(n, '(%s + %s)' % (c, e)))
                return
            if t == L(CHAR):                                                # str += one character
                e, te = self.ex(st.value, CHAR)
                if te != CHAR: raise Shape('%s: += of a %s to a str' % (self.name, ty(te)))
                out.append(ind + self.set_local(n, '(%s ++ [%s])' % (c, e)))
                return
            raise Shape('%s: += on a %s' % (self.name, ty(t)))
        if isinstance(st, ast.Expr) and isinstance(st.value, ast.Call) and isinstance(st.value.func, ast.Attribute) \
                and isinstance(st.value.func.value, ast.Name) and not st.value.keywords:
            x, m, args = st.value.func.value.id, st.value.func.attr, st.value.args
            if m == 'append' and len(args) == 1:
                if x in self.aliases:
                    y = self.aliases[x]
                    cy, tyy = self.var(y)
                    e, te = self.ex(args[0], tyy[1][1])
                    out.append(ind + 'let t ← Py.appendLast %s %s      -- %s.append(…), %s is %s[-1]' % (cy, self.need(e, te, tyy[1][1]), x, x, y))
                    out.append(ind + self.set_local(y, 't'))
                    return
                if x in self.aliases.values():
                    raise Shape('%s: %s.append outside the alias-creating pair' % (self.name, x))
                self.mutable(x)
                cx, tx = self.var(x)
                e, te = self.ex(args[0], tx[1])
                out.append(ind + self.set_local(x, '(%s ++ [%s])' % (cx, self.need(e, te, tx[1]))))
                return
            if m == 'add' and len(args) == 1 and x in self.sets:
                cx, tx = self.var(x)
                e, te = self.ex(args[0], tx[1])
                out.append(ind + self.set_local(x, '(Py.setAdd %s %s)' % (cx, self.need(e, te, tx[1]))))
                return
            if m == 'pop' and not args:
                self.mutable(x)
                out.append(ind + 'let pp ← Py.pop v.%s' % ident(x))
                out.append(ind + self.set_local(x, 'pp.2'))
                return
            raise Shape('%s: method call %s.%s' % (self.name, x, m))
        if isinstance(st, ast.If) and isinstance(st.test, ast.BoolOp) and isinstance(st.test.op, ast.And) \
                and any('←' in self.truthy(x) for x in st.test.values[1:]):
            # `if a and b: body` with a fallible `b`: Python evaluates `b` only when `a` is true -> nested tests
            inner = ast.If(test=st.test.values[-1], body=st.body, orelse=st.orelse)
            rest = st.test.values[:-1]
            outer_test = rest[0] if len(rest) == 1 else ast.BoolOp(op=ast.And(), values=rest)
            return self.stmt(ast.If(test=outer_test, body=[inner], orelse=st.orelse), out, ind, inloop)
        if isinstance(st, ast.If):
            out.append(ind + 'if %s then' % self.truthy(st.test))
            self.block(st.body, out, ind + '  ', inloop)
            if st.orelse:
                out.append(ind + 'else')
                self.block(st.orelse, out, ind + '  ', inloop)
            return
        if isinstance(st, ast.For):
            return self.loop(st, out, ind)
        if isinstance(st, ast.Try):
            return self.try_(st, out, ind, inloop)
        raise Shape('%s: unsupported statement: %s' % (self.name, ast.unparse(st)[:60]))

    def block(self, body, out, ind, inloop):
        n = len(out)
        self.stmts(body, out, ind, inloop)
        if len(out) == n or all(l.strip().startswith('--') for l in out[n:]):
            out.append(ind + 'pure ()')

    def mutable(self, x):
        if x in self.params and x not in self.rebound:
            raise Shape('%s: in-place mutation of the parameter %s' % (self.name, x))
        if x in self.loopvars:
            raise Shape('%s: in-place mutation of the loop variable %s' % (self.name, x))

    def try_(self, st, out, ind, inloop):
        if st.orelse or st.finalbody or len(st.handlers) != 1:
            raise Shape('%s: try shape' % self.name)
        h = st.handlers[0]
        if not (isinstance(h.type, ast.Name) and h.type.id == 'IndexError'):
            raise Shape('%s: handler for %s' % (self.name, ast.unparse(h.type) if h.type else 'everything'))
        # partial effects: variables assigned before the last statement must be local to the try body
        assigned = []
        for s in st.body[:-1]:
            if not (isinstance(s, ast.Assign) and len(s.targets) == 1 and isinstance(s.targets[0], ast.Name)):
                raise Shape('%s: try body statement %s' % (self.name, ast.unparse(s)[:40]))
            assigned.append(s.targets[0].id)
        for x in assigned:
            reads_in = sum(1 for s in st.body for n in ast.walk(s) if isinstance(n, ast.Name) and n.id == x and isinstance(n.ctx, ast.Load))
            reads_all = sum(1 for n in ast.walk(self.fn) if isinstance(n, ast.Name) and n.id == x and isinstance(n.ctx, ast.Load))
            if reads_in != reads_all:
                raise Shape('%s: %s is assigned inside a try body and read outside it' % (self.name, x))
        last = st.body[-1]
        ok_last = (isinstance(last, ast.Assign) and len(last.targets) == 1 and isinstance(last.targets[0], ast.Name)) or \
                  (isinstance(last, ast.Expr) and isinstance(last.value, ast.Call) and isinstance(last.value.func, ast.Attribute)
                   and last.value.func.attr == 'pop')
        if not ok_last:
            raise Shape('%s: last statement of the try body: %s' % (self.name, ast.unparse(last)[:40]))
        out.append(ind + 'let r := (do')
        out.append(ind + '  let mut v := v')
        self.stmts(st.body, out, ind + '  ', False)
        out.append(ind + '  return v : Py.M _)')
        out.append(ind + 'match r with')
        out.append(ind + '| .ok v\' => v := v\'')
        out.append(ind + '| .error (.fault "IndexError") =>')
        self.block(h.body, out, ind + '  ', inloop)
        out.append(ind + '| .error e => throw e')

    def loop(self, st, out, ind):
        if st.orelse:
            raise Shape('%s: for … else' % self.name)
        for n in ast.walk(st):
            if isinstance(n, ast.Break):
                raise Shape('%s: break' % self.name)
        it, tit = self.ex(st.iter)
        if not (isinstance(tit, tuple) and tit[0] == 'List'):
            raise Shape('%s: iteration over a %s' % (self.name, ty(tit)))
        stored = {n.id for s in st.body for n in ast.walk(s) if isinstance(n, ast.Name) and isinstance(n.ctx, ast.Store)}
        mutated = {n.func.value.id for s in st.body for n in ast.walk(s)
                   if isinstance(n, ast.Call) and isinstance(n.func, ast.Attribute) and isinstance(n.func.value, ast.Name)
                   and n.func.attr in ('append', 'pop', 'add')}
        for n in ast.walk(st.iter):
            if isinstance(n, ast.Name) and (n.id in stored or n.id in mutated) and n.id not in self.loopvars:
                raise Shape('%s: the loop over %s changes it' % (self.name, ast.unparse(st.iter)))
        et = tit[1]
        self.nloops += 1
        k = self.nloops
        saved = dict(self.loopvars)
        binds = []
        if isinstance(st.target, ast.Name):
            if st.target.id == '_':
                arg = '_x'
            else:
                arg = ident(st.target.id)
                self.loopvars[st.target.id] = et
        elif isinstance(st.target, ast.Tuple) and len(st.target.elts) == 2 and all(isinstance(e, ast.Name) for e in st.target.elts) \
                and isinstance(et, tuple) and et[0] == 'Prod':
            arg = 'x%d' % k
            for j, e in enumerate(st.target.elts):
                self.loopvars[e.id] = et[1 + j]
                binds.append('let %s := %s.%d' % (ident(e.id), arg, j + 1))
        else:
            raise Shape('%s: loop target %s' % (self.name, ast.unparse(st.target)))
        for n in self.loopvars:
            if n in self.locals and n not in saved:
                raise Shape('%s: %s is both a loop variable and a local' % (self.name, n))
        outer = [(ident(n), t) for n, t in saved.items()]
        sig = ' '.join('(%s : %s)' % (ident(p), ty(self.params[p])) for p in self.param_order)
        sig += ''.join(' (%s : %s)' % (n, ty(t)) for n, t in outer)
        body = ['def %s.loop%d %s (v : %s.Vars) (%s : %s) : Py.M %s.Vars := do' % (self.name, k, sig, self.name, arg, ty(et), self.name),
                '  let mut v := v']
        body += ['  ' + b for b in binds]
        self.stmts(st.body, body, '  ', True)
        body.append('  return v')
        self.loops.append('\n'.join(body))
        call = '%s.loop%d %s' % (self.name, k, ' '.join([ident(p) for p in self.param_order] + [n for n, _ in outer]))
        out.append(ind + 'v ← List.foldlM (%s) v %s      -- for %s in %s' % (call, it, ast.unparse(st.target), ast.unparse(st.iter)))
        # loop variables are not visible after the loop
        after = set(self.loopvars) - set(saved)
        self.loopvars = saved
        self.dead_after_loop = getattr(self, 'dead_after_loop', set()) | after

    def run(self):
        # loop variables must not be used outside their loop
        out = []
        self.stmts(self.fn.body, out, '  ', False)
        missing = self.assume - set(self.assumed_found)
        if missing:
            raise Shape('%s: assertion(s) no longer present: %s' % (self.name, sorted(missing)))
        fields = '\n'.join('  %s : %s := default' % (ident(n), ty(t)) for n, t in self.locals.items())
        text = ['/-- local variables of `%s` -/' % self.name,
                'structure %s.Vars where\n%s' % (self.name, fields), '']
        text += [l + '\n' for l in self.loops]
        sig = ' '.join('(%s : %s)' % (ident(p), ty(self.params[p])) for p in self.param_order)
        init = ', '.join('%s := %s' % (ident(p), ident(p)) for p in self.rebound)
        text.append('/-- `%s` (%s), statement by statement -/' % (self.name, self.spec['path']))
        text.append('def py_%s %s : Py.M (%s) := do' % (self.name, sig, ty(self.spec['ret'])))
        text.append('  let mut v : %s.Vars := { %s }' % (self.name, init))
        text += out
        return '\n'.join(text) + '\n'


def definite_assignment(fn, params, name):
    """every read of a local is preceded by a write on every path (conservative: straight-line order within blocks,
    loop bodies may read what was written before the loop or earlier in the body)"""
    def walk(body, have):
        for st in body:
            if isinstance(st, ast.For):
                for n in ast.walk(st.iter):
                    if isinstance(n, ast.Name) and isinstance(n.ctx, ast.Load) and n.id not in have and n.id not in BUILTINS:
                        raise Shape('%s: %s may be read before it is assigned' % (name, n.id))
                inner = set(have) | {n.id for n in ast.walk(st.target) if isinstance(n, ast.Name)}
                walk(st.body, inner)
                continue
            if isinstance(st, ast.If):
                check(st.test, have)
                a, b = set(have), set(have)
                walk(st.body, a); walk(st.orelse, b)
                ends = lambda blk: blk and isinstance(blk[-1], (ast.Raise, ast.Continue, ast.Return))
                if ends(st.body) and ends(st.orelse): pass
                elif ends(st.body): have |= b
                elif ends(st.orelse): have |= a
                else: have |= (a & b)
                continue
            if isinstance(st, ast.Try):
                a = set(have); walk(st.body, a)
                for h in st.handlers:
                    b = set(have); walk(h.body, b)
                    if not (h.body and isinstance(h.body[-1], (ast.Raise, ast.Continue, ast.Return))):
                        a &= b
                have |= a
                continue
            if isinstance(st, (ast.Assign, ast.AugAssign)):
                check(st.value, have)
                tgs = st.targets if isinstance(st, ast.Assign) else [st.target]
                if isinstance(st, ast.AugAssign):
                    check(st.target, have, load_too=True)
                for t in tgs:
                    if isinstance(t, ast.Name):
                        have.add(t.id)
                    elif isinstance(t, ast.Tuple):
                        have |= {e.id for e in t.elts if isinstance(e, ast.Name)}
                    else:
                        check(t, have, load_too=True)
                continue
            check(st, have)
    def check(node, have, load_too=False):
        for n in ast.walk(node):
            if isinstance(n, ast.Name) and (isinstance(n.ctx, ast.Load) or load_too) and n.id not in have and n.id not in BUILTINS:
                raise Shape('%s: %s may be read before it is assigned' % (name, n.id))
    walk(fn.body, set(params))

BUILTINS = {'len', 'list', 'set', 'range', 'reversed', 'enumerate', 'IndexError', 'SecondaryStructureError', 'None', 'True', 'False'}


FUNCS = [
    dict(path='dsdobjects/complex_utils.py', name='make_pair_table',
         params=[('ss', L(CHAR)), ('strand_break', CHAR), ('ignore', L(CHAR))],
         locals={'pair_table': L(L(O(LOC))), 'stack': L(LOC), 'strand_index': NAT, 'domain_index': NAT, 'loc': LOC},
         aliases={'strand': 'pair_table'},
         assume_asserts=['len(strand_break) == 1'],
         ret=L(L(O(LOC)))),
    dict(path='dsdobjects/complex_utils.py', name='pair_table_to_dot_bracket',
         params=[('pt', L(L(O(LOC)))), ('strand_break', CHAR), ('join', BOOL)],
         locals={'out': L(CHAR), 'locus': LOC},
         assume_asserts=['len(strand_break) == 1'],
         ret_override={'out if join else list(out)': 'v.out'},        # a str and the list of its characters are both `List Char`
         ret=L(CHAR)),
    dict(path='dsdobjects/complex_utils.py', name='make_loop_index',
         params=[('pt', L(L(O(LOC)))), ('components', BOOL)],
         locals={'loop_index': L(L(NAT)), 'exterior': L(NAT), 'myext': L(L(O(NAT))), 'stack': L(LOC), 'cl': NAT, 'nl': NAT,
                 'ext': L(O(NAT)), 'loc': LOC, 'ploc': LOC},
         sets=['exterior'],
         aliases={'loop': 'loop_index'},
         # the two result shapes are returned together; the caller picks by `components`
         ret_override={'(loop_index, exterior) if not components else (loop_index, myext)': '(v.loop_index, v.exterior, v.myext)'},
         ret=P(L(L(NAT)), P(L(NAT), L(L(O(NAT)))))),
    dict(path='dsdobjects/complex_utils.py', name='rotate_complex_once',
         params=[('seq', L(STR)), ('sst', L(CHAR))],
         locals={'stack': L(NAT), 'p': NAT, 'nstr': L(CHAR)},
         ret=P(L(STR), L(CHAR))),
]


def find_function(tree, name):
    c = [n for n in tree.body if isinstance(n, ast.FunctionDef) and n.name == name]
    if len(c) != 1:
        raise Shape('function %s not found exactly once' % name)
    return c[0]


def gen_pyfuncs(repo):
    out = ['/- GENERATED by translator/pyfunc.py from the Python source — do not edit. -/',
           'import DsdVerif.Model.PyPrelude', '', 'set_option linter.unusedVariables false', '', 'namespace Dsd.Gen', 'open Dsd', '']
    summary = {}
    trees = {}
    for spec in FUNCS:
        if spec['path'] not in trees:
            trees[spec['path']] = ast.parse(open(os.path.join(repo, spec['path'])).read())
        fn = find_function(trees[spec['path']], spec['name'])
        declared = [a.arg for a in fn.args.args]
        want = [p for p, _ in spec['params']]
        # parameters the stub does not list must be unused by the body (e.g. `turns` of rotate_complex_once)
        for a in declared:
            if a not in want and any(isinstance(n, ast.Name) and n.id == a for n in ast.walk(ast.Module(body=fn.body, type_ignores=[]))):
                raise Shape('%s: parameter %s is used but not declared in the typing stub' % (spec['name'], a))
        if [a for a in declared if a in want] != want:
            raise Shape('%s: parameters changed: %s' % (spec['name'], declared))
        definite_assignment(fn, want, spec['name'])
        tx = FuncTx(spec, fn)
        out.append(tx.run())
        summary[spec['name']] = {'statements': sum(1 for _ in ast.walk(fn) if isinstance(_, ast.stmt)) - 1,
                                 'loops': tx.nloops, 'source_lines': (fn.end_lineno - fn.lineno + 1)}
    out.append('end Dsd.Gen')
    return '\n'.join(out) + '\n', summary


if __name__ == '__main__':
    text, summ = gen_pyfuncs(sys.argv[1])
    sys.stdout.write(text)
    sys.stderr.write(repr(summ) + '\n')
