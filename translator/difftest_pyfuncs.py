#!/venv/bin/python
"""Differential test of the NEW statement-level translations against CPython.

    PYTHONPATH=<repo> /venv/bin/python translator/difftest_pyfuncs.py lean/DiffTest     # writes lean/DiffTest/*.lean
    cd lean && for f in DiffTest/*.lean; do lake env lean $f; done                        # every file prints `mismatches: 0`

Random inputs (fixed seed) are run through the functions of the working tree; the inputs and CPython's results (value or the
kind of the exception) are written as Lean data next to an `#eval` that runs the translated function on the same inputs and
lists the cases in which it differs.
"""
import os, random, sys
from dsdobjects import complex_utils as cu
from dsdobjects import iupac_utils as iu

rnd = random.Random(20260929)

def lchar(c):
    if c == "'": return "'\\''"
    if c == '\\': return "'\\\\'"
    return "'" + c + "'"
def lstr(s): return '"' + s.replace('\\', '\\\\').replace('"', '\\"') + '"'
def ltext(s): return '%s.toList' % lstr(s) if s else '([] : List Char)'
def llist(xs, f): return '[' + ', '.join(f(x) for x in xs) + ']'
def lopt(x, f): return 'none' if x is None else '(some %s)' % f(x)
def lbool(b): return 'true' if b else 'false'

KIND = {'AssertionError': 'assertion', 'SecondaryStructureError': 'secondaryStructure'}
def run(f, *a, **k):
    try:
        r = f(*a, **k)
        if hasattr(r, '__next__'):
            r = list(r)
        return ('ok', r)
    except RecursionError:
        raise
    except Exception as e:
        return ('err', KIND.get(type(e).__name__, type(e).__name__))

def lres(r, f):
    return '(.ok %s)' % f(r[1]) if r[0] == 'ok' else '(.error %s)' % lstr(r[1])

HEAD = '''import DsdVerif.Gen.PyFuncs
import DsdVerif.Gen.PyIupac
open Dsd Dsd.Gen
set_option maxRecDepth 100000
def kind : Err → String
  | .secondaryStructure => "secondaryStructure"
  | .assertion => "assertion"
  | .fault k => k
  | _ => "other"
def norm {α} (r : Py.M α) : Except String α := match r with | .ok x => .ok x | .error e => .error (kind e)
def same {α} [BEq α] (a b : Except String α) : Bool :=
  match a, b with
  | .ok x, .ok y => x == y
  | .error x, .error y => x == y
  | _, _ => false
'''

def emit(outdir, name, intype, outtype, call, cases, lin, lout):
    """cases: list of (input, result)"""
    chunks = [cases[i:i + 60] for i in range(0, len(cases), 60)]
    lines = [HEAD]
    for k, ch in enumerate(chunks):
        lines.append('def cases%d : List ((%s) × Except String (%s)) := [' % (k, intype, outtype))
        lines.append(',\n'.join('  (%s, %s)' % (lin(i), lres(r, lout)) for i, r in ch))
        lines.append(']')
    lines.append('def allCases := %s' % ' ++ '.join('cases%d' % k for k in range(len(chunks))))
    lines.append('def bad := allCases.filter (fun c => !(same (norm (%s)) c.2))' % call)
    nerr = sum(1 for _, r in cases if r[0] == 'err')
    # `both raise`: CPython and the translation both end in an exception but of different kinds - possible only where a
    # generator that raises AFTER yielding is consumed by a loop whose body raises too (rule "for over a generator")
    lines.append('def bothRaise := bad.filter (fun c => match norm (%s), c.2 with | .error _, .error _ => true | _, _ => false)' % call)
    lines.append('#eval IO.println s!"%s: cases {allCases.length} (errors expected in %d), mismatches: {bad.length} (both raise, kinds differ: {bothRaise.length})"' % (name, nerr))
    lines.append('#eval bad.take 3 |>.map (fun c => (repr c.1, norm (%s) |> fun r => match r with | .ok _ => "ok" | .error e => e))' % call)
    open(os.path.join(outdir, name + '.lean'), 'w').write('\n'.join(lines) + '\n')
    kinds = {}
    for _, r in cases:
        k = 'ok' if r[0] == 'ok' else r[1]
        kinds[k] = kinds.get(k, 0) + 1
    print(name, len(cases), kinds)

def rand_names(n):
    return [rnd.choice(['a', 'b', 'c*', '+', '+', 'd1', '++', 'x']) for _ in range(n)]

def rand_db(n):
    return ''.join(rnd.choice('(.)+' if rnd.random() < 0.9 else '(.)+x') for _ in range(n))

def balanced(n):
    """a random well-formed dot-bracket text with n positions (strand breaks added at random)"""
    out, open_ = [], 0
    for i in range(n):
        left = n - i
        opts = ['.']
        if open_ + 1 < left: opts.append('(')
        if open_ > 0: opts.append(')')
        if open_ == left: opts = [')']
        c = rnd.choice(opts)
        open_ += (c == '(') - (c == ')')
        out.append(c)
        if rnd.random() < 0.35 and i < n - 1:
            out.append('+')
    return ''.join(out)

def seq_for(ss):
    """a list of names with the shape of the structure `ss`"""
    return ['+' if c == '+' else rnd.choice(['a', 'b', 'c*', 'd1']) for c in ss]

def main(outdir):
    os.makedirs(outdir, exist_ok=True)
    sl = lambda xs: llist(xs, lstr)
    # make_strand_table, list instance
    cases = []
    for _ in range(300):
        seq = rand_names(rnd.randrange(0, 9))
        brk = rnd.choice(['+', '+', '+', 'a', '++', ''])
        cases.append(((seq, brk), run(cu.make_strand_table, seq, brk)))
    emit(outdir, 'MakeStrandTableList', 'List String × String', 'List (List String)', 'py_make_strand_table_list c.1.1 c.1.2', cases,
         lambda i: '(%s, %s)' % (sl(i[0]), lstr(i[1])), lambda r: llist(r, sl))
    # make_strand_table, str instance
    cases = []
    for _ in range(300):
        seq = ''.join(rnd.choice('AC+N+') for _ in range(rnd.randrange(0, 10)))
        brk = rnd.choice(['+', '+', 'A'])
        cases.append(((seq, brk), run(cu.make_strand_table, seq, brk)))
    emit(outdir, 'MakeStrandTableStr', 'List Char × Char', 'List (List Char)', 'py_make_strand_table_str c.1.1 c.1.2', cases,
         lambda i: '(%s, %s)' % (ltext(i[0]), lchar(i[1])), lambda r: llist(r, lambda s: ltext(''.join(s))))
    # strand_table_to_sequence, join=False
    cases = []
    for _ in range(300):
        st = [[rnd.choice(['a', 'b', 'c*', '+']) for _ in range(rnd.randrange(0, 4))] for _ in range(rnd.randrange(0, 5))]
        brk = rnd.choice(['+', '+', 'xy', ''])
        cases.append(((st, brk), run(cu.strand_table_to_sequence, [list(s) for s in st], brk, False)))
    emit(outdir, 'StrandTableToSequenceList', 'List (List String) × String', 'List String', 'py_strand_table_to_sequence_list c.1.1 c.1.2', cases,
         lambda i: '(%s, %s)' % (llist(i[0], sl) if i[0] else '([] : List (List String))', lstr(i[1])), sl)
    # strand_table_to_sequence, join=True
    cases = []
    for _ in range(300):
        st = [[rnd.choice('ACGT+') for _ in range(rnd.randrange(0, 4))] for _ in range(rnd.randrange(0, 5))]
        brk = rnd.choice(['+', '+', 'x'])
        cases.append(((st, brk), run(cu.strand_table_to_sequence, st, brk, True)))
    emit(outdir, 'StrandTableToSequenceStr', 'List (List Char) × Char', 'List Char', 'py_strand_table_to_sequence_str c.1.1 c.1.2', cases,
         lambda i: '(%s, %s)' % (llist(i[0], lambda s: ltext(''.join(s))) if i[0] else '([] : List (List Char))', lchar(i[1])), ltext)
    # split_complex_db / rotate_complex_db, join=False
    def db_inputs(n):
        out = []
        for k in range(n):
            if k % 3 == 0:                                   # arbitrary texts: unbalanced, unknown characters, other shapes
                ss = rand_db(rnd.randrange(0, 9))
                seq = rand_names(rnd.randrange(0, 9))
            elif k % 3 == 1:                                 # well-formed structure, sequence of the same shape
                ss = balanced(rnd.randrange(1, 9))
                seq = seq_for(ss)
            else:                                            # well-formed structure, sequence of another shape
                ss = balanced(rnd.randrange(1, 8))
                seq = seq_for(balanced(rnd.randrange(1, 8)))
            out.append((seq, ss))
        return out
    pair = lambda p: '(%s, %s)' % (sl(p[0]), ltext(''.join(p[1])))
    cases = []
    for seq, ss in db_inputs(360):
        cases.append(((seq, ss), run(cu.split_complex_db, list(seq), ss, False)))
    emit(outdir, 'SplitComplexDb', 'List String × List Char', 'List (List String × List Char)', 'py_split_complex_db 40 c.1.1 c.1.2', cases,
         lambda i: '(%s, %s)' % (sl(i[0]) if i[0] else '([] : List String)', ltext(i[1])), lambda r: llist(r, pair) if r else '[]')
    cases = []
    for seq, ss in db_inputs(360):
        turns = rnd.choice([None, None, 0, 1, 2, 3, 7])
        cases.append(((seq, ss, turns), run(cu.rotate_complex_db, list(seq), ss, turns, False)))
    emit(outdir, 'RotateComplexDb', 'List String × List Char × Option Nat', 'List (List String × List Char)',
         'py_rotate_complex_db 40 c.1.1 c.1.2.1 c.1.2.2', cases,
         lambda i: '(%s, %s, %s)' % (sl(i[0]) if i[0] else '([] : List String)', ltext(i[1]), lopt(i[2], str)), lambda r: llist(r, pair) if r else '[]')
    # iupac_utils
    def rand_seq():
        n = rnd.randrange(0, 9)
        return ''.join(rnd.choice('ACGTURYSMWKVHDBN' if rnd.random() < 0.85 else 'ACGTNXa+') for _ in range(n))
    for fname in ('complement', 'wc_complement', 'reverse_complement', 'reverse_wc_complement'):
        cases = []
        for _ in range(300):
            s, m = rand_seq(), rnd.choice(['DNA', 'RNA', 'dna', ''])
            cases.append(((s, m), run(getattr(iu, fname), s, m)))
        emit(outdir, 'Iupac_' + fname, 'List Char × String', 'List Char', 'py_%s c.1.1 c.1.2' % fname, cases,
             lambda i: '(%s, %s)' % (ltext(i[0]), lstr(i[1])), ltext)
    cases = []
    for k in range(400):
        a = rand_seq()
        b = ''.join(rnd.choice('ACGTURYSMWKVHDBN' if rnd.random() < 0.9 else 'NX') for _ in range(len(a) if k % 5 else rnd.randrange(0, 9)))
        m = rnd.choice(['DNA', 'RNA', 'x'])
        cases.append(((a, b, m), run(iu.add_constraints, a, b, m)))
    emit(outdir, 'Iupac_add_constraints', 'List Char × List Char × String', 'List Char', 'py_add_constraints c.1.1 c.1.2.1 c.1.2.2', cases,
         lambda i: '(%s, %s, %s)' % (ltext(i[0]), ltext(i[1]), lstr(i[2])), ltext)

if __name__ == '__main__':
    main(sys.argv[1])
