#!/usr/bin/env python3
"""Statement-level translation of the small members of `DomainS` (dsdobjects/base_classes.py) into Lean 4 (`Gen/PyMembers.lean`).

    /venv/bin/python translator/pymembers.py <repo>  > lean/DsdVerif/Gen/PyMembers.lean

Translated, STATEMENT BY STATEMENT from the working tree: the properties `name`, `length`, `dtype`, `is_complement`, `cname`, `complement`
and the methods `__invert__`, `__len__` of `DomainS`; plus `py_DomainSM_truth` (`bool(d)`), see below.  An extension of
translator/pymethod.py (`MembersTx(MethodTx)`): same rules, same refusal policy (`Shape`; a refused member becomes a raising stub of the right
type and is reported under `untranslated`); nothing about what the members are supposed to compute is known here.

Reading of Python ADDED here (the trusted part; primitives of Model/PyPreludeKernel.lean, no new prelude):

  object      `DomainSM.Self` = the attributes `_name : String` (a str kept opaque) and `_length : Nat` (a non-negative int: what
              `identifiers` hands to `__init__` for every object that exists; `None` lengths never reach a registered object).  A member is
              a computation in `DomainSM.M = Py.MS DomainSM.Self`.  `self.m` for a member translated before is `(← py_DomainSM_m …)`.
  s[-1]       on a str: `(← Py.strLast s) : Char` (IndexError for the empty str); `s[:-1]`: `Py.strDropLast s`; `s + t` on strs: `s ++ t`;
              `c == '*'` compares one-character strs
  self.__class__.X   a class attribute listed in the stub (`DTYPE_CUTOFF`) is a PARAMETER `cls_X : Nat` of the member (and of the members
              that use it): subclasses set other values (checked: the class body assigns it once, by an int constant)
  self.__class__(a, b)   the request for an object of the class (Singleton metaclass: `identifiers`, registries, `__init__`) is a PARAMETER
              `request : String → Nat → Py.M Nat` (the object is an opaque id); outside this translation what it does
  bool(d)     `DomainS` defines `__len__` and NO `__bool__` (CHECKED on the class body; `object` has none): Python's truth value of a domain
              is `d.__len__() != 0`.  `py_DomainSM_truth` is emitted as exactly that, over the translated `__len__`.
"""
import ast, os, sys
sys.path.insert(0, os.path.dirname(os.path.abspath(__file__)))
from pyfunc import (FuncTx, Shape, NAT, CHAR, STR, BOOL, ty, ident, check_signature, definite_assignment, builtins_unshadowed)
from pymethod import MethodTx, PATH, find_class, find_method, without_self, is_self

REQUEST = ('request', 'String → Nat → Py.M Nat')
CUTOFF = ('cls_DTYPE_CUTOFF', NAT)
ATTRS_D = [('_name', STR), ('_length', NAT)]
CLASS_PARAMS = {'DTYPE_CUTOFF': CUTOFF}
MEMBERS = [
    dict(method='name', kind='getter', lean='name', params=[], locals={}, ret=STR),
    dict(method='length', kind='getter', lean='length', params=[], locals={}, ret=NAT),
    dict(method='dtype', kind='getter', lean='dtype', params=[], extra=[CUTOFF], locals={}, ret=STR, uses=['length']),
    dict(method='is_complement', kind='getter', lean='is_complement', params=[], locals={}, ret=BOOL, uses=['name']),
    dict(method='cname', kind='getter', lean='cname', params=[], locals={}, ret=STR, uses=['name', 'is_complement']),
    dict(method='complement', kind='getter', lean='complement', params=[], extra=[REQUEST], locals={}, ret=NAT, uses=['cname', 'length']),
    dict(method='__invert__', kind='method', lean='invert', params=[], extra=[REQUEST], locals={}, ret=NAT, uses=['complement']),
    dict(method='__len__', kind='method', lean='len', params=[], locals={}, ret=NAT, uses=['length']),
]


class MembersTx(MethodTx):
    M = 'DomainSM.M'

    def __init__(self, spec, fn, methods):
        extra = list(spec.get('extra', ()))
        for n, _ in extra:
            if any((isinstance(m, ast.Name) and m.id == n) or (isinstance(m, ast.arg) and m.arg == n) for m in ast.walk(fn)):
                raise Shape('%s: the name %s is used by the translation' % (spec['name'], n))
        super().__init__(dict(spec, params=extra + list(spec['params'])), fn, {}, methods)
        self.attrs = dict(ATTRS_D)
        self.exc = {}

    def method_call(self, name, args, keywords, as_value=True):
        if name not in self.methods or args or keywords:
            raise Shape('%s: self.%s is not a member translated before (stub `uses`)' % (self.name, name))
        m = self.methods[name]
        extras = [q for q, _ in m.get('extra', ())]
        for q in extras:
            if q not in self.params:
                raise Shape('%s: self.%s needs the parameter %s' % (self.name, name, q))
        return '(← py_DomainSM_%s%s)' % (m['lean'], ''.join(' ' + q for q in extras)), m['ret']

    def ex(self, node, expect=None):
        if isinstance(node, ast.Attribute) and isinstance(node.value, ast.Attribute) and is_self(node.value.value) \
                and node.value.attr == '__class__' and node.attr in CLASS_PARAMS:
            q, t = CLASS_PARAMS[node.attr]
            if q not in self.params:
                raise Shape('%s: the class attribute %s is not a parameter of this member' % (self.name, node.attr))
            return q, t
        if isinstance(node, ast.Call) and isinstance(node.func, ast.Attribute) and is_self(node.func.value) and node.func.attr == '__class__':
            if node.keywords or len(node.args) != 2 or 'request' not in self.params:
                raise Shape('%s: self.__class__(…) shape' % self.name)
            (a, ta), (b, tb) = self.ex(node.args[0], STR), self.ex(node.args[1], NAT)
            if (ta, tb) != (STR, NAT):
                raise Shape('%s: self.__class__(%s, %s)' % (self.name, ty(ta), ty(tb)))
            return '(← request %s %s)' % (a, b), NAT
        if isinstance(node, ast.Subscript):
            sl = node.slice
            minus1 = lambda x: isinstance(x, ast.UnaryOp) and isinstance(x.op, ast.USub) and isinstance(x.operand, ast.Constant) and x.operand.value == 1
            if minus1(sl) or (isinstance(sl, ast.Slice) and sl.lower is None and sl.step is None and minus1(sl.upper)):
                a, ta = self.ex(node.value)
                if ta == STR:
                    return ('(← Py.strLast %s)' % a, CHAR) if minus1(sl) else ('(Py.strDropLast %s)' % a, STR)
        if isinstance(node, ast.BinOp) and isinstance(node.op, ast.Add):
            a, ta = self.ex(node.left, STR)
            if ta == STR:
                b, tb = self.ex(node.right, STR)
                if tb != STR:
                    raise Shape('%s: + on a str and a %s' % (self.name, ty(tb)))
                return '(%s ++ %s)' % (a, b), STR
        return super().ex(node, expect)


def check_class(cls):
    for name in CLASS_PARAMS:
        asg = [n for n in cls.body if isinstance(n, ast.Assign) and len(n.targets) == 1 and isinstance(n.targets[0], ast.Name) and n.targets[0].id == name]
        if len(asg) != 1 or not isinstance(asg[0].value, ast.Constant) or type(asg[0].value.value) is not int or asg[0].value.value < 0:
            raise Shape('%s.%s is not assigned once, by a non-negative int constant, in the class body' % (cls.name, name))
    for a, _ in ATTRS_D:
        for m in cls.body:
            if isinstance(m, ast.FunctionDef) and m.name != '__init__':
                if any(isinstance(n, ast.Attribute) and n.attr == a and not isinstance(n.ctx, ast.Load) for n in ast.walk(m)):
                    raise Shape('%s.%s assigns %s outside __init__' % (cls.name, m.name, a))


def gen_pymembers(repo):
    out = ['/- GENERATED by translator/pymembers.py from the Python source — do not edit. -/',
           'import DsdVerif.Model.PyPreludeKernel', '', 'set_option linter.unusedVariables false', '', 'namespace Dsd.Gen', 'open Dsd', '']
    tree = ast.parse(open(os.path.join(repo, PATH)).read())
    builtins_unshadowed(tree, {'isinstance', 'len', 'str', 'bool'})
    cls = find_class(tree, 'DomainS')
    check_class(cls)
    out.append('/-- the part of a `DomainS` object that the translated members read -/')
    out.append('structure DomainSM.Self where\n' + '\n'.join('  %s : %s' % (a, ty(t)) for a, t in ATTRS_D) + '\nderiving Repr, DecidableEq\n')
    out.append('abbrev DomainSM.M := Py.MS DomainSM.Self\n')
    methods, summary, untranslated = {}, {}, {}
    for spec in MEMBERS:
        full = 'DomainSM_' + spec['lean']
        sig = ' '.join('(%s : %s)' % (ident(q), ty(t)) for q, t in list(spec.get('extra', ())) + spec['params'])
        fn, tx = None, None
        try:
            fn = find_method(cls, spec['method'], spec['kind'])
            fn2 = without_self(fn)
            s = dict(spec, name=full, lean=full, lean_full=full, path=PATH, _fn=fn2)
            check_signature(fn2, s)
            uses = {}
            for u in spec.get('uses', ()):
                if u not in methods:
                    raise Shape('%s: self.%s is not translated before it' % (full, u))
                uses[u] = methods[u]
            definite_assignment(fn2, ['self'], full)
            tx = MembersTx(s, fn2, uses)
            text = tx.run()
        except Shape as e:
            untranslated[full] = str(e)
            text = ('/-- `%s` (%s) could NOT be translated: %s -/\n' % (full, PATH, str(e).replace('-/', '- /')) +
                    'def py_%s %s : DomainSM.M (%s) := throw (Err.fault "untranslated")\n' % (full, sig, ty(spec['ret'])))
        out.append(text)
        methods[spec['method']] = dict(spec, lean=spec['lean'])
        summary[full] = {'statements': (sum(1 for _ in ast.walk(fn) if isinstance(_, ast.stmt)) - 1) if fn else 0, 'loops': 0,
                         'source_lines': (fn.end_lineno - fn.lineno + 1) if fn else 0}
    # bool(d): __len__ and no __bool__
    defs = [n.name for n in cls.body if isinstance(n, ast.FunctionDef)]
    bound = {t.id for n in cls.body if isinstance(n, ast.Assign) for t in n.targets if isinstance(t, ast.Name)}
    if defs.count('__len__') == 1 and '__bool__' not in defs and '__bool__' not in bound and not cls.bases:
        out.append('/-- `bool(d)` for a `DomainS` object: the class defines `__len__` and no `__bool__` (checked), so it is `d.__len__() != 0` -/\n'
                   'def py_DomainSM_truth : DomainSM.M (Bool) := do\n  return (decide ((← py_DomainSM_len) ≠ 0))\n')
    else:
        untranslated['DomainSM_truth'] = 'DomainS no longer takes its truth value from __len__ alone'
        out.append('/-- `bool(d)`: could NOT be read: the class defines `__bool__`, has bases, or has no single `__len__` -/\n'
                   'def py_DomainSM_truth : DomainSM.M (Bool) := throw (Err.fault "untranslated")\n')
    out.append('end Dsd.Gen')
    if untranslated:
        summary['untranslated'] = untranslated
    return '\n'.join(out) + '\n', summary


if __name__ == '__main__':
    text, summ = gen_pymembers(sys.argv[1])
    sys.stdout.write(text)
    sys.stderr.write(repr(summ) + '\n')
