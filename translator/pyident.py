#!/usr/bin/env python3
"""Statement-level translation of the `identifiers` CLASS METHODS of dsdobjects/base_classes.py into Lean 4 (`Gen/PyIdentifiers.lean`).

    /venv/bin/python translator/pyident.py <repo>  > lean/DsdVerif/Gen/PyIdentifiers.lean

`ComplexS.identifiers` and `StrandS.identifiers` decide object identity: they compute the canonical form under which
`Singleton.__call__` looks an object up.  They are transcribed STATEMENT BY STATEMENT from the source text of the working tree by an
extension of translator/pyfunc.py (class `IdentTx(FuncTx)`: same rules, same refusal policy - a statement or expression that has none
of the accepted shapes raises `Shape`, the method is replaced by a raising stub of the right type and reported; nothing is guessed,
nothing is skipped silently; the translator knows nothing about what the methods are supposed to compute).  Everything not listed
here is delegated to `FuncTx` and read as documented at the top of translator/pyfunc.py.  The primitives are in
Model/PyPreludeIdent.lean (namespace `Dsd.Py`).

Reading of Python that is ADDED here (each rule as narrow as the two methods need):

  classmethod  `@classmethod def identifiers(cls, p…, **kwargs)`: a pure function (`Py.M = Except Err`) of the declared parameters
              `p…` and of the class attributes it reads, which become leading parameters: `cls.PREFIX` -> `cls_PREFIX : String`,
              `cls.ID` -> `cls_ID : Nat` (a non-negative int), `cls._instanceCanon` -> `cls_instanceCanon : List Key`, the
              list of the keys registered at the time of the call.  Checked: exactly one definition of the name in the class body,
              decorated with `@classmethod` only; `cls` is never assigned and occurs only as `cls.<one of these attributes>` (load);
              `cls._instanceCanon` occurs only as the right operand of `in` (so only the SET of its keys matters); the `**kwargs`
              name does not occur in the body; no `*args`, no keyword-only / positional-only parameters.  Which class `cls` is
              (a subclass inherits the method) is the caller's business: it supplies that class's attribute values.
  renaming    the Python parameter `prefix` is written `prefix_` in Lean (`prefix` is a Lean keyword); done on a copy of the
              syntax tree after checking that `prefix_` does not occur
  x is None   `if x is None: A else: B` (statement, also as `elif`) and `A if x is None else B` (expression) for a `None`-able
              PARAMETER `x` that the function never rebinds: `match x with | none => A | some x_ => B`, and `B` reads `x` as
              `x_`, a value of the underlying type (in `B` it is not None).  A loop body under `B` may not mention `x` (its step
              function is a separate definition).  `x is None` on a variable that IS rebound (`name`) is FuncTx's `.isNone`.
  f'{a}{b}'   two or more replacement fields and nothing else, no conversion, no format spec; a field of type str is itself
              (`format(s, '')`), a field of type non-negative int is its decimal numeral (`Py.strNat n`, which is `toString`);
              the result is the concatenation, an opaque `String`
  (a, b, c)   a 3-tuple is the nested pair `(a, (b, c))`
  tuple(…)    tuples and lists are both read as `List`s, two tuples are `==` iff the lists are: `tuple(l)` of a list / of a str
              given as its characters is `l`; `tuple(map(str, l))` of a list of names (typed `String`: `str(s)` of a str is `s`) is
              `l`; `tuple((a, b))` of a 2-tuple display is the pair; `tuple(c for _ in range(n))` is FuncTx's comprehension rule
              (`List.map (fun _ => c) (List.range n)`)
  tuple keys  `D(Key, int)`: FuncTx's dict rule (association list in insertion order, `Py.dictSet`, `Py.dictHas`, `Py.dictGet`) with
              keys that are pairs of tuples, compared with `==` (Lean's `BEq` on `List String × List Char`)
  d[k]        with a `None`-able `k` and a dict whose keys are never None: `(← Py.dictGetO d k)` - KeyError for `None`
  d.keys()    `Py.dictKeys d`: the keys in insertion order.  The view object is live in Python; it is read as the list of keys at
              this point, which is the same as long as `d` is not changed afterwards: checked - the statement is not inside a loop
              and no statement that follows it in the function (in source order) assigns, subscripts-assigns or mutates `d`
  sorted(d, key=lambda x: (x[0], x[1]))   for a dict `d` whose keys are pairs: iterating `d` gives its keys in insertion order,
              the key function rebuilds the pair from its two components, so the keys are sorted by Python's `<` on the pairs
              themselves: `Py.sortedBy Py.ckeyLt (Py.dictKeys d)` - the STABLE sort w.r.t. `Py.ckeyLt`, Python's tuple
              comparison on (tuple of str, tuple of one-character str) written from first principles.  Only this lambda, only
              this key type; `sorted(…)[0]` is then FuncTx's `Py.idx … 0` (IndexError for an empty dict)
  {…}         a dict display assigned to a local declared as a RECORD in the stub (`records`: name -> list of keys): `{}` is
              `none`, `{'k1': e1, …, 'kn': en}` with exactly the declared constant keys in the declared order is
              `some (e1, (…, en))`, the values evaluated left to right.  (`newargs`: what `Singleton.__call__` adds to the
              keyword arguments of `__init__`.)  The local may only be assigned such displays and returned.
  for … else  FuncTx's `break` / `else` rule; the definite-assignment pass is extended: after `for … else` a name is assigned
              iff it is assigned at EVERY `break` of the loop and at the end of the `else` block
  raise       `ObjectInitError` -> `Err.objectInit` (must be bound exactly once in the module, by a class definition at module
              level), `NotImplementedError` -> `Err.notImplemented` (the built-in, must not be bound in the module);
              messages are dropped (as in FuncTx): the message expression is NOT evaluated by the translation
  int         `turns` is an int of either sign (`Int`): `-turns`, `wrap(-turns, tot)` through the typed instance `wrap_ids` of
              `wrap` (x, m : Int; floored `%` as `Py.imod`, ZeroDivisionError for 0), translated here from complex_utils.py
  built-ins   `tuple sorted map str len range isinstance list zip all reversed set` must not be bound anywhere in the module

Typing (the stubs IDENT_METHODS): `sequence` a `None`-able list of names (`Option (List String)`: domain objects are read through
their names, `str(d)`), `structure` a str / list of one-character strs (`List Char`), `name`, `prefix` `None`-able strs.  The result
`(canon, name, newargs)` is `Option Key × (Option String × Option Record)`; `name` is typed `None`-able because the parameter is.
"""
import ast, copy, os, sys
sys.path.insert(0, os.path.dirname(os.path.abspath(__file__)))
from pyfunc import (FuncTx, Shape, NAT, INT, CHAR, STR, BOOL, TEXT, L, O, P, D, ty, ident, FUNCS, translate,
                    imported_from, builtins_unshadowed, find_function, check_signature, definite_assignment, BUILTINS)

PATH = 'dsdobjects/base_classes.py'
CKEY = P(L(STR), L(CHAR))                       # a canonical form: (tuple of names, tuple of structure characters)

EXC = {'ObjectInitError': 'Err.objectInit', 'NotImplementedError': 'Err.notImplemented'}
CLS_ATTRS = {'PREFIX': ('cls_PREFIX', STR), 'ID': ('cls_ID', NAT), '_instanceCanon': ('cls_instanceCanon', L(CKEY))}

def record(types):
    """the Lean type of a dict that is `{}` or has exactly the declared keys: an `Option` of the nested tuple of the values"""
    t = types[-1]
    for x in reversed(types[:-1]):
        t = P(x, t)
    return O(t)

IDENT_METHODS = [
    dict(cls='ComplexS', method='identifiers', name='ComplexS_identifiers',
         cls_params=['_instanceCanon', 'PREFIX', 'ID'],
         params=[('sequence', O(L(STR))), ('structure', L(CHAR)), ('name', O(STR)), ('prefix_', O(STR))],
         rename={'prefix': 'prefix_'},
         records={'newargs': [('canon', O(CKEY)), ('turns', INT), ('rcplxs', L(CKEY))]},
         locals={'canon': O(CKEY), 'newargs': record([O(CKEY), INT, L(CKEY)]), 'cdict': D(CKEY, NAT), 'rseq': L(STR), 'rstr': L(CHAR),
                 'rcplx': CKEY, 'turns': INT, 'tot': NAT},
         callees=[('make_strand_table', 'make_strand_table_list'), 'rotate_complex_once', ('wrap', 'wrap_ids')],
         ret=P(O(CKEY), P(O(STR), record([O(CKEY), INT, L(CKEY)])))),
    dict(cls='StrandS', method='identifiers', name='StrandS_identifiers',
         cls_params=['PREFIX', 'ID'],
         params=[('sequence', O(L(STR))), ('name', O(STR)), ('prefix_', O(STR))],
         rename={'prefix': 'prefix_'},
         records={'newargs': [('canon', O(CKEY)), ('turns', NAT)]},
         locals={'canon': O(CKEY), 'newargs': record([O(CKEY), NAT]), 'sstr': L(CHAR)},
         callees=[],
         ret=P(O(CKEY), P(O(STR), record([O(CKEY), NAT])))),
]

# `wrap` on ints of either sign: its own typed instance (own Lean name, so that this file does not depend on Gen/PyComplexS.lean)
WRAP_IDS = dict(path='dsdobjects/complex_utils.py', name='wrap', inst='wrap_ids', params=[('x', INT), ('m', INT)], locals={}, ret=INT)


def is_cls(node):
    return isinstance(node, ast.Name) and node.id == 'cls'


def is_none_test(node):
    """`x is None` for a plain name `x`: the name, else None"""
    if isinstance(node, ast.Compare) and len(node.ops) == 1 and isinstance(node.ops[0], ast.Is) and isinstance(node.left, ast.Name) \
            and isinstance(node.comparators[0], ast.Constant) and node.comparators[0].value is None:
        return node.left.id
    return None


class IdentTx(FuncTx):
    def __init__(self, spec, fn, specs):
        super().__init__(spec, fn, specs=specs)
        self.exc = EXC
        self.narrow = {}                             # parameter -> (Lean name, type) where it is known not to be None
        self.records = dict(spec.get('records', {}))
        for n in ast.walk(fn):
            if is_cls(n) and not isinstance(n.ctx, ast.Load):
                raise Shape('%s: cls is assigned' % self.name)
        attr_bases = {id(n.value): n for n in ast.walk(fn) if isinstance(n, ast.Attribute)}
        for n in ast.walk(fn):
            if is_cls(n):
                a = attr_bases.get(id(n))
                if a is None or not isinstance(a.ctx, ast.Load) or a.attr not in spec['cls_params']:
                    raise Shape('%s: cls is used other than as a read of cls.%s' % (self.name, ' / cls.'.join(spec['cls_params'])))
        # cls._instanceCanon only as the right operand of `in` / `not in`
        ok = {id(c.comparators[0]) for c in ast.walk(fn) if isinstance(c, ast.Compare) and len(c.ops) == 1
              and isinstance(c.ops[0], (ast.In, ast.NotIn))}
        for n in ast.walk(fn):
            if isinstance(n, ast.Attribute) and is_cls(n.value) and n.attr == '_instanceCanon' and id(n) not in ok:
                raise Shape('%s: cls._instanceCanon is used other than as `x in cls._instanceCanon`' % self.name)
        # a record local is only assigned dict displays and returned
        for r in self.records:
            for n in ast.walk(fn):
                if isinstance(n, ast.Name) and n.id == r:
                    if isinstance(n.ctx, ast.Store):
                        continue
                    if not any(isinstance(st, ast.Return) and isinstance(st.value, ast.Tuple) and any(e is n for e in st.value.elts)
                               for st in ast.walk(fn)):
                        raise Shape('%s: the record %s is used other than by returning it' % (self.name, r))
            for st in ast.walk(fn):
                if isinstance(st, (ast.Assign, ast.AugAssign)):
                    tgs = st.targets if isinstance(st, ast.Assign) else [st.target]
                    for t in tgs:
                        if any(isinstance(m, ast.Name) and m.id == r for m in ast.walk(t)) and \
                                not (isinstance(st, ast.Assign) and len(tgs) == 1 and isinstance(t, ast.Name) and isinstance(st.value, ast.Dict)):
                            raise Shape('%s: the record %s is assigned other than by a dict display' % (self.name, r))

    # ---- names ---------------------------------------------------------------------------------------------------------
    def var(self, n):
        if n in self.narrow and n not in self.loopvars:
            if self.loop_stack:
                raise Shape('%s: %s (known not to be None) is read inside a loop body' % (self.name, n))
            return self.narrow[n]
        return super().var(n)

    def narrowable(self, test):
        """`x is None` on a None-able parameter that is never rebound: x, else None"""
        x = is_none_test(test)
        if x is None or x in self.loopvars or x in self.locals or x not in self.params or x in self.rebound or x in self.fixed:
            return None
        t = self.params[x]
        if not (isinstance(t, tuple) and t[0] == 'Option'):
            return None
        if self.loop_stack:
            raise Shape('%s: `%s is None` inside a loop body' % (self.name, x))
        return x

    def bound_name(self, x):
        b = x + '_' if not x.endswith('_') else x + 'v'
        if b in self.params or b in self.locals or b in self.loopvars or any(isinstance(n, ast.Name) and n.id == b for n in ast.walk(self.fn)):
            raise Shape('%s: the name %s is used by the translation' % (self.name, b))
        return b

    # ---- expressions ---------------------------------------------------------------------------------------------------
    def ex(self, node, expect=None):
        # cls.<attribute>: a leading parameter
        if isinstance(node, ast.Attribute) and is_cls(node.value):
            if node.attr not in self.spec['cls_params'] or not isinstance(node.ctx, ast.Load):
                raise Shape('%s: cls.%s' % (self.name, node.attr))
            return CLS_ATTRS[node.attr]
        # (a, b, c)
        if isinstance(node, ast.Tuple) and len(node.elts) == 3:
            es = [None, None, None]
            if expect and expect[0] == 'Prod' and isinstance(expect[2], tuple) and expect[2][0] == 'Prod':
                es = [expect[1], expect[2][1], expect[2][2]]
            (a, ta), (b, tb), (c, tc) = [self.ex(e, x) for e, x in zip(node.elts, es)]
            if all(x is not None for x in es):
                a, b, c = self.need(a, ta, es[0]), self.need(b, tb, es[1]), self.need(c, tc, es[2])
                ta, tb, tc = es
            return '(%s, %s, %s)' % (a, b, c), P(ta, P(tb, tc))
        # f'{a}{b}…'
        if isinstance(node, ast.JoinedStr) and len(node.values) >= 2:
            parts = []
            for v in node.values:
                if not (isinstance(v, ast.FormattedValue) and v.conversion == -1 and v.format_spec is None):
                    raise Shape('%s: f-string shape: %s' % (self.name, ast.unparse(node)[:60]))
                c, t = self.ex(v.value)
                if t == STR:
                    parts.append(c)
                elif t == NAT:
                    parts.append('(Py.strNat %s)' % c)
                else:
                    raise Shape('%s: f-string field of type %s: %s' % (self.name, ty(t), ast.unparse(v.value)))
            return '(' + ' ++ '.join(parts) + ')', STR
        # A if x is None else B
        if isinstance(node, ast.IfExp) and self.narrowable(node.test):
            x = self.narrowable(node.test)
            cx, tx = self.var(x)
            b = self.bound_name(x)
            a, ta = self.ex(node.body, expect)
            saved = dict(self.narrow)
            self.narrow[x] = (ident(b), tx[1])
            c, tc = self.ex(node.orelse, expect)
            self.narrow = saved
            if ta != tc:
                raise Shape('%s: conditional expression of a %s and a %s' % (self.name, ty(ta), ty(tc)))
            if '←' in a or '←' in c:
                raise Shape('%s: fallible branch of a conditional expression on `%s is None`' % (self.name, x))
            return '(match %s with | none => %s | some %s => %s)' % (cx, a, ident(b), c), ta
        # d[k] with a None-able k
        if isinstance(node, ast.Subscript) and isinstance(node.value, ast.Name) and not isinstance(node.slice, ast.Slice):
            base, tb = self.ex(node.value)
            if isinstance(tb, tuple) and tb[0] == 'Dict':
                k, tk = self.ex(node.slice, tb[1])
                if tk == O(tb[1]):
                    if '←' in k:
                        raise Shape('%s: fallible key' % self.name)
                    return '(← Py.dictGetO %s %s)' % (base, k), tb[2]
        if isinstance(node, ast.Call) and isinstance(node.func, ast.Name):
            f = node.func.id
            # tuple(…)
            if f == 'tuple' and len(node.args) == 1 and not node.keywords:
                a = node.args[0]
                if isinstance(a, ast.Tuple) and len(a.elts) == 2:                       # tuple((x, y)) is (x, y)
                    return self.ex(a, expect)
                if isinstance(a, ast.Call) and isinstance(a.func, ast.Name) and a.func.id == 'map' and not a.keywords \
                        and len(a.args) == 2 and isinstance(a.args[0], ast.Name) and a.args[0].id == 'str':
                    l, tl = self.ex(a.args[1])                                          # tuple(map(str, l)), l a list of names
                    if tl != L(STR):
                        raise Shape('%s: map(str, …) over a %s' % (self.name, ty(tl)))
                    return l, tl
                if isinstance(a, ast.GeneratorExp):                                     # tuple(c for _ in range(n))
                    g = a.generators
                    if len(g) != 1 or g[0].ifs or not isinstance(a.elt, ast.Constant) or not (isinstance(g[0].target, ast.Name) and g[0].target.id == '_') \
                            or not (isinstance(g[0].iter, ast.Call) and isinstance(g[0].iter.func, ast.Name) and g[0].iter.func.id == 'range'):
                        raise Shape('%s: tuple(…) of %s' % (self.name, ast.unparse(a)[:60]))
                    return self.comp(a, expect if expect and expect[0] == 'List' else None)
                if isinstance(a, ast.Name):
                    l, tl = self.ex(a)
                    if tl in (L(CHAR), L(STR)):
                        return l, tl
                    raise Shape('%s: tuple() of a %s' % (self.name, ty(tl)))
                raise Shape('%s: tuple(…) of %s' % (self.name, ast.unparse(a)[:60]))
            # sorted(d, key=lambda x: (x[0], x[1]))
            if f == 'sorted':
                if len(node.args) != 1 or len(node.keywords) != 1 or node.keywords[0].arg != 'key' or not isinstance(node.args[0], ast.Name):
                    raise Shape('%s: sorted shape: %s' % (self.name, ast.unparse(node)[:60]))
                d, td = self.ex(node.args[0])
                if td != D(CKEY, NAT):
                    raise Shape('%s: sorted of a %s' % (self.name, ty(td)))
                lam = node.keywords[0].value
                if not (isinstance(lam, ast.Lambda) and len(lam.args.args) == 1 and not (lam.args.vararg or lam.args.kwarg or lam.args.kwonlyargs
                        or lam.args.defaults or lam.args.posonlyargs)):
                    raise Shape('%s: sort key: %s' % (self.name, ast.unparse(lam)[:60]))
                x = lam.args.args[0].arg
                want = ast.dump(ast.parse('(%s[0], %s[1])' % (x, x), mode='eval').body)
                if ast.dump(lam.body) != want:
                    raise Shape('%s: sort key: %s' % (self.name, ast.unparse(lam)[:60]))
                return '(Py.sortedBy Py.ckeyLt (Py.dictKeys %s))' % d, L(CKEY)
        # d.keys()
        if isinstance(node, ast.Call) and isinstance(node.func, ast.Attribute) and node.func.attr == 'keys' and not node.args \
                and not node.keywords and isinstance(node.func.value, ast.Name):
            d, td = self.ex(node.func.value)
            if not (isinstance(td, tuple) and td[0] == 'Dict'):
                raise Shape('%s: .keys() of a %s' % (self.name, ty(td)))
            self.check_keys_view(node, node.func.value.id)
            return '(Py.dictKeys %s)' % d, L(td[1])
        return super().ex(node, expect)

    def check_keys_view(self, node, d):
        """the dict is not changed after `d.keys()` was taken (the view is live), and the call is not inside a loop"""
        if self.loop_stack:
            raise Shape('%s: %s.keys() inside a loop' % (self.name, d))
        for lp in ast.walk(self.fn):
            if isinstance(lp, (ast.For, ast.While)) and any(n is node for n in ast.walk(lp)):
                raise Shape('%s: %s.keys() inside a loop' % (self.name, d))
        pos = (node.lineno, node.col_offset)
        for st in ast.walk(self.fn):
            if isinstance(st, ast.stmt) and (st.lineno, st.col_offset) > pos:
                for n in ast.walk(st):
                    if isinstance(n, ast.Name) and n.id == d and (isinstance(n.ctx, (ast.Store, ast.Del))):
                        raise Shape('%s: %s is assigned after %s.keys()' % (self.name, d, d))
                    if isinstance(n, ast.Subscript) and isinstance(n.value, ast.Name) and n.value.id == d and not isinstance(n.ctx, ast.Load):
                        raise Shape('%s: %s is changed after %s.keys()' % (self.name, d, d))
                    if isinstance(n, ast.Call) and isinstance(n.func, ast.Attribute) and isinstance(n.func.value, ast.Name) \
                            and n.func.value.id == d and n.func.attr != 'keys':
                        raise Shape('%s: a method of %s is called after %s.keys()' % (self.name, d, d))

    # ---- statements ----------------------------------------------------------------------------------------------------
    def stmt(self, st, out, ind, inloop):
        # if x is None: A else: B        on a None-able parameter
        if isinstance(st, ast.If) and self.narrowable(st.test):
            x = self.narrowable(st.test)
            cx, tx = self.var(x)
            b = self.bound_name(x)
            out.append(ind + 'match %s with      -- if %s is None:' % (cx, x))
            out.append(ind + '| none =>')
            self.block(st.body, out, ind + '  ', inloop)
            out.append(ind + '| some %s =>      -- else: (%s is not None)' % (ident(b), x))
            saved = dict(self.narrow)
            self.narrow[x] = (ident(b), tx[1])
            self.block(st.orelse, out, ind + '  ', inloop)
            self.narrow = saved
            return
        # record = {…}
        if isinstance(st, ast.Assign) and len(st.targets) == 1 and isinstance(st.targets[0], ast.Name) and st.targets[0].id in self.records:
            r = st.targets[0].id
            fields = self.records[r]
            d = st.value
            if not isinstance(d, ast.Dict):
                raise Shape('%s: the record %s is assigned %s' % (self.name, r, ast.unparse(d)[:40]))
            if not d.keys:
                out.append(ind + self.set_local(r, 'none') + '      -- %s = {}' % r)
                return
            if not all(isinstance(k, ast.Constant) for k in d.keys) or [k.value for k in d.keys] != [k for k, _ in fields]:
                raise Shape('%s: the keys of %s are not %s' % (self.name, r, [k for k, _ in fields]))
            vals = []
            for (k, t), e in zip(fields, d.values):
                c, tc = self.ex(e, t)
                vals.append(self.need(c, tc, t))
            out.append(ind + self.set_local(r, '(some (%s))' % ', '.join(vals)) + '      -- %s = {%s}' % (r, ', '.join(repr(k) + ': …' for k, _ in fields)))
            return
        return super().stmt(st, out, ind, inloop)

    def loop(self, st, out, ind):
        for n in ast.walk(ast.Module(body=st.body + st.orelse, type_ignores=[])):
            if isinstance(n, ast.Name) and n.id in self.narrow and any(n2 is n for s in st.body for n2 in ast.walk(s)):
                raise Shape('%s: %s (known not to be None) is read inside a loop body' % (self.name, n.id))
        return super().loop(st, out, ind)


def definite_assignment_fe(fn, params, name):
    """pyfunc.definite_assignment extended by `for … else`: after the statement a name is assigned iff it is assigned at every
    `break` of the loop and at the end of the `else` block (a loop without `else` adds nothing, as before)"""
    def walk(body, have, breaks):
        for st in body:
            if isinstance(st, ast.Break):
                if breaks is not None:
                    breaks.append(set(have))
                continue
            if isinstance(st, ast.For):
                check(st.iter, have)
                inner = set(have) | {n.id for n in ast.walk(st.target) if isinstance(n, ast.Name)}
                mine = []
                walk(st.body, inner, mine)
                if st.orelse:
                    b = set(have)
                    walk(st.orelse, b, breaks)
                    for s in mine:
                        b &= s
                    have |= b
                continue
            if isinstance(st, ast.If):
                check(st.test, have)
                a, b = set(have), set(have)
                walk(st.body, a, breaks); walk(st.orelse, b, breaks)
                ends = lambda blk: blk and isinstance(blk[-1], (ast.Raise, ast.Continue, ast.Return, ast.Break))
                if ends(st.body) and ends(st.orelse): pass
                elif ends(st.body): have |= b
                elif ends(st.orelse): have |= a
                else: have |= (a & b)
                continue
            if isinstance(st, (ast.Assign, ast.AugAssign)):
                check(st.value, have)
                tgs = st.targets if isinstance(st, ast.Assign) else [st.target]
                if isinstance(st, ast.AugAssign):
                    check(st.target, have, load_too=True)
                for t in tgs:
                    if isinstance(t, ast.Name):
                        have.add(t.id)
                    elif isinstance(t, ast.Tuple):
                        have |= {e.id for e in ast.walk(t) if isinstance(e, ast.Name)}
                    else:
                        check(t, have, load_too=True)
                continue
            if isinstance(st, (ast.Try, ast.While, ast.With, ast.FunctionDef, ast.ClassDef)):
                raise Shape('%s: statement %s' % (name, type(st).__name__))
            check(st, have)
    def check(node, have, load_too=False):
        if isinstance(node, ast.Lambda):
            return check(node.body, set(have) | {a.arg for a in node.args.args}, load_too)
        if isinstance(node, (ast.ListComp, ast.GeneratorExp)):
            inner = set(have)
            for g in node.generators:
                check(g.iter, inner, load_too)
                inner |= {n.id for n in ast.walk(g.target) if isinstance(n, ast.Name)}
                for c in g.ifs:
                    check(c, inner, load_too)
            return check(node.elt, inner, load_too)
        if isinstance(node, ast.Name):
            if (isinstance(node.ctx, ast.Load) or load_too) and node.id not in have and node.id not in BUILTINS | {'tuple', 'sorted', 'str'}:
                raise Shape('%s: %s may be read before it is assigned' % (name, node.id))
            return
        for n in ast.iter_child_nodes(node):
            check(n, have, load_too)
    walk(fn.body, set(params), None)


def find_class(tree, name):
    c = [n for n in tree.body if isinstance(n, ast.ClassDef) and n.name == name]
    if len(c) != 1:
        raise Shape('class %s not found exactly once' % name)
    return c[0]


def find_classmethod(cls, name):
    found = [n for n in cls.body if isinstance(n, (ast.FunctionDef, ast.AsyncFunctionDef, ast.ClassDef)) and n.name == name]
    if len(found) != 1 or not isinstance(found[0], ast.FunctionDef):
        raise Shape('%s.%s is not defined exactly once' % (cls.name, name))
    if [ast.unparse(d) for d in found[0].decorator_list] != ['classmethod']:
        raise Shape('%s.%s: decorators %s' % (cls.name, name, [ast.unparse(d) for d in found[0].decorator_list]))
    for n in cls.body:
        if isinstance(n, (ast.Assign, ast.AugAssign, ast.AnnAssign)) and any(isinstance(m, ast.Name) and m.id == name for m in ast.walk(n)):
            raise Shape('%s.%s is rebound by an assignment in the class body' % (cls.name, name))
    return found[0]


def plain_function(fn, spec):
    """the classmethod as a plain function of its declared parameters: `cls` dropped, `**kwargs` unused, names renamed"""
    a = fn.args
    if not a.args or a.args[0].arg != 'cls':
        raise Shape('%s: first parameter is not cls' % spec['name'])
    if a.vararg or a.kwonlyargs or a.posonlyargs:
        raise Shape('%s: parameter list shape' % spec['name'])
    if a.kwarg is not None and any(isinstance(n, ast.Name) and n.id == a.kwarg.arg for s in fn.body for n in ast.walk(s)):
        raise Shape('%s: **%s is used' % (spec['name'], a.kwarg.arg))
    g = copy.deepcopy(fn)
    g.args.args = g.args.args[1:]
    g.args.kwarg = None
    g.decorator_list = []
    ren = spec.get('rename', {})
    for n in ast.walk(g):
        if isinstance(n, ast.Name) and n.id in ren.values() or isinstance(n, ast.arg) and n.arg in ren.values():
            raise Shape('%s: the name %s is used by the translation' % (spec['name'], n.id if isinstance(n, ast.Name) else n.arg))
    for n in ast.walk(g):
        if isinstance(n, ast.Name) and n.id in ren:
            n.id = ren[n.id]
        elif isinstance(n, ast.arg) and n.arg in ren:
            n.arg = ren[n.arg]
    declared = [x.arg for x in g.args.args]
    want = [p for p, _ in spec['params']]
    if declared != want:
        raise Shape('%s: parameters changed: %s' % (spec['name'], declared))
    # the defaults of the None-able parameters are None (a call that omits them passes None, as the stub's caller does)
    names = declared[len(declared) - len(g.args.defaults):]
    for q, dflt in zip(names, g.args.defaults):
        if not (isinstance(dflt, ast.Constant) and dflt.value is None):
            raise Shape('%s: default of %s is not None' % (spec['name'], q))
    return g


def stub_text(spec, reason):
    sig = ' '.join('(%s : %s)' % (CLS_ATTRS[a][0], ty(CLS_ATTRS[a][1])) for a in spec['cls_params'])
    sig += ''.join(' (%s : %s)' % (ident(q), ty(t)) for q, t in spec['params'])
    return ('/-- `%s` (%s) could NOT be translated: %s -/\n' % (spec['name'], PATH, reason.replace('-/', '- /')) +
            'def py_%s %s : Py.M (%s) := throw (Err.fault "untranslated")\n' % (spec['name'], sig, ty(spec['ret'])))


def gen_pyident(repo):
    out = ['/- GENERATED by translator/pyident.py from the Python source — do not edit. -/',
           'import DsdVerif.Gen.PyFuncs', 'import DsdVerif.Model.PyPreludeIdent', '', 'set_option linter.unusedVariables false', '',
           'namespace Dsd.Gen', 'open Dsd', '']
    scratch = []
    _, done = translate(repo, FUNCS, scratch, want_done=True)          # the stubs of the complex_utils.py functions (Gen/PyFuncs.lean)
    tree = ast.parse(open(os.path.join(repo, PATH)).read())
    cu = ast.parse(open(os.path.join(repo, 'dsdobjects/complex_utils.py')).read())
    builtins_unshadowed(tree, {'isinstance', 'list', 'zip', 'all', 'len', 'reversed', 'set', 'str', 'range', 'tuple', 'sorted', 'map',
                               'NotImplementedError'})
    # ObjectInitError is THE class defined in this module: one class definition at module level, bound nowhere else
    bound = [n for n in ast.walk(tree) if (isinstance(n, ast.Name) and n.id == 'ObjectInitError' and isinstance(n.ctx, (ast.Store, ast.Del)))
             or (isinstance(n, (ast.ClassDef, ast.FunctionDef)) and n.name == 'ObjectInitError')
             or (isinstance(n, ast.alias) and (n.asname or n.name).split('.')[0] == 'ObjectInitError')
             or (isinstance(n, ast.arg) and n.arg == 'ObjectInitError')]
    if len(bound) != 1 or not (isinstance(bound[0], ast.ClassDef) and bound[0] in tree.body):
        raise Shape('ObjectInitError is not bound exactly once, by a class definition at module level')
    # wrap on ints of either sign
    wfn = find_function(cu, 'wrap')
    check_signature(wfn, WRAP_IDS)
    wspec = dict(WRAP_IDS, _fn=wfn)
    definite_assignment(wfn, ['x', 'm'], 'wrap')
    out.append(FuncTx(wspec, wfn).run())
    done['wrap_ids'] = wspec
    summary, untranslated = {}, {}
    for spec in IDENT_METHODS:
        s = dict(spec, path=PATH, lean=spec['name'], str_is_builtin=True)
        s['params'] = [(CLS_ATTRS[a][0], CLS_ATTRS[a][1]) for a in spec['cls_params']] + list(spec['params'])
        fn = None
        try:
            cls = find_class(tree, spec['cls'])
            fn = find_classmethod(cls, spec['method'])
            g = plain_function(fn, spec)
            s['_fn'] = g
            callees = {}
            for c in spec.get('callees', ()):
                cname, ckey = (c, c) if isinstance(c, str) else c
                if ckey not in done or done[ckey]['name'] != cname:
                    raise Shape('%s: the callee %s is not translated' % (spec['name'], ckey))
                if not imported_from(tree, cname, 'complex_utils'):
                    raise Shape('%s: %s is not imported from .complex_utils exactly once' % (spec['name'], cname))
                callees[cname] = done[ckey]
            definite_assignment_fe(g, [p for p, _ in spec['params']] + ['cls'] + list(EXC) + list(callees), spec['name'])
            tx = IdentTx(s, g, callees)
            text = tx.run()
            nloops = tx.nloops
        except Shape as e:
            # the method has none of the accepted shapes any more: a stub of the right type that raises, so that the other method
            # keeps its translation; every theorem and stream about THIS method breaks.  Reported in the summary.
            untranslated[spec['name']] = str(e)
            text, nloops = stub_text(spec, str(e)), 0
        out.append(text)
        summary[spec['name']] = {'statements': (sum(1 for _ in ast.walk(fn) if isinstance(_, ast.stmt)) - 1) if fn is not None else 0,
                                 'loops': nloops, 'source_lines': (fn.end_lineno - fn.lineno + 1) if fn is not None else 0}
    out.append('end Dsd.Gen')
    if untranslated:
        summary['untranslated'] = untranslated
    return '\n'.join(out) + '\n', summary


if __name__ == '__main__':
    text, summ = gen_pyident(sys.argv[1])
    sys.stdout.write(text)
    sys.stderr.write(repr(summ) + '\n')
