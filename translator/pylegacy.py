#!/usr/bin/env python3
"""Statement-level translation of the METHODS of the legacy class `DSD_Complex` (dsdobjects/core/deprecated.py) into Lean 4
(`Gen/PyLegacy.lean`).

    /venv/bin/python translator/pylegacy.py <repo>  > lean/DsdVerif/Gen/PyLegacy.lean

An extension of translator/pymethod.py (class `LegacyTx(MethodTx)`; the same rules, the same refusal policy: a statement that has
none of the accepted shapes raises `Shape`, the method is replaced by a raising stub and reported under `untranslated`).  The
translator knows nothing about what the methods are supposed to compute.  The object is the record `DSD_Complex.Self` (one field
per attribute of ATTRS, in the order of `__init__`), a method is a computation in
`DSD_Complex.M = Py.MS DSD_Complex.Self = ExceptT Err (StateM DSD_Complex.Self)`; `py_DSD_Complex_init` is read off `__init__`
(every ATTRS attribute assigned exactly once at the top level of its body: a parameter or `None`).

Reading of Python ADDED here (each as narrow as the methods of this class need; everything else is pymethod.py / pyfunc.py):

  self.a.index(x)   for a list attribute `a`: `(← Py.index (← get).a x)` - the position of the first element equal to `x`,
              ValueError if there is none (`list.index`).
  list(map(len, X))   `map` with the BUILT-IN `len` (not a lambda) directly under `list(…)`, `X` a list of lists or a `None`-able
              one: `List.map List.length X'`; `X' = (← Py.unwrap X)` when `X` may be `None` (`map(len, None)` is a TypeError).
              `len`, `map`, `list` must not be bound anywhere in the module (checked).
  return self   only as the LAST statement of a method whose stub says `returns_self` and that has no other `return`: the method
              returns the object it was called on.  The translation has result type `Unit`; the object a caller receives IS the
              state of the monad after the call (the statement is removed before the body is translated, falling off the end
              of a `Unit` method is its normal exit).
  try … except IndexError: H   inside a method (also inside a loop of a method), rule "try" of pyfunc.py (the body runs on a
              snapshot of the locals; its checks on what the body assigns apply unchanged), accepted only when neither the body nor
              the handler mentions `self`: the snapshot block is a computation in `Py.M = Except Err` on the locals alone, so no
              attribute assignment can be lost or kept wrongly; the handler may raise.
  raise DSDObjectsError(…)   `throw (Err.fault "DSDObjectsError")` (message dropped; `Err` has no constructor of its own for it);
              the class must be defined in the module exactly once (checked).  `SecondaryStructureError` must be imported from
              `dsdobjects.complex_utils` (checked) - it is the class the translated utility functions raise.
  x[i] = e on a local that holds a value of the object   in-place item assignment to a local `x` that was assigned from `self…`
              is accepted only if EVERY assignment of `x` in the method is `x = self.<p>` for a property `p` whose stub says
              `fresh_copy` and whose body is checked to be exactly `return self.<attr>[:]`: the slice is a new list, so `x` is
              fresh (rule "mutation" of pyfunc.py) and the attribute is not changed through it.  Otherwise `Shape`.
  deprecated wrappers   `make_lol_sequence`, `make_pair_table`, `make_loop_index` are imported from `dsdobjects.utils` (checked:
              bound exactly once in deprecated.py, by that import).  In dsdobjects/utils.py each must be a PURE DELEGATION
              (checked on the text of utils.py, nothing else is accepted):
                  def f(*args, **kwargs): warnings.warn(<str literal>); return g(*args, **kwargs)        or
                  def f(s):               warnings.warn(<str literal>); return g(s)
              where `g` is bound exactly once in utils.py, by `from .complex_utils import g0 [as g]`, and `warnings` is the
              module imported by `import warnings`.  `warnings.warn(<literal>)` has no effect on values (a warning is not an
              exception unless a filter turns it into one - the harness and the library's users do not).  A call `f(args)` in the
              class is then read as the call `g0(args)` of the function of complex_utils.py translated in Gen/PyFuncs.lean (rule
              "calls" / "defaults" of pyfunc.py: omitted parameters take the constant defaults of g0's `def`; `make_loop_index`
              with the default `components=False` gives the pair `(loop_index, exterior)`); for the one-parameter form the call
              must pass exactly one positional argument.  `make_lol_sequence` is `make_strand_table` at the typing "Python list
              of names" (`py_make_strand_table_list`).
  self.m      a property / method of `DSD_Complex` translated before (stub `uses`): `(← py_DSD_Complex_m args)`.
  None-able int of either sign   (`n` of `rotate_pairtable_loc`, typed `Option Int`): `n = e` for a non-negative int `e` stores
              `some (Int.ofNat e)`; `a + n` / `n + a` needs the int: `(← Py.unwrap n)`, TypeError for `None` as in Python 3
              (`int + None`).  The nested `def wrap(x, m)` is rule "nested def" of pyfunc.py at the typing `Int`, `Int`
              (floored `%` = `Py.imod`, ZeroDivisionError for `m = 0`).

Typing (stubs METHODS): sequence elements are names (`String`), structure elements one-character strs (`Char`), loci are pairs of
NON-NEGATIVE ints (`Nat × Nat`: `loc[0] < 0` is then decidably false; a negative entry is outside the typing), `pos` of
`strand_length` is a non-negative int.

Not translated: `__init__` beyond the attribute initialisation (naming, class registry `NAMES` / `MEMORY` / `ID`, `warnings`),
`canonical_form`, `do_memorycheck`, `rotate` (a generator over `self.size` that yields the object itself), `rotations`, the `name`
setter (registries), `domains` (sets, `sorted` with a key on
domain objects), `is_domainlevel_complement` (the `~` operator of domain objects), `strands`, the dunder methods.
"""
import ast, copy, os, sys
sys.path.insert(0, os.path.dirname(os.path.abspath(__file__)))
from pyfunc import (FuncTx, Shape, NAT, INT, CHAR, STR, BOOL, TEXT, L, O, P, LOC, PTAB, STAB, ty, ident, FUNCS, translate,
                    check_signature, definite_assignment, imported_from, builtins_unshadowed, find_function)
from pymethod import MethodTx, find_class, find_method, without_self, is_self

PATH = 'dsdobjects/core/deprecated.py'
UTILS = 'dsdobjects/utils.py'
CLS = 'DSD_Complex'

# the attributes of a DSD_Complex object that the translated methods touch, with their types (order of `__init__`)
ATTRS = [
    ('_sequence', L(STR)), ('_structure', L(CHAR)), ('_strand_lengths', O(L(NAT))),
    ('_pair_table', O(PTAB)), ('_loop_index', O(L(L(NAT)))), ('_exterior_loops', O(L(NAT))), ('_lol_sequence', O(STAB)),
    ('_exterior_domains', O(L(LOC))), ('_enclosed_domains', O(L(LOC))),
]
INIT_PARAMS = {'_sequence': 'sequence', '_structure': 'structure'}

EXC = {'SecondaryStructureError': 'Err.secondaryStructure', 'IndexError': '(Err.fault "IndexError")',
       'DSDObjectsError': '(Err.fault "DSDObjectsError")'}

# deprecated wrapper (name in deprecated.py) -> (function of complex_utils.py it must delegate to, its typed instance in Gen/PyFuncs)
WRAPPERS = {'make_lol_sequence': ('make_strand_table', 'make_strand_table_list'),
            'make_pair_table': ('make_pair_table', 'make_pair_table'),
            'make_loop_index': ('make_loop_index', 'make_loop_index')}

LI = P(L(L(NAT)), L(NAT))

# typing stubs -> Lean names `py_DSD_Complex_<lean>`
METHODS = [
    dict(method='sequence', kind='getter', lean='sequence', params=[], locals={}, ret=L(STR)),
    dict(method='structure', kind='getter', lean='structure', params=[], locals={}, ret=L(CHAR), fresh_copy='_structure'),
    dict(method='rotate_once', kind='method', lean='rotate_once', params=[], locals={'p': NAT, 'tmpstruct': L(CHAR), 'stack': L(NAT)},
         ret='Unit', returns_self=True, uses=['structure']),
    dict(method='size', kind='getter', lean='size', params=[], locals={}, ret=NAT, callees=['make_lol_sequence']),
    dict(method='strand_length', kind='method', lean='strand_length', params=[('pos', NAT)], locals={}, ret=NAT,
         callees=['make_lol_sequence']),
    dict(method='pair_table', kind='getter', lean='pair_table', params=[], locals={}, ret=PTAB, callees=['make_pair_table'],
         uses=['structure']),
    dict(method='get_paired_loc', kind='method', lean='get_paired_loc', params=[('loc', LOC)], locals={}, ret=O(LOC),
         callees=['make_pair_table'], uses=['structure']),
    dict(method='loop_index', kind='getter', lean='loop_index', params=[], locals={}, ret=LI,
         callees=['make_pair_table', 'make_loop_index'], uses=['structure']),
    dict(method='get_loop_index', kind='method', lean='get_loop_index', params=[('loc', LOC)], locals={}, ret=NAT,
         callees=['make_pair_table', 'make_loop_index'], uses=['structure']),
    dict(method='exterior_domains', kind='getter', lean='exterior_domains', params=[], locals={}, ret=O(L(LOC)),
         callees=['make_pair_table', 'make_loop_index'], uses=['structure']),
    dict(method='enclosed_domains', kind='getter', lean='enclosed_domains', params=[], locals={}, ret=O(L(LOC)),
         uses=['exterior_domains']),
    dict(method='is_connected', kind='getter', lean='is_connected', params=[], locals={}, ret=BOOL,
         callees=['make_pair_table', 'make_loop_index'], uses=['structure']),
    dict(method='kernel_string', kind='getter', lean='kernel_string', params=[], locals={'seq': L(STR), 'sst': L(CHAR), 'knl': TEXT},
         ret=TEXT),
    dict(method='lol_sequence', kind='getter', lean='lol_sequence', params=[], locals={}, ret=STAB, callees=['make_lol_sequence']),
    dict(method='get_domain', kind='method', lean='get_domain', params=[('loc', LOC)], locals={}, ret=STR,
         callees=['make_lol_sequence']),
    # `loc[0]` and `n` are ints of either sign (the method exists to map loci of OTHER rotations), `loc[1]` a non-negative int
    dict(method='rotate_pairtable_loc', kind='method', lean='rotate_pairtable_loc', params=[('loc', P(INT, NAT)), ('n', O(INT))],
         locals={}, nested={'wrap': dict(params=[('x', INT), ('m', INT)], locals={}, ret=INT)}, ret=P(INT, NAT), uses=['size']),
]


# ---- the deprecated wrappers of utils.py ------------------------------------------------------------------------------------
def import_target(tree, local):
    """`local` is bound exactly once at module level, by `from <module> import <name> [as local]`: (module, level, name)"""
    binders = []
    for n in tree.body:
        if isinstance(n, ast.ImportFrom):
            binders += [(n.module, n.level, a.name) for a in n.names if (a.asname or a.name) == local]
        elif isinstance(n, ast.Import):
            binders += [None for a in n.names if (a.asname or a.name.split('.')[0]) == local]
        elif isinstance(n, (ast.FunctionDef, ast.ClassDef)) and n.name == local:
            binders.append(None)
        elif isinstance(n, (ast.Assign, ast.AugAssign, ast.AnnAssign, ast.For, ast.With, ast.If, ast.Try, ast.While)):
            binders += [None for m in ast.walk(n) if isinstance(m, ast.Name) and isinstance(m.ctx, ast.Store) and m.id == local]
    if len(binders) != 1 or binders[0] is None:
        raise Shape('%s is not bound exactly once, by a from-import' % local)
    return binders[0]


def delegation(utils, name):
    """the wrapper `name` of utils.py is a pure delegation (one of the two accepted forms): (form, the complex_utils function)"""
    defs = [n for n in utils.body if isinstance(n, (ast.FunctionDef, ast.ClassDef)) and n.name == name]
    if len(defs) != 1 or not isinstance(defs[0], ast.FunctionDef) or defs[0].decorator_list:
        raise Shape('utils.%s is not defined exactly once as a plain function' % name)
    if any(isinstance(m, ast.Name) and isinstance(m.ctx, (ast.Store, ast.Del)) and m.id == name for m in ast.walk(utils)):
        raise Shape('utils.%s is rebound' % name)
    fn = defs[0]
    a = fn.args
    body = [s for s in fn.body if not (isinstance(s, ast.Expr) and isinstance(s.value, ast.Constant) and isinstance(s.value.value, str))]
    if len(body) != 2:
        raise Shape('utils.%s: not `warnings.warn(…); return g(…)`' % name)
    w, r = body
    ok_warn = (isinstance(w, ast.Expr) and isinstance(w.value, ast.Call) and isinstance(w.value.func, ast.Attribute)
               and isinstance(w.value.func.value, ast.Name) and w.value.func.value.id == 'warnings' and w.value.func.attr == 'warn'
               and len(w.value.args) == 1 and not w.value.keywords and isinstance(w.value.args[0], ast.Constant)
               and isinstance(w.value.args[0].value, str))
    if not ok_warn:
        raise Shape('utils.%s: first statement is not warnings.warn(<literal>)' % name)
    imports_warnings = [n for n in utils.body if isinstance(n, ast.Import) and any((x.asname or x.name) == 'warnings' for x in n.names)]
    if len(imports_warnings) != 1 or any(x.name != 'warnings' for n in imports_warnings for x in n.names if (x.asname or x.name) == 'warnings') \
            or any(isinstance(m, ast.Name) and isinstance(m.ctx, (ast.Store, ast.Del)) and m.id == 'warnings' for m in ast.walk(utils)):
        raise Shape('utils: `warnings` is not the module `warnings`')
    if not (isinstance(r, ast.Return) and isinstance(r.value, ast.Call) and isinstance(r.value.func, ast.Name)):
        raise Shape('utils.%s: second statement is not `return g(…)`' % name)
    c = r.value
    if a.vararg and a.kwarg and not (a.args or a.kwonlyargs or a.posonlyargs or a.defaults):
        ok = (len(c.args) == 1 and isinstance(c.args[0], ast.Starred) and isinstance(c.args[0].value, ast.Name)
              and c.args[0].value.id == a.vararg.arg and len(c.keywords) == 1 and c.keywords[0].arg is None
              and isinstance(c.keywords[0].value, ast.Name) and c.keywords[0].value.id == a.kwarg.arg)
        form = 'all'
    elif len(a.args) == 1 and not (a.vararg or a.kwarg or a.kwonlyargs or a.posonlyargs or a.defaults):
        ok = len(c.args) == 1 and isinstance(c.args[0], ast.Name) and c.args[0].id == a.args[0].arg and not c.keywords
        form = 'one'
    else:
        ok, form = False, None
    if not ok:
        raise Shape('utils.%s does not pass its parameters on unchanged' % name)
    module, level, target = import_target(utils, c.func.id)
    if (module, level) != ('complex_utils', 1):
        raise Shape('utils.%s delegates to %s of %s' % (name, target, module))
    return form, target


def strip_return_self(fn, name):
    """`return self` as the last statement and no other `return`: removed (the result is the object = the state)"""
    if not (fn.body and isinstance(fn.body[-1], ast.Return) and is_self(fn.body[-1].value)):
        raise Shape('%s: the last statement is not `return self`' % name)
    if sum(1 for n in ast.walk(fn) if isinstance(n, ast.Return)) != 1:
        raise Shape('%s: another return next to the final `return self`' % name)
    g = copy.copy(fn)
    g.body = fn.body[:-1]
    return g


def is_fresh_copy(fn, attr):
    """the body of the property is exactly `return self.<attr>[:]`"""
    body = [s for s in fn.body if not (isinstance(s, ast.Expr) and isinstance(s.value, ast.Constant) and isinstance(s.value.value, str))]
    if len(body) != 1 or not isinstance(body[0], ast.Return):
        return False
    v = body[0].value
    return (isinstance(v, ast.Subscript) and isinstance(v.slice, ast.Slice) and v.slice.lower is None and v.slice.upper is None
            and v.slice.step is None and isinstance(v.value, ast.Attribute) and is_self(v.value.value) and v.value.attr == attr)


class LegacyTx(MethodTx):
    M = 'DSD_Complex.M'

    def __init__(self, spec, fn, specs, methods):
        super().__init__(spec, fn, specs, methods)
        self.attrs = dict(ATTRS)
        self.exc = EXC

    # ---- expressions -----------------------------------------------------------------------------------------------
    def method_call(self, name, args, keywords, as_value=True):
        code, t = super().method_call(name, args, keywords, as_value)
        if not code.startswith('(← py_ComplexS_'):
            raise Shape('%s: unexpected shape of a method call' % self.name)
        return '(← py_DSD_Complex_' + code[len('(← py_ComplexS_'):], t

    def ex(self, node, expect=None):
        # self.a.index(x)
        if isinstance(node, ast.Call) and isinstance(node.func, ast.Attribute) and node.func.attr == 'index' \
                and isinstance(node.func.value, ast.Attribute) and is_self(node.func.value.value):
            a = node.func.value.attr
            if a not in self.attrs or self.attrs[a][0] != 'List' or len(node.args) != 1 or node.keywords:
                raise Shape('%s: self.%s.index shape' % (self.name, a))
            t = self.attrs[a]
            x, tx = self.ex(node.args[0], t[1])
            return '(← Py.index (← get).%s %s)' % (a, self.need(x, tx, t[1])), NAT
        # list(map(len, X))
        if isinstance(node, ast.Call) and isinstance(node.func, ast.Name) and node.func.id == 'list' and len(node.args) == 1 \
                and not node.keywords and isinstance(node.args[0], ast.Call) and isinstance(node.args[0].func, ast.Name) \
                and node.args[0].func.id == 'map' and len(node.args[0].args) == 2 and not node.args[0].keywords \
                and isinstance(node.args[0].args[0], ast.Name) and node.args[0].args[0].id == 'len':
            if 'len' in self.locals or 'len' in self.params or 'len' in self.loopvars:
                raise Shape('%s: len is a variable' % self.name)
            a, ta = self.ex(node.args[0].args[1])
            if isinstance(ta, tuple) and ta[0] == 'Option':
                a, ta = '(← Py.unwrap %s)' % a, ta[1]                 # map(len, None) is a TypeError
            if not (isinstance(ta, tuple) and ta[0] == 'List' and isinstance(ta[1], tuple) and ta[1][0] == 'List'):
                raise Shape('%s: list(map(len, …)) over a %s' % (self.name, ty(ta)))
            return '(List.map List.length %s)' % a, L(NAT)
        # a + n with a None-able int of either sign: the int is needed (TypeError for None)
        if isinstance(node, ast.BinOp) and isinstance(node.op, ast.Add):
            sides = []
            for x in (node.left, node.right):
                if isinstance(x, ast.Name) and x.id not in self.loopvars and self.var(x.id)[1] == O(INT):
                    sides.append(('(← Py.unwrap %s)' % self.var(x.id)[0], INT))
                else:
                    sides.append(None)
            if any(sides):
                (a, ta), (b, tb) = [sd if sd is not None else self.ex(x, INT) for sd, x in zip(sides, (node.left, node.right))]
                if ta in (NAT, INT) and tb in (NAT, INT):
                    return '(%s + %s)' % (self.need(a, ta, INT), self.need(b, tb, INT)), INT
                raise Shape('%s: + on %s and %s' % (self.name, ty(ta), ty(tb)))
        return super().ex(node, expect)

    def need(self, code, t, want):
        if want == O(INT) and t == NAT:                       # a non-negative int stored in a None-able int of either sign
            return '(some (Int.ofNat %s))' % code
        return super().need(code, t, want)

    def call(self, node, as_iter=False):
        f = node.func.id
        if f in self.specs and self.specs[f].get('_wrapper') == 'one':
            if len(node.args) != 1 or node.keywords or isinstance(node.args[0], ast.Starred):
                raise Shape('%s: the one-parameter wrapper %s is not called with one positional argument' % (self.name, f))
        if any(isinstance(a, ast.Starred) for a in node.args) or any(kw.arg is None for kw in node.keywords):
            raise Shape('%s: * / ** in a call of %s' % (self.name, f))
        return super().call(node, as_iter)

    # ---- statements ------------------------------------------------------------------------------------------------
    def stmt(self, st, out, ind, inloop):
        # x[i] = e on a local that holds a value of the object: only if x is always a fresh copy (`x = self.<p>`, p = `return self.a[:]`)
        if isinstance(st, ast.Assign) and len(st.targets) == 1 and isinstance(st.targets[0], ast.Subscript):
            base = st.targets[0].value
            while isinstance(base, ast.Subscript):
                base = base.value
            if isinstance(base, ast.Name) and base.id in self.from_self and base.id not in self.fresh_locals:
                raise Shape('%s: item assignment to %s, which holds a value of the object that is not a fresh copy' % (self.name, base.id))
        return super().stmt(st, out, ind, inloop)

    def try_(self, st, out, ind, inloop):
        h = st.handlers[0] if len(st.handlers) == 1 else None
        if h is not None and isinstance(h.type, ast.Name) and h.type.id == 'IndexError':
            if any(is_self(n) for s in st.body + h.body for n in ast.walk(s)):
                raise Shape('%s: try … except IndexError that mentions self' % self.name)
            if h.name is not None:
                raise Shape('%s: the handler binds the exception object' % self.name)
            saved, self.M = self.M, 'Py.M'                    # the snapshot block is a computation on the locals alone
            try:
                return FuncTx.try_(self, st, out, ind, inloop)
            finally:
                self.M = saved
        return super().try_(st, out, ind, inloop)

    def run(self):
        # locals whose every assignment is `x = self.<p>` for a property p checked to return a fresh copy
        assigned = {}
        for n in ast.walk(self.fn):
            if isinstance(n, (ast.Assign, ast.AugAssign, ast.For)):
                tgs = n.targets if isinstance(n, ast.Assign) else [n.target]
                for t in tgs:
                    for m in ast.walk(t):
                        if isinstance(m, ast.Name) and isinstance(m.ctx, ast.Store):
                            ok = (isinstance(n, ast.Assign) and len(n.targets) == 1 and t is m and isinstance(n.value, ast.Attribute)
                                  and is_self(n.value.value) and self.methods.get(n.value.attr, {}).get('fresh_copy_checked'))
                            assigned.setdefault(m.id, []).append(bool(ok))
        self.fresh_locals = {x for x, oks in assigned.items() if all(oks)}
        return super().run()


def gen_init(cls):
    """`py_DSD_Complex_init`: the attribute initialisation of `__init__` (each ATTRS attribute assigned once, at top level, a
    parameter or None; the parameter is not rebound in `__init__`)"""
    init = [n for n in cls.body if isinstance(n, ast.FunctionDef) and n.name == '__init__']
    if len(init) != 1:
        raise Shape('%s.__init__ not found exactly once' % cls.name)
    init = init[0]
    pnames = [a.arg for a in init.args.args]
    vals = {}
    for n in ast.walk(init):
        if isinstance(n, ast.Attribute) and is_self(n.value) and isinstance(n.ctx, ast.Store) and n.attr in dict(ATTRS):
            top = [st for st in init.body if isinstance(st, ast.Assign) and len(st.targets) == 1 and st.targets[0] is n]
            if len(top) != 1 or n.attr in vals:
                raise Shape('%s.__init__: self.%s is not assigned exactly once at the top level' % (cls.name, n.attr))
            vals[n.attr] = top[0].value
    fields = []
    for a, t in ATTRS:
        if a not in vals:
            raise Shape('%s.__init__ does not assign self.%s' % (cls.name, a))
        v = vals[a]
        if a in INIT_PARAMS:
            if not (isinstance(v, ast.Name) and v.id == INIT_PARAMS[a] and v.id in pnames):
                raise Shape('%s.__init__: self.%s = %s' % (cls.name, a, ast.unparse(v)))
            if any(isinstance(m, ast.Name) and isinstance(m.ctx, (ast.Store, ast.Del)) and m.id == v.id for m in ast.walk(init)):
                raise Shape('%s.__init__ rebinds the parameter %s' % (cls.name, v.id))
            fields.append('%s := %s' % (a, ident(INIT_PARAMS[a])))
        else:
            if not (isinstance(v, ast.Constant) and v.value is None):
                raise Shape('%s.__init__: self.%s = %s (expected None)' % (cls.name, a, ast.unparse(v)))
            fields.append('%s := none' % a)
    return ('/-- the attributes of a new object as `__init__` assigns them (before `canonical_form` runs when `memorycheck` is set) -/\n'
            'def py_DSD_Complex_init (sequence : List String) («structure» : List Char) : DSD_Complex.Self :=\n'
            '  { %s }\n' % ', '.join(fields))


def gen_pylegacy(repo):
    out = ['/- GENERATED by translator/pylegacy.py from the Python source — do not edit. -/',
           'import DsdVerif.Gen.PyFuncs', '', 'set_option linter.unusedVariables false', '', 'namespace Dsd.Gen', 'open Dsd', '']
    scratch = []
    _, done = translate(repo, FUNCS, scratch, want_done=True)     # stubs of the complex_utils.py functions (Gen/PyFuncs.lean)
    tree = ast.parse(open(os.path.join(repo, PATH)).read())
    utils = ast.parse(open(os.path.join(repo, UTILS)).read())
    builtins_unshadowed(tree, {'list', 'map', 'len', 'reversed', 'range', 'enumerate', 'str'})
    cls = find_class(tree, CLS)
    # the exception classes
    if sum(1 for n in ast.walk(tree) if isinstance(n, ast.ClassDef) and n.name == 'DSDObjectsError') != 1 \
            or not any(isinstance(n, ast.ClassDef) and n.name == 'DSDObjectsError' for n in tree.body):
        raise Shape('DSDObjectsError is not defined exactly once at module level')
    if not imported_from(tree, 'SecondaryStructureError', 'dsdobjects.complex_utils'):
        raise Shape('SecondaryStructureError is not imported from dsdobjects.complex_utils exactly once')
    # the deprecated wrappers: pure delegations to the translated functions of complex_utils.py
    wrappers = {}
    for w, (target, key) in WRAPPERS.items():
        if not imported_from(tree, w, 'dsdobjects.utils'):
            raise Shape('%s is not imported from dsdobjects.utils exactly once' % w)
        form, tgt = delegation(utils, w)
        if tgt != target or key not in done or done[key]['name'] != target:
            raise Shape('utils.%s delegates to %s, expected the translated %s' % (w, tgt, target))
        wrappers[w] = dict(done[key], _wrapper=form)
    out.append('/-- the part of a `DSD_Complex` object that the translated methods read or write -/')
    out.append('structure DSD_Complex.Self where\n' + '\n'.join('  %s : %s' % (a, ty(t)) for a, t in ATTRS) + '\nderiving Repr, DecidableEq\n')
    out.append('abbrev DSD_Complex.M := Py.MS DSD_Complex.Self\n')
    out.append(gen_init(cls))
    methods, summary, untranslated = {}, {}, {}
    for spec in METHODS:
        fn = find_method(cls, spec['method'], spec['kind'])
        full = 'DSD_Complex_' + spec['lean']
        s = dict(spec, name=full, lean=full, lean_full=full, path=PATH, str_is_builtin=True)
        sig = ' '.join('(%s : %s)' % (ident(q), ty(tq)) for q, tq in spec['params'])
        rt = 'Unit' if spec['ret'] == 'Unit' else '(%s)' % ty(spec['ret'])
        tx, fn2 = None, None
        try:
            fn2 = without_self(fn)
            if spec.get('returns_self'):
                fn2 = strip_return_self(fn2, full)
            s['_fn'] = fn2
            check_signature(fn2, s)
            callees = {}
            for c in spec.get('callees', ()):
                callees[c] = wrappers[c]
            uses = {}
            for u in spec.get('uses', ()):
                if u not in methods:
                    raise Shape('%s: self.%s is not translated before it' % (full, u))
                uses[u] = methods[u]
            definite_assignment(fn2, [p for p, _ in spec['params']] + ['self', 'str', 'DSDObjectsError'] + list(callees), full)
            tx = LegacyTx(s, fn2, callees, uses)
            text = tx.run()
            checked = bool(spec.get('fresh_copy')) and is_fresh_copy(fn2, spec['fresh_copy'])
            if spec.get('fresh_copy') and not checked:
                raise Shape('%s: the body is no longer `return self.%s[:]` (callers mutate the copy)' % (full, spec['fresh_copy']))
        except Shape as e:
            # this method has none of the accepted shapes any more: a stub of the right type that raises, so that the other methods
            # keep their translations; every theorem and stream about THIS method breaks, nothing else does (summary `untranslated`)
            untranslated[full] = str(e)
            text = ('/-- `%s` (%s) could NOT be translated: %s -/\n' % (full, PATH, str(e).replace('-/', '- /')) +
                    'def py_%s %s : DSD_Complex.M %s := throw (Err.fault "untranslated")\n' % (full, sig, rt))
            tx, checked = None, False
        out.append(text)
        methods[spec['method']] = dict(spec, lean=spec['lean'], _fn=fn2, fresh_copy_checked=checked)
        summary[full] = {'statements': sum(1 for _ in ast.walk(fn) if isinstance(_, ast.stmt)) - 1, 'loops': tx.nloops if tx else 0,
                         'source_lines': fn.end_lineno - fn.lineno + 1}
    out.append('end Dsd.Gen')
    if untranslated:
        summary['untranslated'] = untranslated
    return '\n'.join(out) + '\n', summary


if __name__ == '__main__':
    text, summ = gen_pylegacy(sys.argv[1])
    sys.stdout.write(text)
    sys.stderr.write(repr(summ) + '\n')
