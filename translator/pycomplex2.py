#!/usr/bin/env python3
"""Statement-level translation of the methods of `ComplexS` (dsdobjects/base_classes.py) that translator/pymethod.py leaves out, into
Lean 4 (`Gen/PyComplexS2.lean`, which imports `Gen/PyComplexS.lean`: same record `ComplexS.Self`, same monad `ComplexS.M`).

    /venv/bin/python translator/pycomplex2.py <repo>  > lean/DsdVerif/Gen/PyComplexS2.lean

Translated, STATEMENT BY STATEMENT from the text of the working tree:
  `ComplexS.is_domainlevel_complement`  (property C08)        -> `py_ComplexS_is_domainlevel_complement lenOf invert`
  `ComplexS.split`                      (property C09)        -> `py_ComplexS_split fuel request`   (`list(self.split())`)

An extension of translator/pymethod.py (class `Complex2Tx(MethodTx)`): the same rules, the same refusal policy (a statement that has
none of the accepted shapes raises `Shape`; the method becomes a raising stub of the right type and is reported under `untranslated`;
nothing is guessed or skipped silently; nothing about what the methods are supposed to compute is known here).  The properties and
methods they use (`pair_table`, `get_domain`, `__strand_table`, `__pair_table`) are the translations of Gen/PyComplexS.lean (typing
stubs `pymethod.METHODS`), the functions of complex_utils.py those of Gen/PyFuncs.lean.

Reading of Python ADDED here (each as narrow as the two methods need; the trusted part, with Model/PyPreludeComplexS2.lean):

  return e inside loops   (value-returning variant of pyfunc.py's rule "return in a loop" for generators; stub `return_in_loop`)
              two fields in `Vars`: `returned : Bool` and `retv : <result type>`.  `return e` inside a loop is
              `v := { v with retv := e }; v := { v with returned := true }; return v`; the step function of every enclosing loop
              starts with `if v.returned then return v` (the remaining iterations are no-ops that do not even unpack their
              element), and after each of these folds comes `if v.returned then return v` (inside a step function) /
              `if v.returned then return v.retv` (in the method body).  `e` must be infallible.
  if not (a or b): S   without `else`, where a later operand is fallible: `if not a: if not b: S` - Python evaluates `b` only when
              `a` is false, and `S` runs iff both are false.
  domains     the elements of `_sequence` (and of the strand table) are DOMAIN OBJECTS in Python and their NAMES (`String`) in
              `ComplexS.Self`.  `DomainS` is a Singleton class keyed by the name, so a name stands for one object; where the object
              itself is needed it is read as the pair `C2.dom lenOf n = (n, lenOf n)` of what `DomainS.__eq__` looks at, `lenOf`
              being a PARAMETER (the `length` of the registered domain of that name).  This is done for the result of
              `self.get_domain(…)` (stub `domain_methods`).  `d == d'` on domains is equality of both components - CHECKED against
              the source: `DomainS.__eq__` must be `if not isinstance(other, DomainS): return False` followed by
              `return (self.name, self.length) == (other.name, other.length)`, `name` / `length` must be properties returning
              `self._name` / `self._length`, and `DomainS.__ne__` / `__hash__` are not used.  `~d` is `(← invert d)` for a
              PARAMETER `invert : String × Nat → Py.M (String × Nat)` (checked: `DomainS.__invert__` is `return self.complement`); the
              registry request `self.__class__(self.cname, self.length)` behind `complement` is OUTSIDE this translation: the
              theorems instantiate `invert` with the name toggle of Model/Dlc.lean (`Dom.compl`), the stream with the toggle
              `cname` computes, keeping the length.  Subclasses of `DomainS` that override these are outside.
  self.__class__(a, b)   the request for an object of the class of `self` (Singleton metaclass: `identifiers`, registries,
              `__init__`) is a PARAMETER `request : List String → List Char → Py.M Nat` (the object is an opaque id); it may raise
              `Err.singleton existing`.  Outside this translation: that the answer may depend on the registry state.
  try: yield E except SingletonError as err: H   (inside the loop of a generator method; `SingletonError` checked to be imported from
              `.singleton`, whose class stores `existing`): a real `try … catch` around the evaluation of `E` and the append to
              `yielded`; the handler matches `Err.singleton existing`; in `H`: `err.existing` is `existing : Option Nat`,
              `raise err` re-raises `Err.singleton existing`, `yield err.existing` needs the object: `(← Py.unwrap existing)`.
              No `return` / `break` / `continue` inside the statement.
  log.warning(f'…')   a call of a method of the module-level `log = logging.getLogger(__name__)` (checked) as a statement: no
              effect on anything translated; becomes a comment (the f-string reads `self.__class__` only and cannot raise).
  extra parameters   `lenOf`, `invert`, `request` are Lean parameters of the translated method and of its step functions, not Python
              variables (checked: the names do not occur in the method).
"""
import ast, copy, os, sys
sys.path.insert(0, os.path.dirname(os.path.abspath(__file__)))
from pyfunc import (FuncTx, Shape, NAT, INT, CHAR, STR, BOOL, TEXT, L, O, P, LOC, PTAB, STAB, ty, ident, FUNCS, translate,
                    check_signature, definite_assignment, imported_from, builtins_unshadowed, find_function)
from pymethod import MethodTx, METHODS, PATH, CLS, find_class, find_method, without_self, is_self

DOM = P(STR, NAT)                                   # a domain object: what DomainS.__eq__ compares (name, length)
LENOF = ('lenOf', 'String → Nat')
INVERT = ('invert', 'String × Nat → Py.M (String × Nat)')
REQUEST = ('request', 'List String → List Char → Py.M Nat')

METHODS2 = [
    dict(method='is_domainlevel_complement', kind='getter', lean='is_domainlevel_complement', params=[], extra=[LENOF, INVERT],
         locals={'loc': LOC, 'cloc': O(LOC)}, ret=BOOL, return_in_loop=True, domain_methods=['get_domain'],
         uses=['pair_table', 'get_domain']),
    dict(method='split', kind='method', lean='split', params=[], extra=[REQUEST],
         locals={'stab': O(STAB), 'ptab': O(PTAB), 'nseq': L(STR), 'nsst': L(CHAR)}, generator=NAT, ret=L(NAT), fuel=True,
         callees=['split_complex_pt', ('strand_table_to_sequence', 'strand_table_to_sequence_list'), 'pair_table_to_dot_bracket'],
         uses=['__strand_table', '__pair_table']),
]


class Complex2Tx(MethodTx):
    def __init__(self, spec, fn, specs, methods):
        extra = list(spec.get('extra', ()))
        for n, _ in extra:
            if any((isinstance(m, ast.Name) and m.id == n) or (isinstance(m, ast.arg) and m.arg == n) for m in ast.walk(fn)):
                raise Shape('%s: the name %s is used by the translation' % (spec['name'], n))
        spec = dict(spec, params=extra + list(spec['params']))
        super().__init__(spec, fn, specs, methods)
        self.domain_methods = set(spec.get('domain_methods', ()))
        self.err_name = None
        if spec.get('return_in_loop'):
            if self.generator is not None or 'retv' in self.locals:
                raise Shape('%s: return_in_loop' % self.name)
            self.ret_flag = True
            self.locals['retv'] = spec['ret']
            self.locals['returned'] = BOOL

    # ---- expressions ---------------------------------------------------------------------------------------------------------
    def method_call(self, name, args, keywords, as_value=True):
        c, t = super().method_call(name, args, keywords, as_value)
        if name in self.domain_methods:
            if t != STR:
                raise Shape('%s: self.%s does not return an element of the sequence' % (self.name, name))
            return '(C2.dom lenOf %s)' % c, DOM
        return c, t

    def ex(self, node, expect=None):
        if isinstance(node, ast.UnaryOp) and isinstance(node.op, ast.Invert):
            a, ta = self.ex(node.operand)
            if ta != DOM:
                raise Shape('%s: ~ on a %s' % (self.name, ty(ta)))
            return '(← invert %s)' % a, DOM
        if isinstance(node, ast.Call) and isinstance(node.func, ast.Attribute) and is_self(node.func.value) \
                and node.func.attr == '__class__':
            if node.keywords or len(node.args) != 2 or 'request' not in self.params:
                raise Shape('%s: self.__class__(…) shape' % self.name)
            (a, ta), (b, tb) = self.ex(node.args[0], L(STR)), self.ex(node.args[1], L(CHAR))
            if (ta, tb) != (L(STR), L(CHAR)) or '←' in a + b:
                raise Shape('%s: self.__class__(%s, %s)' % (self.name, ty(ta), ty(tb)))
            return '(← request %s %s)' % (a, b), NAT
        if isinstance(node, ast.Attribute) and isinstance(node.value, ast.Name) and self.err_name is not None \
                and node.value.id == self.err_name:
            if node.attr != 'existing':
                raise Shape('%s: %s.%s' % (self.name, self.err_name, node.attr))
            return 'existing', O(NAT)
        return super().ex(node, expect)

    # ---- statements ----------------------------------------------------------------------------------------------------------
    def stmt(self, st, out, ind, inloop):
        # return e inside a loop (value-returning)
        if isinstance(st, ast.Return) and self.generator is None and st.value is not None and inloop:
            if not self.spec.get('return_in_loop') or not self.loop_stack:
                raise Shape('%s: return inside a loop' % self.name)
            c, tc = self.ex(st.value, self.spec['ret'])
            c = self.need(c, tc, self.spec['ret'])
            if '←' in c:
                raise Shape('%s: fallible return value inside a loop' % self.name)
            out.append(ind + self.set_local('retv', c))
            out.append(ind + self.set_local('returned', 'true'))
            out.append(ind + 'return v      -- return (inside a loop)')
            return
        # if not (a or b): S     with a fallible later operand
        if isinstance(st, ast.If) and not st.orelse and isinstance(st.test, ast.UnaryOp) and isinstance(st.test.op, ast.Not) \
                and isinstance(st.test.operand, ast.BoolOp) and isinstance(st.test.operand.op, ast.Or) \
                and any('←' in self.truthy(x).replace('(← get)', '') for x in st.test.operand.values[1:]):
            vals = st.test.operand.values
            inner = st.body
            for x in reversed(vals):
                inner = [ast.If(test=ast.UnaryOp(op=ast.Not(), operand=x), body=inner, orelse=[])]
            out.append(ind + '-- if %s:   as nested tests, left to right' % ast.unparse(st.test))
            return self.stmt(inner[0], out, ind, inloop)
        # raise err   (the caught exception)
        if isinstance(st, ast.Raise) and isinstance(st.exc, ast.Name) and self.err_name is not None and st.exc.id == self.err_name \
                and st.cause is None:
            out.append(ind + 'throw (Err.singleton existing)      -- raise %s' % self.err_name)
            return
        # log.warning(f'…')
        if isinstance(st, ast.Expr) and isinstance(st.value, ast.Call) and isinstance(st.value.func, ast.Attribute) \
                and isinstance(st.value.func.value, ast.Name) and st.value.func.value.id == 'log' and self.spec.get('log_is_logger'):
            a = st.value.args
            if st.value.keywords or len(a) != 1 or not isinstance(a[0], (ast.JoinedStr, ast.Constant)):
                raise Shape('%s: log call shape' % self.name)
            for n in ast.walk(a[0]):
                if isinstance(n, ast.FormattedValue) and ast.unparse(n.value) != 'self.__class__':
                    raise Shape('%s: log message reads %s' % (self.name, ast.unparse(n.value)))
            out.append(ind + '-- log.%s(…)      (logging: no effect on anything translated)' % st.value.func.attr)
            return
        return super().stmt(st, out, ind, inloop)

    def loop(self, st, out, ind):
        n = len(out)
        super().loop(st, out, ind)
        if self.spec.get('return_in_loop'):
            for k in range(n, len(out)):
                if out[k].strip() == 'if v.returned then return v.yielded':
                    out[k] = out[k].replace('return v.yielded', 'return v.retv')

    def try_(self, st, out, ind, inloop):
        h = st.handlers[0] if len(st.handlers) == 1 else None
        if h is None or not (isinstance(h.type, ast.Name) and h.type.id == 'SingletonError'):
            return super().try_(st, out, ind, inloop)
        if st.orelse or st.finalbody or h.name is None or not self.spec.get('singleton_error_imported') or self.generator is None:
            raise Shape('%s: try … except SingletonError shape' % self.name)
        if any(isinstance(n, (ast.Return, ast.Break, ast.Continue, ast.Try)) and n is not st for n in ast.walk(st)):
            raise Shape('%s: return / break / continue / try inside try … except SingletonError' % self.name)
        if len(st.body) != 1 or not (isinstance(st.body[0], ast.Expr) and isinstance(st.body[0].value, ast.Yield)):
            raise Shape('%s: the try body is not a single yield' % self.name)
        if h.name in self.locals or h.name in self.params or h.name in self.loopvars or 'existing' in self.locals \
                or 'existing' in self.params or 'existing' in self.loopvars:
            raise Shape('%s: the exception name %s shadows a variable' % (self.name, h.name))
        for n in ast.walk(ast.Module(body=h.body, type_ignores=[])):
            if isinstance(n, ast.Name) and n.id == h.name and not isinstance(n.ctx, ast.Load):
                raise Shape('%s: the exception name is assigned' % self.name)
        out.append(ind + 'try')
        self.block(st.body, out, ind + '  ', False)
        out.append(ind + 'catch e =>')
        out.append(ind + '  match e with')
        out.append(ind + '  | .singleton existing =>      -- except SingletonError as %s' % h.name)
        self.err_name = h.name
        self.block(h.body, out, ind + '    ', False)
        self.err_name = None
        out.append(ind + '  | e => throw e')


# ---- checks on the source ----------------------------------------------------------------------------------------------------
def check_domain_reading(tree):
    """`DomainS.__eq__` compares (name, length); `name` / `length` return the stored attributes; `~d` is `d.complement`"""
    cls = find_class(tree, 'DomainS')
    def body_of(name, kind):
        fn = find_method(cls, name, kind)
        return [ast.unparse(s) for s in fn.body if not (isinstance(s, ast.Expr) and isinstance(s.value, ast.Constant))], fn
    eq, fn = body_of('__eq__', 'method')
    if [a.arg for a in fn.args.args] != ['self', 'other'] or eq != ['if not isinstance(other, DomainS):\n    return False',
                                                                    'return (self.name, self.length) == (other.name, other.length)']:
        raise Shape('DomainS.__eq__ is not the comparison of (name, length): %s' % eq)
    for prop, attr in (('name', '_name'), ('length', '_length')):
        b, _ = body_of(prop, 'getter')
        if b != ['return self.%s' % attr]:
            raise Shape('DomainS.%s is not `return self.%s`' % (prop, attr))
    inv, _ = body_of('__invert__', 'method')
    if inv != ['return self.complement']:
        raise Shape('DomainS.__invert__ is not `return self.complement`')


def gen_pycomplex2(repo):
    out = ['/- GENERATED by translator/pycomplex2.py from the Python source — do not edit. -/',
           'import DsdVerif.Gen.PyComplexS', 'import DsdVerif.Model.PyPreludeComplexS2', '', 'set_option linter.unusedVariables false', '',
           'namespace Dsd.Gen', 'open Dsd', '']
    scratch = []
    _, done = translate(repo, FUNCS, scratch, want_done=True)
    tree = ast.parse(open(os.path.join(repo, PATH)).read())
    builtins_unshadowed(tree, {'isinstance', 'list', 'zip', 'all', 'len', 'reversed', 'set', 'str', 'iter', 'enumerate', 'range'})
    cls = find_class(tree, CLS)
    # the typing stubs of the methods translated in Gen/PyComplexS.lean (only those are callable: stub `uses`)
    methods = {}
    for spec in METHODS:
        if spec['kind'] != 'setter':
            methods[spec['method']] = dict(spec, lean=spec['lean'], _fn=without_self(find_method(cls, spec['method'], spec['kind'])))
    log_ok = sum(1 for n in ast.walk(tree) if isinstance(n, ast.Name) and n.id == 'log' and not isinstance(n.ctx, ast.Load)) == 1 and \
        any(isinstance(n, ast.Assign) and ast.unparse(n) == 'log = logging.getLogger(__name__)' for n in tree.body)
    serr_ok = imported_from(tree, 'SingletonError', 'singleton')
    summary, untranslated = {}, {}
    for spec in METHODS2:
        full = 'ComplexS_' + spec['lean']
        fn = None
        try:
            fn = find_method(cls, spec['method'], spec['kind'])
            fn2 = without_self(fn)
            s = dict(spec, name=full, lean=full, lean_full=full, path=PATH, str_is_builtin=True, _fn=fn2, log_is_logger=log_ok,
                     singleton_error_imported=serr_ok)
            check_signature(fn2, s)
            if spec.get('domain_methods'):
                check_domain_reading(tree)
            callees = {}
            for c in spec.get('callees', ()):
                cname, ckey = (c, c) if isinstance(c, str) else c
                if ckey not in done or done[ckey]['name'] != cname:
                    raise Shape('%s: the callee %s is not translated' % (full, ckey))
                if not imported_from(tree, cname, 'complex_utils'):
                    raise Shape('%s: %s is not imported from .complex_utils exactly once' % (full, cname))
                callees[cname] = done[ckey]
            uses = {}
            for u in spec.get('uses', ()):
                if u not in methods:
                    raise Shape('%s: self.%s is not translated in Gen/PyComplexS.lean' % (full, u))
                uses[u] = methods[u]
            handler_names = [h.name for n in ast.walk(fn2) if isinstance(n, ast.Try) for h in n.handlers if h.name]     # bound by `except … as`
            definite_assignment(fn2, ['self', 'log', 'SingletonError'] + handler_names + list(callees), full)
            tx = Complex2Tx(s, fn2, callees, uses)
            text = tx.run()
        except Shape as e:
            untranslated[full] = str(e)
            sig = ' '.join('(%s : %s)' % (ident(q), ty(tq)) for q, tq in list(spec.get('extra', ())) + spec['params'])
            if spec.get('fuel'):
                sig = '(fuel : Nat) ' + sig
            text = ('/-- `%s` (%s) could NOT be translated: %s -/\n' % (full, PATH, str(e).replace('-/', '- /')) +
                    'def py_%s %s : ComplexS.M (%s) := throw (Err.fault "untranslated")\n' % (full, sig, ty(spec['ret'])))
            tx = None
        out.append(text)
        summary[full] = {'statements': (sum(1 for _ in ast.walk(fn) if isinstance(_, ast.stmt)) - 1) if fn else 0,
                         'loops': tx.nloops if tx else 0, 'source_lines': (fn.end_lineno - fn.lineno + 1) if fn else 0}
    out.append('end Dsd.Gen')
    if untranslated:
        summary['untranslated'] = untranslated
    return '\n'.join(out) + '\n', summary


if __name__ == '__main__':
    text, summ = gen_pycomplex2(sys.argv[1])
    sys.stdout.write(text)
    sys.stderr.write(repr(summ) + '\n')
