#!/usr/bin/env python3
"""Statement-level translation of `DSD_Complex.__init__` (dsdobjects/core/deprecated.py) into Lean 4 (`Gen/PyLegacyInit.lean`).

    /venv/bin/python translator/pylegacy3.py <repo>  > lean/DsdVerif/Gen/PyLegacyInit.lean

An extension of translator/pylegacy2.py (`class LegacyInitTx(LegacyRegTx)`, same state `DSD_ComplexR.Self` = object + class
variables, same refusal policy `Shape`).  The WHOLE body of `__init__` is translated, in its order: naming (`name` / `prefix` /
`ID`), the length check, the attribute initialisation, `canonical_form` under `memorycheck`, the duplicate-name guard, the two
registry writes.

Reading of Python ADDED here:

  constructor   `__init__` runs on a NEW object: the translation `py_DSD_ComplexR_init … : DSD_ComplexR.M Unit` starts from a state
              whose object attributes are unspecified (the theorems start from arbitrary ones) and whose `oid` is the identity of the
              new object.  Checked: every attribute of the state record is assigned (at the top level of the body, or in both branches of a
              top-level `if`, a branch that ends in `raise` counting as assigning) BEFORE the first statement that reads any
              `self.<x>`.  `DSD_Complex(…)` raising means: no object, but the class variables keep what was written before.
  warnings.warn(<str literal>)   as a statement: no effect on values (`warnings` is the module `warnings`: checked).
  if s:       truth value of a `str` parameter (opaque name): `s != ""`.
  prefix[-1].isdigit()   `Py.LegI_isdigit (← Py.LegI_lastChar prefix)`: last character of the str (IndexError if empty), ASCII digits.
  str(n)      of a non-negative int: `Py.LegI_strNat n` (decimal numeral); `s + t` of two opaque strs where a str is expected: `s ++ t`.
  self.x = None   for the attributes `_strands`, `_domains` (IGNORED: no translated method reads or writes them; checked on the text of
              the class: every other occurrence is in a method that is not translated): no effect on the translated state.
  parameters typed as a Python list (`sequence`, `structure`) are stored, not copied: `self._sequence = sequence` is the VALUE; exact
              because no translated method mutates `_sequence` / `_structure` in place (they are only reassigned: pylegacy.py).

Typing: `sequence : List String`, `structure : List Char`, `name : String` (`None` is outside the typing; `''` is the default),
`prefix : String`, `memorycheck : Bool`.
"""
import ast, copy, os, sys
sys.path.insert(0, os.path.dirname(os.path.abspath(__file__)))
from pyfunc import (FuncTx, Shape, NAT, INT, CHAR, STR, BOOL, TEXT, L, O, P, D, ty, ident, check_signature, definite_assignment,
                    builtins_unshadowed)
from pymethod import MethodTx, find_class, without_self, is_self
import pylegacy, pylegacy2
from pylegacy2 import LegacyRegTx, CKEY, ATTRS, CLS, PATH

import pyfunc
pyfunc.KEYWORDS.add('prefix')            # a Lean keyword (the parameter `prefix` is emitted as «prefix»); the set is pyfunc's own table

IGNORED = ('_strands', '_domains')
TRANSLATED = {m['method'] for m in pylegacy.METHODS} | {m['method'] for m in pylegacy2.METHODS} | {'__init__'}

SPEC = dict(method='__init__', kind='method', lean='init',
            params=[('sequence', L(STR)), ('structure', L(CHAR)), ('name', STR), ('prefix', STR), ('memorycheck', BOOL)],
            locals={'canon': O(CKEY)}, ret='Unit', uses=['canonical_form'])


class LegacyInitTx(LegacyRegTx):
    def truthy(self, node):
        if isinstance(node, ast.Name) and node.id in self.params and self.params[node.id] == STR and node.id not in self.loopvars:
            return '(%s != "")' % self.var(node.id)[0]
        return super().truthy(node)

    def ex(self, node, expect=None):
        # prefix[-1].isdigit()
        if isinstance(node, ast.Call) and isinstance(node.func, ast.Attribute) and node.func.attr == 'isdigit' and not node.args \
                and not node.keywords and isinstance(node.func.value, ast.Subscript) and ast.unparse(node.func.value.slice) == '-1' \
                and isinstance(node.func.value.value, ast.Name):
            s, ts = self.var(node.func.value.value.id)
            if ts != STR:
                raise Shape('%s: [-1].isdigit() of a %s' % (self.name, ty(ts)))
            return '(Py.LegI_isdigit (← Py.LegI_lastChar %s))' % s, BOOL
        # str(n)
        if isinstance(node, ast.Call) and isinstance(node.func, ast.Name) and node.func.id == 'str' and len(node.args) == 1 and not node.keywords:
            a, ta = self.ex(node.args[0])
            if ta == NAT:
                return '(Py.LegI_strNat %s)' % a, STR
        # s + t of two opaque strs
        if isinstance(node, ast.BinOp) and isinstance(node.op, ast.Add) and expect == STR:
            (a, ta), (b, tb) = self.ex(node.left, STR), self.ex(node.right, STR)
            if ta == STR and tb == STR:
                return '(%s ++ %s)' % (a, b), STR
        return super().ex(node, expect)

    def stmt(self, st, out, ind, inloop):
        # DSD_Complex.MEMORY[k] = self   (the bare `self` was masked as SELF_REF for the checks of MethodTx, see mask_self_ref)
        if isinstance(st, ast.Assign) and isinstance(st.value, ast.Name) and st.value.id == 'SELF_REF':
            st2 = copy.copy(st)
            st2.value = ast.Name(id='self', ctx=ast.Load())
            return LegacyRegTx.stmt(self, st2, out, ind, inloop)
        if isinstance(st, ast.Expr) and ast.unparse(st.value).startswith('warnings.warn(') and isinstance(st.value, ast.Call) \
                and len(st.value.args) == 1 and not st.value.keywords and isinstance(st.value.args[0], ast.Constant) \
                and isinstance(st.value.args[0].value, str):
            out.append(ind + '-- warnings.warn(…)')
            return
        if isinstance(st, ast.Assign) and len(st.targets) == 1 and isinstance(st.targets[0], ast.Attribute) and is_self(st.targets[0].value) \
                and st.targets[0].attr in IGNORED:
            if not (isinstance(st.value, ast.Constant) and st.value.value is None):
                raise Shape('%s: self.%s = %s' % (self.name, st.targets[0].attr, ast.unparse(st.value)[:30]))
            out.append(ind + '-- self.%s = None   (no translated method reads it)' % st.targets[0].attr)
            return
        return super().stmt(st, out, ind, inloop)


def mask_self_ref(fn, name):
    """the only accepted bare `self`: the value of `DSD_Complex.MEMORY[k] = self` (rule "object references" of pylegacy2.py)"""
    g = copy.deepcopy(fn)
    if any(isinstance(m, ast.Name) and m.id == 'SELF_REF' for m in ast.walk(g)):
        raise Shape('%s: the name SELF_REF is used' % name)
    for st in ast.walk(g):
        if isinstance(st, ast.Assign) and is_self(st.value) and len(st.targets) == 1 and isinstance(st.targets[0], ast.Subscript) \
                and pylegacy2.is_cls(st.targets[0].value, 'MEMORY'):
            st.value = ast.Name(id='SELF_REF', ctx=ast.Load())
    return g


def check_attrs_assigned(fn, name):
    """every attribute of the state is assigned before the first statement that reads self.<x>"""
    want = {a for a, _ in ATTRS}
    def assigns(stmts):
        got = set()
        for st in stmts:
            if isinstance(st, ast.Assign) and len(st.targets) == 1 and isinstance(st.targets[0], ast.Attribute) and is_self(st.targets[0].value):
                got.add(st.targets[0].attr)
            elif isinstance(st, ast.If):
                a, b = assigns(st.body), assigns(st.orelse)
                ends = lambda blk: bool(blk) and isinstance(blk[-1], ast.Raise)
                got |= (b if ends(st.body) else a if ends(st.orelse) else a & b)
        return got
    def reads_self(st):
        targets = {id(t) for n in ast.walk(st) if isinstance(n, ast.Assign) for t in n.targets}
        return any(isinstance(n, ast.Attribute) and is_self(n.value) and id(n) not in targets for n in ast.walk(st))
    have = set()
    for st in fn.body:
        if reads_self(st):
            missing = want - have
            if missing:
                raise Shape('%s: %s read before self.%s is assigned' % (name, ast.unparse(st)[:30], sorted(missing)))
            return
        have |= assigns([st])
    raise Shape('%s: no statement reads self' % name)


def check_ignored(cls):
    for n in cls.body:
        if isinstance(n, ast.FunctionDef) and n.name in TRANSLATED and n.name != '__init__':
            for m in ast.walk(n):
                if isinstance(m, ast.Attribute) and m.attr in IGNORED:
                    raise Shape('%s uses self.%s' % (n.name, m.attr))


def gen_pylegacyinit(repo):
    out = ['/- GENERATED by translator/pylegacy3.py from the Python source — do not edit. -/',
           'import DsdVerif.Gen.PyLegacyReg', 'import DsdVerif.Model.PyPreludeLegacyInit', '', 'set_option linter.unusedVariables false', '',
           'namespace Dsd.Gen', 'open Dsd', '']
    tree = ast.parse(open(os.path.join(repo, PATH)).read())
    builtins_unshadowed(tree, {'len', 'str'})
    if not any(isinstance(n, ast.Import) and any(a.name == 'warnings' and a.asname is None for a in n.names) for n in tree.body) \
            or any(isinstance(m, ast.Name) and isinstance(m.ctx, (ast.Store, ast.Del)) and m.id == 'warnings' for m in ast.walk(tree)):
        raise Shape('`warnings` is not the module `warnings`')
    cls = find_class(tree, CLS)
    pylegacy2.check_clsvars(cls)
    check_ignored(cls)
    _, summ = pylegacy2.gen_pylegacyreg(repo)
    full = 'DSD_ComplexR_init'
    init = [n for n in cls.body if isinstance(n, ast.FunctionDef) and n.name == '__init__']
    spec = SPEC
    s = dict(spec, name=full, lean=full, lean_full=full, path=PATH, str_is_builtin=False)
    sig = ' '.join('(%s : %s)' % (ident(q), ty(tq)) for q, tq in spec['params'])
    summary, untranslated, tx = {}, {}, None
    try:
        if len(init) != 1 or init[0].decorator_list:
            raise Shape('__init__ not found exactly once')
        if 'DSD_ComplexR_canonical_form' in summ.get('untranslated', {}):
            raise Shape('%s: canonical_form is not translated by pylegacy2.py' % full)
        fn2 = mask_self_ref(without_self(init[0]), full)
        pylegacy2.check_cls_uses(fn2, full)
        check_attrs_assigned(fn2, full)
        s['_fn'] = fn2
        check_signature(fn2, s)
        defaults = dict(zip([a.arg for a in fn2.args.args][-len(fn2.args.defaults):], [ast.unparse(d) for d in fn2.args.defaults]))
        if defaults != {'name': "''", 'prefix': "'cplx'", 'memorycheck': 'True'}:
            raise Shape('%s: defaults changed: %s' % (full, defaults))
        definite_assignment(fn2, [p for p, _ in spec['params']] + ['self', 'str', 'warnings', 'DSDObjectsError', CLS, 'SELF_REF'], full)
        methods = {'canonical_form': dict([m for m in pylegacy2.METHODS if m['method'] == 'canonical_form'][0])}
        tx = LegacyInitTx(s, fn2, {}, methods)
        text = tx.run()
    except Shape as e:
        untranslated[full] = str(e)
        text = ('/-- `%s` (%s) could NOT be translated: %s -/\n' % (full, PATH, str(e).replace('-/', '- /')) +
                'def py_%s %s : DSD_ComplexR.M Unit := throw (Err.fault "untranslated")\n' % (full, sig))
    out.append(text)
    out.append('end Dsd.Gen')
    summary[full] = {'statements': sum(1 for _ in ast.walk(init[0]) if isinstance(_, ast.stmt)) - 1 if init else 0, 'loops': 0}
    if untranslated:
        summary['untranslated'] = untranslated
    return '\n'.join(out) + '\n', summary


if __name__ == '__main__':
    text, summ = gen_pylegacyinit(sys.argv[1])
    sys.stdout.write(text)
    sys.stderr.write(repr(summ) + '\n')
