#!/usr/bin/env python3
"""Statement-level translation of the OBJECT parts of `MacrostateS` and `ReactionS` (dsdobjects/base_classes.py) into Lean 4
(`Gen/PySetObjects.lean`): `__init__` and the views that read what it stored.

    /venv/bin/python translator/pyident3.py <repo>  > lean/DsdVerif/Gen/PySetObjects.lean

`SetObjTx` combines the rules of translator/pyident2.py (members as pairs (name, canonical form), `sorted(…, key=lambda y: y.canonical_form)`
with the comparison that can raise, …) with the reading of `self` of translator/pymethod.py (`MethodTx`: the object is the STATE of
`ExceptT Err (StateM Self)`, `self.a` -> `(← get).a`, `self.a = e` -> `modify …`, `return iter(self.a)` of a view that is consumed at once -> the
list).  Same refusal policy: anything else raises `Shape`, the method becomes a raising stub and is reported; the translator knows nothing
about what the methods are supposed to compute.  Primitives: Model/PyPreludeIdent3.lean (`Py.Ident3.…`).

Reading that is ADDED here:

  records     `MacrostateSObj.Self` = `_complexes`, `_representative`, `_canonical_form`; `ReactionSObj.Self` = `_reactants`, `_products`,
              `_rtype`, `_const`, `_units`, `_name`, `_canonical_form` (names chosen not to clash with `ReactionS.Self` of translator/pyunits.py).
              An attribute that `__init__` assigns from a `None`-able parameter is `None`-able (`_name`, `_canonical_form` of a reaction).
              `_const`, `_units` are VOLATILE: declared only so that `__init__` is translated in full (`self._const = None`); the rate
              methods (translator/pyunits.py) assign them later, and no method translated here may read them (refused).
  __init__    translated like any other method (`py_<Cls>___init__ … : <Rec>.M Unit`, statement by statement, in order: an exception
              keeps the assignments made before it).  `py_<Rec>_new args` is the object a successful `__init__` leaves, started on the
              BLANK record (`default`).  Python has no blank attributes (reading one is an AttributeError); the blank values are not
              observable because it is CHECKED that `__init__` assigns every declared attribute exactly once, at the top level of its body,
              and never reads an attribute of `self`; and that no other method of the class assigns a declared attribute (other than the volatile ones).
  no aliasing `self.a = p` for a bare parameter `p` that holds a Python LIST is REFUSED: the object would share the caller's list, and
              what it stores would change when the caller changes the list afterwards - no function of the argument VALUE could be its
              translation.  `self.a = list(p)` / `sorted(p, …)` make a new list: the stored value is the value of `p` at that moment
              (FuncTx: `list(x)` is a copy; values are immutable here).  Parameters the stub lists in `immutable` (`canon`: a tuple; strs;
              `None`) may be stored as they are.  Elements are shared objects in Python; the views read their `.name` / `.canonical_form`
              only, which Singleton objects never change (both have setters that raise).
  next(x for x in l if c)   a generator expression with one `for` and an infallible condition, consumed by `next` without default:
              `(← Py.Ident3.nextOf (List.filter (fun x => c) l))` - the first item that satisfies `c`, StopIteration if there is none
  self.m      a property translated before (stub `uses`): `(← py_<Cls>_m)` (MethodTx); `self.representative.name` is its `.1`

Not translated: the setters (`raise SingletonError(f'{self.__class__.__name__} …')`: the class name of the instance), `kernel_string`,
`__repr__`, `__str__`, the comparison dunders (Gen/Dunders.lean), `ReactionS.reaction_string` / `full_string` (format specs `{:12s}`, `{:10g}`),
`arity` / `rate_constant` / `rateformat` (translator/pyunits.py).
"""
import ast, os, sys
sys.path.insert(0, os.path.dirname(os.path.abspath(__file__)))
from pyfunc import Shape, NAT, INT, CHAR, STR, BOOL, TEXT, L, O, P, D, ty, ident, check_signature, definite_assignment, builtins_unshadowed
from pymethod import MethodTx, find_class, find_method, without_self, is_self
from pyident import CKEY, PATH
from pyident2 import Ident2Tx, MEMBER, RMEMBER, MEMKEY, RKEY

UNIT = 'Unit'

CLASSES = [
    dict(cls='MacrostateS', rec='MacrostateSObj',
         attrs=[('_complexes', L(MEMBER)), ('_representative', MEMBER), ('_canonical_form', O(L(MEMBER)))],
         init=dict(params=[('complexes', L(MEMBER)), ('name', STR), ('canon', O(L(MEMBER)))], immutable=['name', 'canon']),
         methods=[
             dict(method='complexes', kind='getter', params=[], locals={}, ret=L(MEMBER), iter_ok=True),
             dict(method='representative', kind='getter', params=[], locals={}, ret=MEMBER),
             dict(method='canonical_form', kind='getter', params=[], locals={}, ret=O(L(MEMBER))),
             dict(method='name', kind='getter', params=[], locals={}, ret=STR, uses=['representative']),
             dict(method='__len__', kind='method', params=[], locals={}, ret=NAT),
         ]),
    dict(cls='ReactionS', rec='ReactionSObj',
         attrs=[('_reactants', L(RMEMBER)), ('_products', L(RMEMBER)), ('_rtype', O(STR)), ('_const', O(UNIT)), ('_units', O(STR)),
                ('_name', O(STR)), ('_canonical_form', O(RKEY))],
         init=dict(params=[('reactants', L(RMEMBER)), ('products', L(RMEMBER)), ('rtype', O(STR)), ('name', O(STR)), ('canon', O(RKEY))],
                   immutable=['rtype', 'name', 'canon']),
         volatile=['_const', '_units'],
         methods=[
             dict(method='reactants', kind='getter', params=[], locals={}, ret=L(RMEMBER), iter_ok=True),
             dict(method='products', kind='getter', params=[], locals={}, ret=L(RMEMBER), iter_ok=True),
             dict(method='rtype', kind='getter', params=[], locals={}, ret=O(STR)),
             dict(method='name', kind='getter', params=[], locals={}, ret=O(STR)),
             dict(method='canonical_form', kind='getter', params=[], locals={}, ret=O(RKEY)),
         ]),
]


class SetObjTx(Ident2Tx, MethodTx):
    """MRO: Ident2Tx -> IdentTx -> MethodTx -> FuncTx"""

    def __init__(self, spec, fn, methods, attrs, rec, clsname, volatile=()):
        MethodTx.__init__(self, spec, fn, {}, methods)          # (IdentTx.__init__ does not know the `methods` argument)
        self.attrs = dict(attrs)
        self.M = rec + '.M'
        self.clsname = clsname
        self.volatile = set(volatile)
        self.exc = {}
        self.narrow, self.records, self.precords, self.prec_types = {}, {}, {}, {}

    def method_call(self, name, args, keywords, as_value=True):
        if name not in self.methods or args or keywords:
            raise Shape('%s: self.%s is not an attribute or a property translated before (stub `uses`)' % (self.name, name))
        m = self.methods[name]
        return '(← py_%s_%s)' % (self.clsname, m['method']), m['ret']

    def ex(self, node, expect=None):
        if isinstance(node, ast.Attribute) and is_self(node.value) and node.attr in self.volatile:
            raise Shape('%s: self.%s is read (an attribute that untranslated methods assign)' % (self.name, node.attr))
        # next(x for x in l if c)
        if isinstance(node, ast.Call) and isinstance(node.func, ast.Name) and node.func.id == 'next':
            if len(node.args) != 1 or node.keywords or not isinstance(node.args[0], ast.GeneratorExp):
                raise Shape('%s: next shape: %s' % (self.name, ast.unparse(node)[:60]))
            g = node.args[0]
            if len(g.generators) != 1 or len(g.generators[0].ifs) != 1 or not isinstance(g.generators[0].target, ast.Name) \
                    or not (isinstance(g.elt, ast.Name) and g.elt.id == g.generators[0].target.id):
                raise Shape('%s: next(…) of %s' % (self.name, ast.unparse(g)[:60]))
            c, t = self.comp(g, None)
            if '←' in c:
                raise Shape('%s: fallible generator expression under next' % self.name)
            return '(← Py.Ident3.nextOf %s)' % c, t[1]
        return super().ex(node, expect)

    def stmt(self, st, out, ind, inloop):
        # self.a = p for a bare list parameter: aliasing the caller's list
        if isinstance(st, ast.Assign) and len(st.targets) == 1 and isinstance(st.targets[0], ast.Attribute) and is_self(st.targets[0].value) \
                and isinstance(st.value, ast.Name) and st.value.id in self.params and st.value.id not in self.spec.get('immutable', ()):
            raise Shape('%s: self.%s = %s stores the caller\'s own list (no copy): the object would change with it'
                        % (self.name, st.targets[0].attr, st.value.id))
        return super().stmt(st, out, ind, inloop)


def check_init(cls, init, attrs, volatile=()):
    names = [a for a, _ in attrs]
    for a in names:
        stores = [n for n in ast.walk(init) if isinstance(n, ast.Attribute) and n.attr == a and not isinstance(n.ctx, ast.Load)]
        top = [st for st in init.body if isinstance(st, ast.Assign) and len(st.targets) == 1 and isinstance(st.targets[0], ast.Attribute)
               and is_self(st.targets[0].value) and st.targets[0].attr == a]
        if len(stores) != 1 or len(top) != 1 or stores[0] is not top[0].targets[0]:
            raise Shape('%s.__init__: self.%s is not assigned exactly once at the top level' % (cls.name, a))
    for n in ast.walk(init):
        if isinstance(n, ast.Attribute) and is_self(n.value) and isinstance(n.ctx, ast.Load):
            raise Shape('%s.__init__ reads self.%s' % (cls.name, n.attr))
    for m in cls.body:
        if isinstance(m, ast.FunctionDef) and m is not init:
            for n in ast.walk(m):
                if isinstance(n, ast.Attribute) and n.attr in names and n.attr not in volatile and not isinstance(n.ctx, ast.Load):
                    raise Shape('%s.%s assigns %s' % (cls.name, m.name, n.attr))


def stub(full, rec, params, ret, reason):
    sig = ' '.join('(%s : %s)' % (ident(q), ty(t)) for q, t in params)
    rt = 'Unit' if ret == UNIT else '(%s)' % ty(ret)
    return ('/-- `%s` (%s) could NOT be translated: %s -/\n' % (full, PATH, reason.replace('-/', '- /')) +
            'def py_%s %s : %s.M %s := throw (Err.fault "untranslated")\n' % (full, sig, rec, rt))


def gen_pysetobjects(repo):
    out = ['/- GENERATED by translator/pyident3.py from the Python source — do not edit. -/',
           'import DsdVerif.Model.PyPreludeIdent3', '', 'set_option linter.unusedVariables false', '',
           'namespace Dsd.Gen', 'open Dsd', '']
    tree = ast.parse(open(os.path.join(repo, PATH)).read())
    builtins_unshadowed(tree, {'isinstance', 'list', 'zip', 'all', 'len', 'reversed', 'set', 'str', 'range', 'tuple', 'sorted', 'map', 'next', 'iter'})
    summary, untranslated = {}, {}
    for C in CLASSES:
        cls = find_class(tree, C['cls'])
        rec = C['rec']
        out.append('/-- the part of a `%s` object that the translated methods read or write -/' % C['cls'])
        out.append('structure %s.Self where\n' % rec + '\n'.join('  %s : %s' % (a, ty(t)) for a, t in C['attrs']) + '\nderiving Repr, DecidableEq, Inhabited\n')
        out.append('abbrev %s.M := Py.MS %s.Self\n' % (rec, rec))
        specs = [dict(C['init'], method='__init__', kind='method', locals={}, ret=UNIT)] + C['methods']
        methods = {}
        for spec in specs:
            full = '%s_%s' % (C['cls'], spec['method'])
            fn = None
            try:
                fn = find_method(cls, spec['method'], spec['kind'])
                fn2 = without_self(fn)
                s = dict(spec, name=full, lean=full, lean_full=full, path=PATH, str_is_builtin=True, _fn=fn2, cls_params=[])
                check_signature(fn2, s)
                if spec['method'] == '__init__':
                    check_init(cls, fn, C['attrs'], C.get('volatile', ()))
                    for q, d in zip([a.arg for a in fn2.args.args][len(fn2.args.args) - len(fn2.args.defaults):], fn2.args.defaults):
                        if not (isinstance(d, ast.Constant) and d.value is None):
                            raise Shape('%s: default of %s is not None' % (full, q))
                uses = {}
                for u in spec.get('uses', ()):
                    if u not in methods:
                        raise Shape('%s: self.%s is not translated before it' % (full, u))
                    uses[u] = methods[u]
                definite_assignment(fn2, [p for p, _ in spec['params']] + ['self', 'iter', 'next', 'sorted'], full)
                tx = SetObjTx(s, fn2, uses, C['attrs'], rec, C['cls'], C.get('volatile', ()))
                text = tx.run()
            except Shape as e:
                untranslated[full] = str(e)
                text = stub(full, rec, spec['params'], spec['ret'], str(e))
            out.append(text)
            if spec['kind'] == 'getter':
                methods[spec['method']] = spec
            summary[full] = {'statements': (sum(1 for _ in ast.walk(fn) if isinstance(_, ast.stmt)) - 1) if fn is not None else 0,
                             'loops': 0, 'source_lines': (fn.end_lineno - fn.lineno + 1) if fn is not None else 0}
        sig = ' '.join('(%s : %s)' % (ident(q), ty(t)) for q, t in C['init']['params'])
        args = ' '.join(ident(q) for q, _ in C['init']['params'])
        out.append('/-- the object a successful `%s.__init__` leaves (started on the blank record, none of whose values is observable) -/\n'
                   'def py_%s_new %s : Py.M %s.Self :=\n'
                   '  match (py_%s___init__ %s).exec default with\n'
                   '  | (.ok _, s) => .ok s\n'
                   '  | (.error e, _) => .error e\n' % (C['cls'], rec, sig, rec, C['cls'], args))
    out.append('end Dsd.Gen')
    if untranslated:
        summary['untranslated'] = untranslated
    return '\n'.join(out) + '\n', summary


if __name__ == '__main__':
    text, summ = gen_pysetobjects(sys.argv[1])
    sys.stdout.write(text)
    sys.stderr.write(repr(summ) + '\n')
