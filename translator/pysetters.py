#!/usr/bin/env python3
"""Statement-level translation of the property SETTERS of dsdobjects/base_classes.py that protect an object's identity (property C10),
and of the `DomainS` getters `name` / `length`, into Lean 4 (`Gen/PySetters.lean`).

    /venv/bin/python translator/pysetters.py <repo>  > lean/DsdVerif/Gen/PySetters.lean

Setters: `DomainS.name`, `DomainS.length`, `ComplexS.name`, `ComplexS.canonical_form`, `MacrostateS.complexes`, `MacrostateS.representative`,
`ReactionS.reactants`, `ReactionS.products`, `ReactionS.rtype`, `ReactionS.name` - each `@<attr>.setter def <attr>(self, value)`.
They are translated by `SetObjTx` (translator/pyident3.py: the rules of pyfunc.py / pymethod.py / pyident*.py, `self` as the state of
`ExceptT Err (StateM Self)`), on the records the translated getters already use: `ComplexS.Self` (Gen/PyComplexS.lean), `MacrostateSObj.Self`,
`ReactionSObj.Self` (Gen/PySetObjects.lean), and the new `DomainSObj.Self` = `_name : String`, `_length : Nat`.  Same refusal policy (`Shape` ->
raising stub, reported).  Nothing about what a setter should do is known here: a setter that ASSIGNS (`self._name = value`) is
translated as that assignment.

Reading that is ADDED here:

  raise SingletonError(msg)   `throw (Err.singleton none)`: `SingletonError(message)` without `existing=` has `existing = None`
              (singleton.py; checked: the class is imported from `.singleton` exactly once, and the call has one positional argument and
              no keyword).  The message is dropped (rule "messages dropped" of pyfunc.py); so that nothing fallible hides in it, it is
              CHECKED to be a str constant or an f-string whose replacement fields are all `self.__class__.__name__` without conversion
              or format spec (the name of a class: a str, always there).
  value       the assigned value.  If the body never mentions `value` (checked) the translation is POLYMORPHIC in it
              (`{α : Type} (value : α)`: every Python value); otherwise `value` is typed like the attribute behind the property
              (stub `vtype`) and the body is translated by the usual rules.
  self.__class__.__name__   only inside the message (refused anywhere else)

Not translated: `DomainS.canonical_form` (calls `identifiers`, which consults the registry), `is_complement` / `cname` / `complement`
(`name[-1]` on a str of unknown length inside a conditional expression), `ComplexS.turns` / `concentration` / `ReactionS.rate_constant`
setters (translator/pymethod.py, translator/pyunits.py).  `MacrostateS.name` / `canonical_form` have NO setter in the source: assigning them is
Python's own AttributeError (sampled by the stream, nothing to translate).
"""
import ast, os, sys
sys.path.insert(0, os.path.dirname(os.path.abspath(__file__)))
from pyfunc import Shape, NAT, STR, L, O, ty, ident, check_signature, definite_assignment, builtins_unshadowed, imported_from
from pymethod import find_class, find_method, without_self, is_self, ATTRS as COMPLEX_ATTRS
from pyident import CKEY, PATH
from pyident2 import MEMBER, RMEMBER
from pyident3 import SetObjTx, CLASSES as SETOBJ_CLASSES

DOMAIN_ATTRS = [('_name', STR), ('_length', NAT)]
_SO = {C['cls']: C for C in SETOBJ_CLASSES}

# (class, record, attributes of the record, [(property, type of the attribute behind it)])
SETTERS = [
    ('DomainS', 'DomainSObj', DOMAIN_ATTRS, [('name', STR), ('length', NAT)]),
    ('ComplexS', 'ComplexS', COMPLEX_ATTRS, [('name', STR), ('canonical_form', CKEY)]),
    ('MacrostateS', 'MacrostateSObj', _SO['MacrostateS']['attrs'], [('complexes', L(MEMBER)), ('representative', MEMBER)]),
    ('ReactionS', 'ReactionSObj', _SO['ReactionS']['attrs'], [('reactants', L(RMEMBER)), ('products', L(RMEMBER)), ('rtype', O(STR)), ('name', O(STR))]),
]
DOMAIN_GETTERS = [dict(method='name', kind='getter', params=[], locals={}, ret=STR), dict(method='length', kind='getter', params=[], locals={}, ret=NAT)]

EXC = {'SingletonError': '(Err.singleton none)'}


def class_name_of_self(node):
    return ast.dump(node) == ast.dump(ast.parse('self.__class__.__name__', mode='eval').body)


def check_raises(fn, full):
    """every `raise` of the body is `raise SingletonError(<message>)` with a message in which nothing fallible can hide; returns the
    nodes of the messages (they are dropped)"""
    dropped = set()
    for st in ast.walk(fn):
        if isinstance(st, ast.Raise):
            c = st.exc
            if st.cause is not None or not (isinstance(c, ast.Call) and isinstance(c.func, ast.Name) and c.func.id == 'SingletonError'
                                            and len(c.args) == 1 and not c.keywords):
                raise Shape('%s: raise shape: %s' % (full, ast.unparse(st)[:60]))
            m = c.args[0]
            if isinstance(m, ast.Constant) and isinstance(m.value, str):
                pass
            elif isinstance(m, ast.JoinedStr):
                for v in m.values:
                    if isinstance(v, ast.Constant) and isinstance(v.value, str):
                        continue
                    if not (isinstance(v, ast.FormattedValue) and v.conversion == -1 and v.format_spec is None and class_name_of_self(v.value)):
                        raise Shape('%s: a field of the message is not self.__class__.__name__: %s' % (full, ast.unparse(m)[:60]))
            else:
                raise Shape('%s: message shape: %s' % (full, ast.unparse(m)[:60]))
            dropped |= {id(n) for n in ast.walk(m)}
    for n in ast.walk(fn):
        if isinstance(n, ast.Attribute) and n.attr in ('__class__', '__name__') and id(n) not in dropped:
            raise Shape('%s: self.__class__ outside the message of a raise' % full)
    return dropped


def strip_messages(fn):
    """the body with the (checked) messages replaced by a constant, so that the object rules never see `self.__class__`"""
    import copy
    g = copy.deepcopy(fn)
    for st in ast.walk(g):
        if isinstance(st, ast.Raise):
            st.exc.args = [ast.Constant(value='')]
    return ast.fix_missing_locations(g)


def stub(full, rec, vt, reason):
    return ('/-- `%s` (%s) could NOT be translated: %s -/\n' % (full, PATH, reason.replace('-/', '- /')) +
            'def py_%s (value : %s) : %s.M Unit := throw (Err.fault "untranslated")\n' % (full, vt, rec))


def gen_pysetters(repo):
    out = ['/- GENERATED by translator/pysetters.py from the Python source — do not edit. -/',
           'import DsdVerif.Gen.PyComplexS', 'import DsdVerif.Gen.PySetObjects', '', 'set_option linter.unusedVariables false', '',
           'namespace Dsd.Gen', 'open Dsd', '', 'variable {α : Type}', '']
    tree = ast.parse(open(os.path.join(repo, PATH)).read())
    if not imported_from(tree, 'SingletonError', 'singleton'):
        raise Shape('SingletonError is not imported from .singleton exactly once')
    summary, untranslated = {}, {}
    out.append('/-- the part of a `DomainS` object that the translated methods read or write -/')
    out.append('structure DomainSObj.Self where\n' + '\n'.join('  %s : %s' % (a, ty(t)) for a, t in DOMAIN_ATTRS) + '\nderiving Repr, DecidableEq, Inhabited\n')
    out.append('abbrev DomainSObj.M := Py.MS DomainSObj.Self\n')
    for clsname, rec, attrs, props in SETTERS:
        cls = find_class(tree, clsname)
        todo = [(p, 'setter', vt) for p, vt in props]
        if clsname == 'DomainS':
            todo = [(g['method'], 'getter', g['ret']) for g in DOMAIN_GETTERS] + todo
        for prop, kind, vt in todo:
            full = '%s_%s%s' % (clsname, prop, '_set' if kind == 'setter' else '')
            fn, vtype = None, ty(vt)
            try:
                fn = find_method(cls, prop, kind)
                fn2 = without_self(fn)
                if kind == 'setter':
                    if [a.arg for a in fn2.args.args] != ['value'] or fn2.args.defaults or fn2.args.vararg or fn2.args.kwarg or fn2.args.kwonlyargs:
                        raise Shape('%s: parameters %s' % (full, [a.arg for a in fn2.args.args]))
                    check_raises(fn2, full)
                    fn2 = strip_messages(fn2)
                    used = any(isinstance(n, ast.Name) and n.id == 'value' for st in fn2.body for n in ast.walk(st))
                    vtype = ty(vt) if used else 'α'
                    spec = dict(method=prop, kind='setter', params=[('value', vt if used else 'α')], locals={}, ret='Unit')
                else:
                    spec = dict(method=prop, kind='getter', params=[], locals={}, ret=vt)
                s = dict(spec, name=full, lean=full, lean_full=full, path=PATH, str_is_builtin=True, _fn=fn2, cls_params=[], immutable=['value'])
                definite_assignment(fn2, [p for p, _ in spec['params']] + ['self', 'SingletonError'], full)
                tx = SetObjTx(s, fn2, {}, attrs, rec, clsname)
                tx.exc = EXC
                text = tx.run()
            except Shape as e:
                untranslated[full] = str(e)
                text = stub(full, rec, 'α', str(e)) if kind == 'setter' else \
                    ('/-- `%s` could NOT be translated: %s -/\ndef py_%s : %s.M (%s) := throw (Err.fault "untranslated")\n' % (full, e, full, rec, ty(vt)))
            out.append(text)
            summary[full] = {'statements': (sum(1 for _ in ast.walk(fn) if isinstance(_, ast.stmt)) - 1) if fn is not None else 0,
                             'loops': 0, 'source_lines': (fn.end_lineno - fn.lineno + 1) if fn is not None else 0}
    out.append('end Dsd.Gen')
    if untranslated:
        summary['untranslated'] = untranslated
    return '\n'.join(out) + '\n', summary


if __name__ == '__main__':
    text, summ = gen_pysetters(sys.argv[1])
    sys.stdout.write(text)
    sys.stderr.write(repr(summ) + '\n')
