#!/usr/bin/env python3
"""Statement-level translation of the function-level pieces of the PIL reader dsdobjects/objectio.py into Lean 4
(`Gen/PyReaderFns.lean`): `read_reaction`, `set_io_objects`, `clear_io_objects`.

    python3 translator/pyreaderfn.py <repo>  > lean/DsdVerif/Gen/PyReaderFns.lean

An extension of translator/pyfunc.py (classes `ReactionTx(FuncTx)`, `GlobalsTx(FuncTx)`): same rules, same refusal policy - a
statement or expression that has none of the accepted shapes raises `Shape` and the tie is reported broken, nothing is guessed or
skipped.  The translator knows nothing about what the functions compute.  Everything that is not listed below is delegated to
`FuncTx` (locals as a record `Vars`, `if` / `elif` / `else`, `x is None`, `return e`, `(← Py.idx l i)` for `l[i]` on a list, `a if c else b`
with an infallible test).

Reading of Python that is ADDED here (together with Model/PyPreludeReaderFns.lean) - the trusted part.

A. `read_reaction` (class `ReactionTx`)

  token trees    a value typed `PP.Tree` is ONE item of a pyparsing result that was turned into nested lists: a `str`
              (`PP.Tree.tok s`) or a `list` of such items (`PP.Tree.grp ts`); nothing else (no `ParseResults`, no `None`).  The parameter
              `line` is a Python list of such items: `List PP.Tree`.  The operations below follow Python's duck typing on BOTH kinds.
  x[i]           `x` typed `PP.Tree`, `i` a non-negative int literal: `(← Py.treeIdx x i)` - the i-th item of a list, the i-th character
              (a one-character str) of a str, IndexError beyond the end.  So `line[1][0][0]` is `line[1][0]`'s first str when
              `line[1][0]` is a list of strs, and the first CHARACTER of `line[1][0]` when that is a str.  (`line[i]` itself is the
              `FuncTx` rule `(← Py.idx line i)`.)  Chained subscripts evaluate inside out, each can raise.
  x != [] / x == []   `x` typed `PP.Tree`: `Py.treeNeNil x` / its negation - a str is never equal to a list, a list differs from
              `[]` iff it has an item.  Infallible.
  len(x)         `x` typed `PP.Tree`: `Py.treeLen x` (items of a list, characters of a str).
  float(x)       `x` typed `PP.Tree`: `(← Py.treeFloat x) : Py.FloatLit` - TypeError for a list; for a str the float is kept as its
              LITERAL TEXT (an opaque value: it is stored, passed to `{:12g}`, returned; never computed with).  The ValueError
              of a str that is not a float literal is NOT modelled (`float` must be the built-in: checked).
  A if c1 and … and cn else B     with fallible tests: nested conditionals
                    (← (do if c1 then (do if c2 then … (do pure A) … else (do pure B)) else (do pure B)))
              each `ci` is evaluated only when `c1 … c(i-1)` were true (short-circuit `and`), `A` only when all are true, `B`
              otherwise; whatever raises first ends the statement.  `B` is written once per `else` (only one of the copies runs).
              A branch of type `T` is coerced to `Option T` when the other branch is `None`.
  if a or b: S else: T    with a fallible `b`: `if a: S  elif b: S  else: T` (the text of `S` is translated twice; `b` is
              evaluated only when `a` is false: short-circuit `or`).
  Reaction.RTYPES    an attribute of a MODULE GLOBAL that holds a class (stub `attr_globals`): read as a PARAMETER of the translation
              (`RTYPES : Py.StrSet`), i.e. the function is translated for a configured reader whose reaction class has a `set` of
              strs as `RTYPES` (ReactionS and its subclasses: Gen/GrammarUnits.lean has the regenerated `rtypes` of ReactionS).
              Checked: the global is not a local / parameter of the function.  NOT modelled: `Reaction is None` (AttributeError;
              `read_pil_line` calls `read_reaction` only under `Reaction is not None`).
  x in S / x not in S    `S` typed `Py.StrSet`, `x` typed `PP.Tree` or `Option PP.Tree`: `(← Py.inStrSet x S)` - `None` is in no set
              of strs, a str is looked up, a list is unhashable (TypeError).
  sep.join(x)    `sep` a str literal, `x` typed `PP.Tree`: `(← Py.treeJoin sep x) : String` - the strs of a list joined (TypeError if
              an item is a list), the characters of a str joined.
  fmt.format(a1, …, an)    `fmt` a str literal whose replacement fields are all auto-numbered (`{}` or `{:spec}`), without
              conversion, exactly n of them: the literal pieces and the formatted arguments concatenated (`++`).  `{}`:
              a `String` is itself, a `PP.Tree` / `Option PP.Tree` is `Py.fmtTree strL x` / `Py.fmtOTree strL x` (a str is itself, `None`
              is "None", the `str()` of a LIST is left opaque: parameter `strL`).  `{:12g}` (stub `fmt_specs`): the argument must be
              a float (`Py.FloatLit`, `None` raises TypeError as in Python: `Py.unwrap`), rendered by the OPAQUE parameter `g12`.
              The arguments are evaluated left to right before anything is formatted.
  log.warning(f'…')    no effect: `log` must be bound exactly once at module level, by `logging.getLogger(…)`; every replacement
              field of the f-string is a plain variable typed str / `PP.Tree` / `Option PP.Tree` without conversion or format spec
              (formatting a str, a list of strs or None cannot raise).  What a logging handler does is outside the model.
  6-tuples       `return a, b, c, d, e, f` against the declared result type (right-nested pairs): components evaluated left to
              right, each coerced to its declared type (`T` to `Option T`).

B. `set_io_objects` / `clear_io_objects` (class `GlobalsTx`)

  module globals   the names listed in `GLOBAL_SLOTS` are the fields of a record `objectio.Globals` (type `Option Py.ClassId`: `None` or
              a class object).  Checked against the module text: each is bound at module level exactly once, by `= None` (the
              record's default), and the only functions of the module that contain a `global` statement are the translated
              ones.  A function is a computation in `objectio.M = Py.MS objectio.Globals` (the record is the STATE).
  global X       no code; it makes `X = e` in this function the assignment `modify fun g => { g with X := e' }` (after `e` has been
              evaluated).  An assignment to a slot name WITHOUT `global` would create a local: refused.
  imported classes   `DomainS … ReactionS` (stub `IMPORTED`: bound exactly once, by `from .base_classes import …`) are read as the
              fields of a parameter record `base : objectio.Imports` (opaque class objects).
  parameters     every parameter has the default `None` (checked) and is typed `Option Py.ClassId`; a call that omits it passes `none`.
  X if D is None else D    the `FuncTx` rule (infallible test); the class `X` is coerced to `some X`.
  gc.collect()   no effect on the record (`gc` must be bound exactly once, by `import gc`).  What the collector frees is modelled
              elsewhere (Model/World.lean), not here.
  return         a bare `return` as the last statement / falling off the end: `return ()`.
"""
import ast, os, string, sys
sys.path.insert(0, os.path.dirname(os.path.abspath(__file__)))
from pyfunc import (FuncTx, Shape, NAT, STR, BOOL, L, O, P, ty, ident, monadic, check_signature, definite_assignment,
                    builtins_unshadowed, find_function, imported_from)

PATH = 'dsdobjects/objectio.py'
TREE = 'PP.Tree'                    # one item of a token forest: a `str` (tok) or a `list` of items (grp)
FLOAT = 'Py.FloatLit'               # a float obtained by float(<str>), kept as the literal
STRSET = 'Py.StrSet'                # a set of strs
CLASS = 'Py.ClassId'                # a class object


def tup(*ts):
    """an n-tuple as right-nested pairs"""
    return ts[0] if len(ts) == 1 else P(ts[0], tup(*ts[1:]))


READ_REACTION = dict(
    path=PATH, name='read_reaction',
    params=[('line', L(TREE))],
    locals={'rtype': O(TREE), 'rate': O(FLOAT), 'error': O(FLOAT), 'units': O(TREE), 'r': STR},
    # parameters of the translation that are not parameters of the function
    extra=[('RTYPES', STRSET), ('g12', 'Py.FloatLit → String'), ('strL', 'List PP.Tree → String')],
    attr_globals={('Reaction', 'RTYPES'): ('RTYPES', STRSET)},
    fmt_specs={'12g': ('g12', FLOAT)}, fmt_list='strL',
    ret=tup(O(TREE), O(TREE), O(TREE), O(FLOAT), O(TREE), O(STR)))

GLOBAL_SLOTS = ['Domain', 'Strand', 'Complex', 'Macrostate', 'Reaction']
IMPORTED = [('DomainS', 'base_classes'), ('StrandS', 'base_classes'), ('ComplexS', 'base_classes'), ('MacrostateS', 'base_classes'),
            ('ReactionS', 'base_classes')]

GLOBALS_FUNCS = [
    dict(path=PATH, name='clear_io_objects', params=[], locals={}, ret='Unit'),
    dict(path=PATH, name='set_io_objects', params=[(p, O(CLASS)) for p in 'DSCMR'], locals={}, ret='Unit'),
]


def is_nat_const(node):
    return isinstance(node, ast.Constant) and type(node.value) is int and node.value >= 0


def lean_str(s):
    out = []
    for c in s:
        if c == '\\': out.append('\\\\')
        elif c == '"': out.append('\\"')
        elif c == '\n': out.append('\\n')
        elif c == '\t': out.append('\\t')
        elif 32 <= ord(c) < 127: out.append(c)
        else: raise Shape('string literal with the character %r' % c)
    return '"' + ''.join(out) + '"'


class ReactionTx(FuncTx):

    def __init__(self, spec, fn):
        super().__init__(spec, fn)
        self.attr_globals = dict(spec.get('attr_globals', {}))
        names = {n.id for n in ast.walk(fn) if isinstance(n, ast.Name)} | {a.arg for a in fn.args.args}
        extra = list(spec.get('extra', ()))
        for n, _ in extra:
            if n in names or n in self.locals:
                raise Shape('%s: the name %s is used by the translation' % (self.name, n))
        stored = {n.id for n in ast.walk(fn) if isinstance(n, ast.Name) and isinstance(n.ctx, (ast.Store, ast.Del))}
        for (g, _a) in self.attr_globals:
            if g in stored or g in self.params or g in self.locals or any(isinstance(n, (ast.Global, ast.Nonlocal)) and g in n.names for n in ast.walk(fn)):
                raise Shape('%s: the module global %s is bound inside the function' % (self.name, g))
        self.params.update(extra)
        self.param_order = [n for n, _ in extra] + self.param_order

    # ---- expressions -------------------------------------------------------------------------------------------
    def try_ex(self, node, expect=None):
        """(code, type) of a sub-expression whose TYPE decides which rule applies"""
        return self.ex(node, expect)

    def fmt_field(self, code, t, spec):
        if spec == '':
            if t == STR:
                return code
            if t == TREE:
                return '(Py.fmtTree %s %s)' % (self.spec['fmt_list'], code)
            if t == O(TREE):
                return '(Py.fmtOTree %s %s)' % (self.spec['fmt_list'], code)
            raise Shape('%s: {} of a %s' % (self.name, ty(t)))
        if spec in self.spec.get('fmt_specs', {}):
            f, want = self.spec['fmt_specs'][spec]
            return '(%s %s)' % (f, self.need(code, t, want))
        raise Shape('%s: format spec {:%s}' % (self.name, spec))

    def ex(self, node, expect=None):
        # x[i] on a token tree
        if isinstance(node, ast.Subscript) and is_nat_const(node.slice):
            base, tb = self.try_ex(node.value)
            if tb == TREE:
                return '(← Py.treeIdx %s %d)' % (base, node.slice.value), TREE
        # Reaction.RTYPES
        if isinstance(node, ast.Attribute) and isinstance(node.value, ast.Name) and isinstance(node.ctx, ast.Load):
            key = (node.value.id, node.attr)
            if key in self.attr_globals:
                return self.attr_globals[key]
            raise Shape('%s: attribute %s.%s' % (self.name, node.value.id, node.attr))
        if isinstance(node, ast.Compare) and len(node.ops) == 1:
            op, l, r = node.ops[0], node.left, node.comparators[0]
            # x != [] / x == []
            if isinstance(op, (ast.Eq, ast.NotEq)) and isinstance(r, ast.List) and not r.elts:
                a, ta = self.try_ex(l)
                if ta != TREE:
                    raise Shape('%s: comparison of a %s with []' % (self.name, ty(ta)))
                return ('(Py.treeNeNil %s)' if isinstance(op, ast.NotEq) else '(!Py.treeNeNil %s)') % a, BOOL
            # x in S / x not in S for a set of strs
            if isinstance(op, (ast.In, ast.NotIn)):
                b, tb = self.try_ex(r)
                if tb == STRSET:
                    a, ta = self.try_ex(l)
                    if ta not in (TREE, O(TREE)):
                        raise Shape('%s: `in` of a %s in a set of strs' % (self.name, ty(ta)))
                    c = '(← Py.inStrSet %s %s)' % (self.need(a, ta, O(TREE)), b)
                    return (c if isinstance(op, ast.In) else '(!%s)' % c), BOOL
        if isinstance(node, ast.Call) and not node.keywords and isinstance(node.func, ast.Name) and len(node.args) == 1:
            if node.func.id == 'len':
                a, ta = self.try_ex(node.args[0])
                if ta == TREE:
                    return '(Py.treeLen %s)' % a, NAT
            if node.func.id == 'float':
                a, ta = self.try_ex(node.args[0])
                if ta != TREE:
                    raise Shape('%s: float() of a %s' % (self.name, ty(ta)))
                return '(← Py.treeFloat %s)' % a, FLOAT
        if isinstance(node, ast.Call) and not node.keywords and isinstance(node.func, ast.Attribute) \
                and isinstance(node.func.value, ast.Constant) and isinstance(node.func.value.value, str):
            lit = node.func.value.value
            if node.func.attr == 'join' and len(node.args) == 1:
                a, ta = self.try_ex(node.args[0])
                if ta == TREE:
                    return '(← Py.treeJoin %s %s)' % (lean_str(lit), a), STR
            if node.func.attr == 'format':
                try:
                    fields = list(string.Formatter().parse(lit))
                except ValueError as e:
                    raise Shape('%s: format string %r: %s' % (self.name, lit, e))
                holes = [f for f in fields if f[1] is not None]
                if any(f[1] != '' or f[3] is not None or '{' in (f[2] or '') for f in holes) or len(holes) != len(node.args) \
                        or any(isinstance(a, ast.Starred) for a in node.args):
                    raise Shape('%s: format shape: %s' % (self.name, ast.unparse(node)[:70]))
                args = [self.ex(a) for a in node.args]          # evaluated left to right, before anything is formatted
                parts, k = [], 0
                for text, field, spec, _conv in fields:
                    if text:
                        parts.append(lean_str(text))
                    if field is not None:
                        parts.append(self.fmt_field(args[k][0], args[k][1], spec))
                        k += 1
                return '(' + ' ++ '.join(parts or ['""']) + ')', STR
        # A if c1 and … and cn else B with fallible tests
        if isinstance(node, ast.IfExp):
            tests = node.test.values if isinstance(node.test, ast.BoolOp) and isinstance(node.test.op, ast.And) else [node.test]
            cs = [self.truthy(t) for t in tests]
            if any('←' in c for c in cs):
                (a, ta), (b, tb) = self.ex(node.body, expect), self.ex(node.orelse, expect)
                t = ta
                if ta != tb:
                    if isinstance(ta, tuple) and ta[0] == 'Option' and ta[1] in (tb, '?'):
                        t = ta if ta[1] == tb else O(tb)
                    elif isinstance(tb, tuple) and tb[0] == 'Option' and tb[1] in (ta, '?'):
                        t = tb if tb[1] == ta else O(ta)
                    else:
                        raise Shape('%s: conditional expression of a %s and a %s' % (self.name, ty(ta), ty(tb)))
                    a, b = self.need(a, ta, t), self.need(b, tb, t)
                def nest(k):
                    if k == len(cs):
                        return monadic(a)
                    return '(do if %s then %s else %s)' % (cs[k], nest(k + 1), monadic(b))
                return '(← %s)' % nest(0), t
        # n-tuples (n > 2) against a declared right-nested pair type
        if isinstance(node, ast.Tuple) and len(node.elts) > 2:
            ts, e = [], expect
            for _ in node.elts[:-1]:
                if not (isinstance(e, tuple) and e[0] == 'Prod'):
                    raise Shape('%s: a %d-tuple where a %s is expected' % (self.name, len(node.elts), ty(expect) if expect else '?'))
                ts.append(e[1]); e = e[2]
            ts.append(e)
            if isinstance(e, tuple) and e[0] == 'Prod':
                raise Shape('%s: a %d-tuple where a longer tuple is expected' % (self.name, len(node.elts)))
            items = []
            for x, t in zip(node.elts, ts):
                c, tc = self.ex(x, t)
                items.append(self.need(c, tc, t))
            return '(' + ', '.join(items) + ')', expect
        return super().ex(node, expect)

    # ---- statements --------------------------------------------------------------------------------------------
    def stmt(self, st, out, ind, inloop):
        # log.warning(f'…'): no effect
        if isinstance(st, ast.Expr) and isinstance(st.value, ast.Call) and isinstance(st.value.func, ast.Attribute) \
                and isinstance(st.value.func.value, ast.Name) and st.value.func.value.id == 'log':
            c = st.value
            if c.func.attr != 'warning' or c.keywords or len(c.args) != 1 or not isinstance(c.args[0], ast.JoinedStr):
                raise Shape('%s: log call shape: %s' % (self.name, ast.unparse(st)[:60]))
            if not self.spec.get('_log_ok'):
                raise Shape('%s: log is not the module-level logging.getLogger(…)' % self.name)
            for v in c.args[0].values:
                if isinstance(v, ast.Constant):
                    continue
                if not (isinstance(v, ast.FormattedValue) and v.conversion == -1 and v.format_spec is None and isinstance(v.value, ast.Name)):
                    raise Shape('%s: f-string field in a log message: %s' % (self.name, ast.unparse(v)[:40]))
                _, t = self.var(v.value.id)
                if t not in (STR, TREE, O(TREE)):
                    raise Shape('%s: f-string field of type %s in a log message' % (self.name, ty(t)))
            out.append(ind + '-- %s      (no effect)' % ast.unparse(st).replace('\n', ' ')[:100])
            return
        # if a or b: with a fallible b
        if isinstance(st, ast.If) and isinstance(st.test, ast.BoolOp) and isinstance(st.test.op, ast.Or) \
                and any('←' in self.truthy(x) for x in st.test.values[1:]):
            first, rest = st.test.values[0], st.test.values[1:]
            rest_test = rest[0] if len(rest) == 1 else ast.BoolOp(op=ast.Or(), values=rest)
            inner = ast.If(test=rest_test, body=st.body, orelse=st.orelse)
            return self.stmt(ast.If(test=first, body=st.body, orelse=[inner]), out, ind, inloop)
        return super().stmt(st, out, ind, inloop)


class GlobalsTx(FuncTx):
    M = 'objectio.M'

    def __init__(self, spec, fn, imported):
        super().__init__(dict(spec, globals={n: ('base.' + n, CLASS) for n in imported}), fn)
        self.declared = set()                       # names this function declares `global`
        for n in ast.walk(fn):
            if isinstance(n, ast.Nonlocal):
                raise Shape('%s: nonlocal' % self.name)
            if isinstance(n, ast.Global):
                self.declared |= set(n.names)
        if not self.declared <= set(GLOBAL_SLOTS):
            raise Shape('%s: global declaration of %s' % (self.name, sorted(self.declared - set(GLOBAL_SLOTS))))
        for n in GLOBAL_SLOTS:
            if n in self.params or n in self.locals:
                raise Shape('%s: %s is both a module global and a variable' % (self.name, n))
        if 'base' in self.params or 'base' in self.locals or any(isinstance(n, ast.Name) and n.id == 'base' for n in ast.walk(fn)):
            raise Shape('%s: the name base is used by the translation' % self.name)
        self.ntmp = 0

    def pure(self, code):
        if '←' in code.replace('(← get)', ''):
            raise Shape('%s: a fallible sub-expression under and / or / a conditional expression: %s' % (self.name, code))
        return code

    def ex(self, node, expect=None):
        if isinstance(node, ast.Name) and node.id in GLOBAL_SLOTS and node.id not in self.loopvars:
            if isinstance(node.ctx, ast.Load):
                return '(← get).%s' % node.id, O(CLASS)      # a read of a module global (declared `global` or not)
        return super().ex(node, expect)

    def stmt(self, st, out, ind, inloop):
        if isinstance(st, ast.Global):
            out.append(ind + '-- global %s' % ', '.join(st.names))
            return
        if isinstance(st, ast.Assign) and len(st.targets) == 1 and isinstance(st.targets[0], ast.Name) and st.targets[0].id in GLOBAL_SLOTS:
            x = st.targets[0].id
            if x not in self.declared:
                raise Shape('%s: assignment to %s without `global %s` (it would be a local)' % (self.name, x, x))
            is_none = isinstance(st.value, ast.Constant) and st.value.value is None
            c, tc = self.ex(st.value, O(CLASS) if is_none else CLASS)
            self.ntmp += 1
            out.append(ind + 'let a%d : %s := %s' % (self.ntmp, ty(O(CLASS)), self.need(c, tc, O(CLASS))))
            out.append(ind + 'modify (fun g => { g with %s := a%d })      -- %s = …' % (x, self.ntmp, x))
            return
        if isinstance(st, ast.Expr) and isinstance(st.value, ast.Call) and isinstance(st.value.func, ast.Attribute) \
                and isinstance(st.value.func.value, ast.Name) and st.value.func.value.id == 'gc':
            c = st.value
            if c.func.attr != 'collect' or c.args or c.keywords:
                raise Shape('%s: gc call shape: %s' % (self.name, ast.unparse(st)[:40]))
            if not self.spec.get('_gc_ok'):
                raise Shape('%s: gc is not the module `gc` (import gc)' % self.name)
            out.append(ind + '-- gc.collect()      (no effect on the record)')
            return
        if isinstance(st, ast.Return) and st.value is None:
            if inloop or not self.at_end(st):
                raise Shape('%s: a bare return that is not the last statement' % self.name)
            out.append(ind + 'return ()')
            return
        if isinstance(st, ast.Return):
            raise Shape('%s: return with a value in a function typed Unit' % self.name)
        return super().stmt(st, out, ind, inloop)

    def at_end(self, st):
        return self.fn.body and self.fn.body[-1] is st

    def run(self):
        out = []
        self.stmts(list(self.fn.body), out, self.ind0, False)
        if not (self.fn.body and isinstance(self.fn.body[-1], ast.Return)):
            out.append(self.ind0 + 'return ()      -- end of the function')
        if self.locals or self.loops or self.flags:
            raise Shape('%s: locals / loops in a function over the module globals' % self.name)
        sig = ' '.join(['(base : objectio.Imports)'] + ['(%s : %s)' % (ident(p), ty(self.params[p])) for p in self.param_order])
        text = ['/-- `%s` (%s), statement by statement; the module globals are the state -/' % (self.name, self.spec['path']),
                'def py_%s %s : %s Unit := do' % (self.name, sig, self.M)]
        return '\n'.join(text + out) + '\n'


def module_checks(tree):
    """facts about the module text that the rules above rely on"""
    info = {}
    # log = logging.getLogger(…), bound once
    stores = [n for n in ast.walk(tree) if isinstance(n, ast.Name) and n.id == 'log' and isinstance(n.ctx, (ast.Store, ast.Del))]
    asg = [n for n in tree.body if isinstance(n, ast.Assign) and len(n.targets) == 1 and isinstance(n.targets[0], ast.Name) and n.targets[0].id == 'log']
    info['log_ok'] = (len(stores) == 1 and len(asg) == 1 and ast.unparse(asg[0].value).startswith('logging.getLogger(')
                      and imported_from(tree, 'logging', None)
                      and not any(isinstance(n, ast.arg) and n.arg == 'log' for n in ast.walk(tree)))
    info['gc_ok'] = imported_from(tree, 'gc', None) and not any(
        (isinstance(n, ast.Name) and n.id == 'gc' and isinstance(n.ctx, (ast.Store, ast.Del))) or (isinstance(n, ast.arg) and n.arg == 'gc')
        for n in ast.walk(tree))
    return info


def check_slots(tree, translated):
    """each slot is bound at module level exactly once, by `= None`; `global` statements only in the translated functions"""
    for x in GLOBAL_SLOTS:
        binders = [n for n in tree.body if any(isinstance(m, ast.Name) and m.id == x and isinstance(m.ctx, (ast.Store, ast.Del)) for m in ast.walk(n))
                   and not isinstance(n, (ast.FunctionDef, ast.ClassDef))]
        binders += [n for n in tree.body if isinstance(n, (ast.FunctionDef, ast.ClassDef)) and n.name == x]
        binders += [n for n in tree.body if isinstance(n, (ast.Import, ast.ImportFrom)) and any((a.asname or a.name).split('.')[0] == x for a in n.names)]
        if len(binders) != 1 or not (isinstance(binders[0], ast.Assign) and len(binders[0].targets) == 1 and isinstance(binders[0].targets[0], ast.Name)
                                     and isinstance(binders[0].value, ast.Constant) and binders[0].value.value is None):
            raise Shape('the module global %s is not bound exactly once at module level, by `%s = None`' % (x, x))
    for f in ast.walk(tree):
        if isinstance(f, (ast.FunctionDef, ast.AsyncFunctionDef, ast.Lambda)) and getattr(f, 'name', None) not in translated:
            if any(isinstance(n, ast.Global) for n in ast.walk(f)):
                raise Shape('the function %s has a `global` statement and is not translated' % getattr(f, 'name', '<lambda>'))
    for name, mod in IMPORTED:
        if not imported_from(tree, name, mod):
            raise Shape('%s is not bound exactly once, by `from .%s import %s`' % (name, mod, name))


def gen_pyreaderfn(repo):
    """`Gen/PyReaderFns.lean`: `read_reaction`, `clear_io_objects`, `set_io_objects` of dsdobjects/objectio.py"""
    out = ['/- GENERATED by translator/pyreaderfn.py from the Python source — do not edit. -/',
           'import DsdVerif.Model.PyPreludeReaderFns', '', 'set_option linter.unusedVariables false', '',
           'namespace Dsd.Gen', 'open Dsd', '']
    tree = ast.parse(open(os.path.join(repo, PATH)).read())
    builtins_unshadowed(tree, {'len', 'float', 'str', 'list'})
    info = module_checks(tree)
    summary = {}

    def stats(fn, tx):
        return {'statements': sum(1 for _ in ast.walk(fn) if isinstance(_, ast.stmt)) - 1, 'loops': tx.nloops,
                'source_lines': fn.end_lineno - fn.lineno + 1}

    # A. read_reaction
    spec = dict(READ_REACTION, _log_ok=info['log_ok'])
    fn = find_function(tree, spec['name'])
    check_signature(fn, spec)
    if fn.args.defaults or fn.args.kw_defaults or fn.decorator_list:
        raise Shape('%s: defaults / decorators' % spec['name'])
    definite_assignment(fn, [p for p, _ in spec['params']] + ['log', 'float'] + [g for g, _ in spec['attr_globals']], spec['name'])
    tx = ReactionTx(dict(spec, _fn=fn), fn)
    out.append(tx.run())
    summary[spec['name']] = stats(fn, tx)

    # B. the module globals and the two functions that assign them
    check_slots(tree, {s['name'] for s in GLOBALS_FUNCS})
    out.append('/-- the module globals of %s that `set_io_objects` / `clear_io_objects` assign (each is bound `= None` by the module text) -/' % PATH)
    out.append('structure objectio.Globals where\n' + '\n'.join('  %s : Option Py.ClassId := none' % x for x in GLOBAL_SLOTS) + '\nderiving Repr, DecidableEq\n')
    out.append('/-- the classes that %s imports from .base_classes (opaque class objects) -/' % PATH)
    out.append('structure objectio.Imports where\n' + '\n'.join('  %s : Py.ClassId' % x for x, _ in IMPORTED) + '\nderiving Repr, DecidableEq\n')
    out.append('abbrev objectio.M := Py.MS objectio.Globals\n')
    for spec in GLOBALS_FUNCS:
        fn = find_function(tree, spec['name'])
        check_signature(fn, spec)
        names = [a.arg for a in fn.args.args]
        if fn.decorator_list or len(fn.args.defaults) != len(names) or \
                not all(isinstance(d, ast.Constant) and d.value is None for d in fn.args.defaults):
            raise Shape('%s: every parameter must have the default None' % spec['name'])
        if names != [p for p, _ in spec['params']]:
            raise Shape('%s: parameters changed: %s' % (spec['name'], names))
        definite_assignment(fn, names + ['gc'] + GLOBAL_SLOTS + [x for x, _ in IMPORTED], spec['name'])
        tx = GlobalsTx(dict(spec, _fn=fn, _gc_ok=info['gc_ok']), fn, [x for x, _ in IMPORTED])
        out.append(tx.run())
        summary[spec['name']] = stats(fn, tx)
    out.append('end Dsd.Gen')
    return '\n'.join(out) + '\n', summary


if __name__ == '__main__':
    text, summ = gen_pyreaderfn(sys.argv[1])
    sys.stdout.write(text)
    sys.stderr.write(repr(summ) + '\n')
