#!/usr/bin/env python3
"""Statement-level translation of `DomainS.identifiers` (dsdobjects/base_classes.py) into Lean 4 (`Gen/PyDomain.lean`).

    python3 translator/pydomain.py <repo>  > lean/DsdVerif/Gen/PyDomain.lean

An extension of translator/pyfunc.py (class `DomainTx(FuncTx)`): same rules, same refusal policy (`Shape`), the translator knows
nothing about what the method is for.  What is added here (with Model/PyPreludeDomain.lean) - the trusted part:

  the class   `cls` is the STATE, the record `Py.Dom.Cls`: the two dictionaries of the metaclass (`reg : Py.SingletonCls (String × Nat)`, see
              translator/pysingleton.py), the counter `ID`, and `heap`, the attributes (`_name`, `_length`) of the live objects by
              identity.  A method is a computation in `Py.Dom.M = ExceptT Err (StateM Py.Dom.Cls)`.  `cls.ID` is read from the state;
              `cls.PREFIX`, `cls.DTYPE_CUTOFF`, `cls.SHORT_DOM_LEN`, `cls.LONG_DOM_LEN` are PARAMETERS of the translation (class
              attributes that no translated statement assigns; checked).
  cls(args)   the nested metaclass call is a call of the PARAMETER `request : Py.Dom.Req → Py.Dom.M Nat` (the whole
              `Singleton.__call__` for this class: `Py.Dom.Req` carries the four arguments of `identifiers`, positional or keyword,
              omitted ones `None`); its value is the identity of the returned object.  An object that such a call CREATES gets the
              identity `tmp` (a parameter: the next free identity).  Accepted uses, both of a value that is bound to no name:
                `len(cls(args))`    -> `(← Py.Dom.lenTemp tmp (← request {…}))`: `len` of the object (its `_length`; TypeError for None),
                `cls(args)` as a statement -> `Py.Dom.release tmp (← request {…})`,
              and in both the temporary DIES when the value has been consumed / discarded iff it is `tmp`, i.e. iff this very call
              created it (CPython reference counting: nothing else refers to it; an object that existed before is held by whoever
              keeps it alive): both dictionary entries and its heap entry vanish (`Py.Dom.drop`).  This is the reading of
              Model/DomainFull.lean (`lenAndRelease`).  Any other use of `cls(…)` is refused.
  try         `try: S1 … Sn except SingletonError: H` with every `Si` an assignment `x = e` or an expression statement: each `Si` is
              run under `Py.Dom.tryS` (SingletonError -> `none`, other exceptions pass); on `none` the handler runs and the rest of
              the body is skipped.  Effects on the class and assignments to locals made by S1 … S(i-1) PERSIST when Si raises, as in
              Python (an assignment happens only after its right-hand side has been evaluated).
  str         `name` is None-able (`Option String`): where a str is needed (`name[-1]`, `name[:-1]`, f-string field) it is
              `(← Py.unwrap name)` (TypeError for None).  `s[-1]` -> `(← Py.strLast s)` (IndexError for ''), `s[:-1]` ->
              `Py.strDropLast s`; `f'{a}{b}…'` without conversions / format specs -> the concatenation of the fields, a str field as
              it is, an int field (`cls.ID`) as its decimal numeral (`toString`), literal text as it is.
  dtype       a None-able str: `dtype == 'short'` -> `(dtype == some "short")`; truth value: not None and not ''.
  newargs     a dict that is `{}` or `{'length': e}` is the `Option` of that value (`none` / `some e`).
  tuples      `(a, b, c)` is `(a, (b, c))`; an element is coerced to the declared component type; a None-able int where the stub
              says int is `(← Py.unwrap …)` (TypeError) - Props/PyDomain shows these unreachable.
  and         `if a and b:` with a fallible `b` (`name[-1] == '*'`): the test is `(← (if a then (do pure b) else (pure false)))` - `b` is
              evaluated (and can raise) only when `a` is true, as in Python.
  renaming    the Python parameter `prefix` is written `prefix_` in Lean (`prefix` is a Lean keyword); done on a copy of the syntax
              tree after checking that `prefix_` does not occur.
  raise       `ObjectInitError` -> `Err.objectInit`, `SingletonError(msg)` -> `Err.singleton none`; messages dropped (their fields
              are variables / `cls.__name__`: formatting them has no effect).
"""
import ast, copy, os, sys
sys.path.insert(0, os.path.dirname(os.path.abspath(__file__)))
from pyfunc import (FuncTx, Shape, NAT, STR, BOOL, CHAR, L, O, P, ty, ident, check_signature, definite_assignment, builtins_unshadowed, monadic)

PATH = 'dsdobjects/base_classes.py'
KEY = P(STR, NAT)
CLS_PARAMS = {'PREFIX': STR, 'DTYPE_CUTOFF': NAT, 'SHORT_DOM_LEN': NAT, 'LONG_DOM_LEN': NAT}
REQ_FIELDS = [('name', O(STR)), ('length', O(NAT)), ('prefix', O(STR)), ('dtype', O(STR))]

IDENT_SPEC = dict(path=PATH, name='DomainS_identifiers',
                  params=[('request', 'Py.Dom.Req → Py.Dom.M Nat'), ('tmp', NAT), ('DTYPE_CUTOFF', NAT), ('SHORT_DOM_LEN', NAT),
                          ('LONG_DOM_LEN', NAT), ('PREFIX', STR)] + [(('prefix_' if n == 'prefix' else n), t) for n, t in REQ_FIELDS],
                  locals={'cname': STR, 'newargs': O(NAT), 'clength': NAT},
                  exc={'ObjectInitError': 'Err.objectInit', 'SingletonError': '(Err.singleton none)'},
                  ret=P(O(KEY), P(STR, O(NAT))))


def is_minus_one(node):
    return isinstance(node, ast.UnaryOp) and isinstance(node.op, ast.USub) and isinstance(node.operand, ast.Constant) \
        and type(node.operand.value) is int and node.operand.value == 1


def is_cls(node, attr=None):
    return isinstance(node, ast.Attribute) and isinstance(node.value, ast.Name) and node.value.id == 'cls' and (attr is None or node.attr == attr)


class DomainTx(FuncTx):
    M = 'Py.Dom.M'

    def pure(self, code):
        if '←' in code.replace('(← get)', ''):
            raise Shape('%s: a fallible sub-expression under and / or / a conditional expression: %s' % (self.name, code))
        return code

    def as_str(self, node):
        """the code of a str-valued expression (a None-able variable is unwrapped), or None"""
        if isinstance(node, ast.Name):
            c, t = self.var(node.id)
            if t == STR:
                return c
            if t == O(STR):
                return '(← Py.unwrap %s)' % c
        return None

    def truthy(self, node):
        if isinstance(node, ast.Name) and self.var(node.id)[1] == O(STR):
            return '(Py.Dom.truthyOS %s)' % self.var(node.id)[0]
        return super().truthy(node)

    def request(self, node):
        """`cls(args)`: the record of the four arguments"""
        names = [n for n, _ in REQ_FIELDS]
        if len(node.args) > len(names):
            raise Shape('%s: too many arguments for cls(…)' % self.name)
        given = dict(zip(names, node.args))
        for kw in node.keywords:
            if kw.arg not in names or kw.arg in given:
                raise Shape('%s: keyword argument of cls(…)' % self.name)
            given[kw.arg] = kw.value
        fields = []
        for n, t in REQ_FIELDS:
            if n in given:
                c, tc = self.ex(given[n], t)
                if tc == t[1]:
                    c = '(some %s)' % c
                elif not (tc == t or (isinstance(tc, tuple) and tc[0] == 'Option' and tc[1] == '?')):
                    raise Shape('%s: argument %s of cls(…) is a %s' % (self.name, n, ty(tc)))
            else:
                c = 'none'
            fields.append('%s := %s' % ('prefix_' if n == 'prefix' else n, c))
        return '(← request { %s })' % ', '.join(fields)

    def ex(self, node, expect=None):
        if is_cls(node):
            if node.attr == 'ID':
                return '(← get).ID', NAT
            if node.attr in CLS_PARAMS:
                return node.attr, CLS_PARAMS[node.attr]
            raise Shape('%s: cls.%s' % (self.name, node.attr))
        if isinstance(node, ast.Name) and expect == STR and self.var(node.id)[1] == O(STR):
            return self.as_str(node), STR
        if isinstance(node, ast.Subscript):
            s = self.as_str(node.value)
            if s is not None:
                if is_minus_one(node.slice):
                    return '(← Py.strLast %s)' % s, CHAR
                sl = node.slice
                if isinstance(sl, ast.Slice) and sl.lower is None and sl.step is None and is_minus_one(sl.upper):
                    return '(Py.strDropLast %s)' % s, STR
                raise Shape('%s: subscript of a str: %s' % (self.name, ast.unparse(node)[:40]))
        if isinstance(node, ast.JoinedStr):
            parts = []
            for p in node.values:
                if isinstance(p, ast.Constant) and isinstance(p.value, str):
                    parts.append(self.lit(p, STR)[0])
                    continue
                if p.conversion != -1 or p.format_spec is not None:
                    raise Shape('%s: replacement field with conversion / format spec' % self.name)
                c, t = self.ex(p.value, STR)
                if t == STR:
                    parts.append(c)
                elif t == NAT:
                    parts.append('(toString %s)' % c)               # decimal numeral of a non-negative int
                else:
                    raise Shape('%s: f-string field of type %s' % (self.name, ty(t)))
            return '(' + ' ++ '.join(parts) + ')' if len(parts) > 1 else parts[0], STR
        if isinstance(node, ast.Compare) and len(node.ops) == 1 and isinstance(node.ops[0], (ast.Eq, ast.NotEq)) \
                and isinstance(node.left, ast.Name) and self.var(node.left.id)[1] == O(STR) and isinstance(node.comparators[0], ast.Constant) \
                and isinstance(node.comparators[0].value, str):
            c = '(%s == some %s)' % (self.var(node.left.id)[0], self.lit(node.comparators[0], STR)[0])
            return (c if isinstance(node.ops[0], ast.Eq) else '(!%s)' % c), BOOL
        if isinstance(node, ast.Dict) and expect == O(NAT):
            if not node.keys:
                return 'none', O(NAT)
            if len(node.keys) == 1 and isinstance(node.keys[0], ast.Constant) and node.keys[0].value == 'length':
                c, t = self.ex(node.values[0], NAT)
                return '(some %s)' % self.need(c, t, NAT), O(NAT)
            raise Shape('%s: dict %s' % (self.name, ast.unparse(node)[:40]))
        if isinstance(node, ast.Tuple) and len(node.elts) in (2, 3) and expect and expect[0] == 'Prod':
            if len(node.elts) == 3:
                if not (isinstance(expect[2], tuple) and expect[2][0] == 'Prod'):
                    raise Shape('%s: a 3-tuple where a %s is expected' % (self.name, ty(expect)))
                want = [expect[1], expect[2][1], expect[2][2]]
            else:
                want = [expect[1], expect[2]]
            cs = []
            for e, w in zip(node.elts, want):
                if isinstance(e, ast.Constant) and e.value is None and isinstance(w, tuple) and w[0] == 'Option':
                    cs.append('none'); continue
                c, t = self.ex(e, w[1] if isinstance(w, tuple) and w[0] == 'Option' and isinstance(e, ast.Tuple) else w)
                if isinstance(w, tuple) and w[0] == 'Option' and t == w[1]:
                    c = '(some %s)' % c
                else:
                    c = self.need(c, t, w)
                cs.append(c)
            return ('(%s, %s, %s)' if len(cs) == 3 else '(%s, %s)') % tuple(cs), expect
        if isinstance(node, ast.Call) and isinstance(node.func, ast.Name) and node.func.id == 'len' and len(node.args) == 1 and not node.keywords \
                and isinstance(node.args[0], ast.Call) and isinstance(node.args[0].func, ast.Name) and node.args[0].func.id == 'cls':
            return '(← Py.Dom.lenTemp tmp %s)' % self.request(node.args[0]), NAT
        if isinstance(node, ast.Call) and isinstance(node.func, ast.Name) and node.func.id == 'cls':
            raise Shape('%s: cls(…) used other than as len(cls(…)) or as a statement' % self.name)
        return super().ex(node, expect)

    def stmt(self, st, out, ind, inloop):
        if isinstance(st, ast.If) and isinstance(st.test, ast.BoolOp) and isinstance(st.test.op, ast.And) and len(st.test.values) == 2 \
                and '←' in self.truthy(st.test.values[1]).replace('(← get)', ''):
            a, b = self.pure(self.truthy(st.test.values[0])), self.truthy(st.test.values[1])
            out.append(ind + 'if (← (if %s then (do pure %s) else (pure false))) then' % (a, b))
            self.block(st.body, out, ind + '  ', inloop)
            if st.orelse:
                out.append(ind + 'else')
                self.block(st.orelse, out, ind + '  ', inloop)
            return
        if isinstance(st, ast.Expr) and isinstance(st.value, ast.Call) and isinstance(st.value.func, ast.Name) and st.value.func.id == 'cls':
            out.append(ind + 'Py.Dom.release tmp %s      -- the value of %s is discarded' % (self.request(st.value), ast.unparse(st.value)))
            return
        if isinstance(st, ast.Raise) and isinstance(st.exc, ast.Call) and isinstance(st.exc.func, ast.Name) and st.exc.func.id in self.exc:
            if len(st.exc.args) != 1 or st.exc.keywords or not isinstance(st.exc.args[0], (ast.JoinedStr, ast.Constant)):
                raise Shape('%s: raise shape' % self.name)
            for p in getattr(st.exc.args[0], 'values', []):
                if isinstance(p, ast.FormattedValue) and not (isinstance(p.value, ast.Name) or is_cls(p.value, '__name__')):
                    raise Shape('%s: message field %s' % (self.name, ast.unparse(p.value)[:30]))
            out.append(ind + 'throw %s' % self.exc[st.exc.func.id])
            return
        return super().stmt(st, out, ind, inloop)

    def try_(self, st, out, ind, inloop):
        if st.orelse or st.finalbody or len(st.handlers) != 1 or inloop:
            raise Shape('%s: try shape' % self.name)
        h = st.handlers[0]
        if not (isinstance(h.type, ast.Name) and h.type.id == 'SingletonError') or h.name is not None:
            raise Shape('%s: handler for %s' % (self.name, ast.unparse(h.type) if h.type else 'everything'))
        self.ntry = getattr(self, 'ntry', 0)
        def rest(stmts, ind):
            if not stmts:
                return
            s = stmts[0]
            self.ntry += 1
            n = self.ntry
            body = []
            if isinstance(s, ast.Assign) and len(s.targets) == 1 and isinstance(s.targets[0], ast.Name):
                x = s.targets[0].id
                if x in self.loopvars or x not in self.locals:
                    raise Shape('%s: try body assigns %s' % (self.name, x))
                t = self.locals[x]
                c, tc = self.ex(s.value, t)
                c = self.need(c, tc, t)
                body.append('pure %s' % c)
                after = self.set_local(x, 'y%d' % n)
            elif isinstance(s, ast.Expr):
                self.stmt(s, body, '', False)
                body.append('pure ()')
                after = None
            else:
                raise Shape('%s: try body statement %s' % (self.name, ast.unparse(s)[:40]))
            out.append(ind + 'match (← Py.Dom.tryS (do')
            out.extend(ind + '    ' + b for b in body)
            out.append(ind + '  )) with')
            out.append(ind + '| none =>      -- except SingletonError:')
            self.block(h.body, out, ind + '  ', False)
            out.append(ind + '| some y%d =>' % n)
            if after:
                out.append(ind + '  ' + after)
            else:
                out.append(ind + '  pure ()')
            rest(stmts[1:], ind + '  ')
        rest(list(st.body), ind)


def find_class(tree, name):
    c = [n for n in tree.body if isinstance(n, ast.ClassDef) and n.name == name]
    if len(c) != 1:
        raise Shape('class %s not found exactly once' % name)
    return c[0]


def gen_identifiers(tree):
    cls = find_class(tree, 'DomainS')
    ms = [n for n in cls.body if isinstance(n, ast.FunctionDef) and n.name == 'identifiers']
    if len(ms) != 1 or [ast.unparse(d) for d in ms[0].decorator_list] != ['classmethod']:
        raise Shape('DomainS.identifiers is not a classmethod defined exactly once')
    fn = ms[0]
    a = fn.args
    if [x.arg for x in a.args] != ['cls'] + [n for n, _ in REQ_FIELDS] or a.vararg or a.kwarg or a.kwonlyargs or a.posonlyargs \
            or len(a.defaults) != 4 or not all(isinstance(d, ast.Constant) and d.value is None for d in a.defaults):
        raise Shape('DomainS.identifiers: signature is not (cls, name=None, length=None, prefix=None, dtype=None)')
    # class attributes read as parameters: assigned once in the class body, never by the method
    for at in CLS_PARAMS:
        if sum(1 for n in cls.body if isinstance(n, ast.Assign) and any(isinstance(t, ast.Name) and t.id == at for t in n.targets)) != 1:
            raise Shape('DomainS.%s is not assigned exactly once in the class body' % at)
    for n in ast.walk(fn):
        if isinstance(n, ast.Attribute) and isinstance(n.value, ast.Name) and n.value.id == 'cls' and not isinstance(n.ctx, ast.Load):
            raise Shape('DomainS.identifiers assigns cls.%s' % n.attr)
        if isinstance(n, ast.Name) and n.id == 'cls' and not isinstance(n.ctx, ast.Load):
            raise Shape('DomainS.identifiers assigns cls')
        if isinstance(n, ast.Name) and n.id in ('request', 'tmp') + tuple(CLS_PARAMS):
            raise Shape('DomainS.identifiers uses the name %s' % n.id)
    if any(isinstance(n, ast.Name) and n.id == 'prefix_' for n in ast.walk(fn)):
        raise Shape('DomainS.identifiers uses the name prefix_')
    fn2 = copy.deepcopy(fn)
    for n in ast.walk(fn2):
        if isinstance(n, ast.Name) and n.id == 'prefix':
            n.id = 'prefix_'
    fn2.args = ast.arguments(posonlyargs=[], args=[ast.arg(arg=p) for p, _ in IDENT_SPEC['params']], vararg=None, kwonlyargs=[],
                             kw_defaults=[], kwarg=None, defaults=[])
    fn2.decorator_list = []
    spec = dict(IDENT_SPEC, _fn=fn2)
    check_signature(fn2, spec)
    definite_assignment(fn2, [p for p, _ in spec['params']] + ['cls', 'ObjectInitError', 'SingletonError'], spec['name'])
    tx = DomainTx(spec, fn2)
    return tx.run(), {'statements': sum(1 for n in ast.walk(fn) if isinstance(n, ast.stmt)) - 1, 'source_lines': fn.end_lineno - fn.lineno + 1}


def gen_pydomain(repo):
    out = ['/- GENERATED by translator/pydomain.py from the Python source — do not edit. -/',
           'import DsdVerif.Model.PyPreludeDomain', '', 'set_option linter.unusedVariables false', '',
           'namespace Dsd.Gen', 'open Dsd', '']
    tree = ast.parse(open(os.path.join(repo, PATH)).read())
    builtins_unshadowed(tree, {'len'})
    text, summ = gen_identifiers(tree)
    out.append(text)
    out.append('end Dsd.Gen')
    return '\n'.join(out) + '\n', {'DomainS_identifiers': summ}


if __name__ == '__main__':
    text, summ = gen_pydomain(sys.argv[1])
    sys.stdout.write(text)
    sys.stderr.write(repr(summ) + '\n')
