#!/usr/bin/env python3
"""Statement-level translation of `MacrostateS.identifiers` and `ReactionS.identifiers` (dsdobjects/base_classes.py) into Lean 4
(`Gen/PyIdentifiers2.lean`).

    /venv/bin/python translator/pyident2.py <repo>  > lean/DsdVerif/Gen/PyIdentifiers2.lean

An extension of translator/pyident.py (`Ident2Tx(IdentTx)`; same rules, same refusal policy: anything that has none of the accepted
shapes raises `Shape`, the method becomes a raising stub of the right type and is reported; the translator knows nothing about what
the methods are supposed to compute).  Primitives: Model/PyPreludeIdent2.lean (namespace `Dsd.Py`).

Reading of Python that is ADDED here (each rule as narrow as the two methods need):

  members     a member of a macrostate / a reaction is an OBJECT of which the methods read two attributes only: `x.name` and
              `x.canonical_form`.  It is read as the pair of these two values (as Model/SetsFull.lean does): `x.name` -> `x.1`,
              `x.canonical_form` -> `x.2`.  Typing: a member of a macrostate is a complex, `String × Key`; a member of a reaction is a
              complex or a macrostate, `String × MemKey` (`MemKey.c key` / `MemKey.m keys`: a macrostate's canonical form is the tuple
              of its complexes, each read through its canonical form, by which `ComplexS.__eq__ / __lt__ / __hash__` go).
  None-able lists   iterating a `None`-able list (`[… for x in l]`, `sorted(l…)`), `l[0]`: `(← Py.unwrap l)` - TypeError for `None`,
              as in Python (`complexes` after it was rebound is typed `None`-able because the parameter is)
  sorted(l, key=lambda y: y.canonical_form)   only this key function.  Complexes: `Py.sortedBy (fun a b => Py.ckeyLt a.2 b.2) l`, the
              stable sort by Python's tuple order on (names, structure) (pyident.py).  Members of a reaction:
              `(← Py.sortedByM (fun a b => Py.formLtM a.2 b.2) l)`: the same stable sort with a comparison that RAISES
              AssertionError when a complex's form meets a (non-empty) macrostate's form (`Py.formLtM`, read off
              `ComplexS.__lt__ / __gt__`); `sorted(l)` of a list of canonical forms: `(← Py.sortedByM Py.formLtM l)`
  tuple(…)    `tuple(sorted(…))` is the sorted list (tuples and lists are both `List`s); `tuple((a, b, c))` is the triple
  (a, b, c)   nested pairs (pyident.py); in a `return` the components are coerced to the declared result type
  partial records   a dict whose keys are among the keys declared in the stub (`precords`: `nargs` / `newargs` with `canon`, `name`) is
              the tuple of its OPTIONAL values: `{}` -> `(none, none)`, `{'canon': e}` -> `(some e, none)`, `d['name'] = e` sets
              that component.  The insertion order of the keys is not represented (two dicts with the same items are `==`); the
              local may only be assigned displays, item-assigned with a constant declared key, and returned.
  'lit{}lit'.format(a, …)   a str literal with `{}` fields only (no other brace), as many arguments, no keywords: the literal pieces and
              the arguments concatenated; an argument of type str is itself, a `None`-able str is `Py.strOpt` (`None` -> 'None')
  ' + '.join([x.name for x in …])   a literal separator and a list of opaque strs: `Py.strJoinS sep parts` (`String.intercalate`)
  early return   `return e` inside `if` (not in a loop) is `return` of the `do` block (FuncTx)
  assert      `Err.assertion` (FuncTx)
  x in [e for y in l]   with a `None`-able `x` and a list of strs: `Py.optIn x l` - `None in l` is False (no exception), else
              `List.contains`
  built-ins   `tuple sorted map str len range isinstance list zip all reversed set next` must not be bound anywhere in the module

Typing (the stubs IDENT2_METHODS): `complexes`, `reactants`, `products` `None`-able lists of members, `name`, `rtype` `None`-able strs.
Results: `(canon, name, nargs)`; MacrostateS: `canon` is the (`None`-able) sorted member list; ReactionS: `canon` is
`(reactant forms, (product forms, rtype))`.
"""
import ast, os, sys
sys.path.insert(0, os.path.dirname(os.path.abspath(__file__)))
from pyfunc import Shape, NAT, INT, CHAR, STR, BOOL, TEXT, L, O, P, D, ty, ident, monadic
from pyident import (IdentTx, CKEY, PATH, find_class, find_classmethod, plain_function, definite_assignment_fe, builtins_unshadowed)

MEMKEY = 'MemKey'
MEMBER = P(STR, CKEY)                           # a complex: (name, canonical form)
RMEMBER = P(STR, MEMKEY)                        # a complex or a macrostate: (name, canonical form)
RKEY = P(L(MEMKEY), P(L(MEMKEY), O(STR)))       # (sorted reactant forms, sorted product forms, rtype)


def precord(types):
    """a dict whose keys are among the declared ones: the tuple of its optional values"""
    t = O(types[-1])
    for x in reversed(types[:-1]):
        t = P(O(x), t)
    return t


MREC = [('canon', O(L(MEMBER))), ('name', O(STR))]
RREC = [('canon', RKEY), ('name', O(STR))]

IDENT2_METHODS = [
    dict(cls='MacrostateS', method='identifiers', name='MacrostateS_identifiers', cls_params=[],
         params=[('complexes', O(L(MEMBER))), ('name', O(STR))],
         precords={'nargs': MREC},
         locals={'nargs': precord([t for _, t in MREC])},
         ret=P(O(L(MEMBER)), P(O(STR), precord([t for _, t in MREC])))),
    dict(cls='ReactionS', method='identifiers', name='ReactionS_identifiers', cls_params=[],
         params=[('reactants', O(L(RMEMBER))), ('products', O(L(RMEMBER))), ('rtype', O(STR)), ('name', O(STR))],
         precords={'newargs': RREC},
         locals={'newargs': precord([t for _, t in RREC]), 'react': L(MEMKEY), 'prods': L(MEMKEY), 'canon': RKEY},
         ret=P(O(RKEY), P(O(STR), precord([t for _, t in RREC])))),
]


def lean_str(s):
    if any(ord(c) < 32 or ord(c) > 126 for c in s):
        raise Shape('string literal %r' % s)
    return '"%s"' % s.replace('\\', '\\\\').replace('"', '\\"')


def is_optlist(t):
    return isinstance(t, tuple) and t[0] == 'Option' and isinstance(t[1], tuple) and t[1][0] == 'List'


class Ident2Tx(IdentTx):
    def __init__(self, spec, fn, specs):
        super().__init__(spec, fn, specs)
        self.precords = dict(spec.get('precords', {}))
        self.prec_types = {repr(precord([t for _, t in f])): f for f in self.precords.values()}
        # a partial record is only assigned displays, item-assigned with a constant key, and returned
        for r in self.precords:
            keys = [k for k, _ in self.precords[r]]
            ok = set()
            for st in ast.walk(fn):
                if isinstance(st, ast.Assign) and len(st.targets) == 1:
                    t = st.targets[0]
                    if isinstance(t, ast.Name) and t.id == r and isinstance(st.value, ast.Dict):
                        ok.add(id(t))
                    elif isinstance(t, ast.Subscript) and isinstance(t.value, ast.Name) and t.value.id == r \
                            and isinstance(t.slice, ast.Constant) and t.slice.value in keys:
                        ok.add(id(t.value))
                if isinstance(st, ast.Return) and isinstance(st.value, ast.Tuple):
                    ok |= {id(e) for e in st.value.elts if isinstance(e, ast.Name) and e.id == r}
            for n in ast.walk(fn):
                if isinstance(n, ast.Name) and n.id == r and id(n) not in ok:
                    raise Shape('%s: the record %s is used other than by a display, %s[<key>] = …, or returning it' % (self.name, r, r))

    # ---- expressions ---------------------------------------------------------------------------------------------------
    def unwrap_list(self, code, t):
        if is_optlist(t):
            return '(← Py.unwrap %s)' % code, t[1]            # iterating / subscripting None is a TypeError
        return code, t

    def ex(self, node, expect=None):
        # x.name / x.canonical_form of a member
        if isinstance(node, ast.Attribute) and node.attr in ('name', 'canonical_form') and isinstance(node.ctx, ast.Load) \
                and not (isinstance(node.value, ast.Name) and node.value.id == 'cls'):
            c, t = self.ex(node.value)
            if t not in (MEMBER, RMEMBER):
                raise Shape('%s: .%s of a %s' % (self.name, node.attr, ty(t)))
            return (c + '.1', STR) if node.attr == 'name' else (c + '.2', t[2])
        # l[0] of a None-able list
        if isinstance(node, ast.Subscript) and isinstance(node.value, ast.Name) and isinstance(node.slice, ast.Constant) \
                and node.slice.value == 0 and not isinstance(node.slice.value, bool):
            c, t = self.ex(node.value)
            if is_optlist(t):
                c, t = self.unwrap_list(c, t)
                return '(← Py.idx %s 0)' % c, t[1]
        # x in l for a None-able x and a list of values that are not None
        if isinstance(node, ast.Compare) and len(node.ops) == 1 and isinstance(node.ops[0], (ast.In, ast.NotIn)) \
                and isinstance(node.comparators[0], (ast.ListComp, ast.List)) and isinstance(node.left, ast.Name):
            a, ta = self.ex(node.left)
            if isinstance(ta, tuple) and ta[0] == 'Option':
                b, tb = self.ex(node.comparators[0], L(ta[1]))
                if tb != L(ta[1]) or '←' in a:
                    raise Shape('%s: `in` on a %s and a %s' % (self.name, ty(ta), ty(tb)))
                c = '(Py.optIn %s %s)' % (a, b)
                return (c if isinstance(node.ops[0], ast.In) else '(!%s)' % c), BOOL
        # partial-record displays
        if isinstance(node, ast.Dict) and expect is not None and repr(expect) in self.prec_types:
            fields = self.prec_types[repr(expect)]
            if not all(isinstance(k, ast.Constant) for k in node.keys) or [k.value for k in node.keys] != [k for k, _ in fields][:len(node.keys)]:
                raise Shape('%s: the keys of %s are not a prefix of %s' % (self.name, ast.unparse(node)[:40], [k for k, _ in fields]))
            vals = []
            for (k, t), e in zip(fields, node.values):
                c, tc = self.ex(e, t)
                vals.append('(some %s)' % self.need(c, tc, t))
            vals += ['none'] * (len(fields) - len(vals))
            return '(' + ', '.join(vals) + ')', expect
        if isinstance(node, ast.Call) and isinstance(node.func, ast.Name):
            f = node.func.id
            if f == 'sorted' and len(node.args) == 1 and not (isinstance(node.args[0], ast.Name) and
                                                              isinstance(self.var(node.args[0].id)[1], tuple) and self.var(node.args[0].id)[1][0] == 'Dict'):
                l, tl = self.ex(node.args[0])
                l, tl = self.unwrap_list(l, tl)
                if not node.keywords:
                    if tl != L(MEMKEY):
                        raise Shape('%s: sorted() of a %s' % (self.name, ty(tl)))
                    return '(← Py.sortedByM Py.formLtM %s)' % l, tl
                kw = node.keywords[0]
                lam = kw.value
                if len(node.keywords) != 1 or kw.arg != 'key' or not (isinstance(lam, ast.Lambda) and len(lam.args.args) == 1 and not (
                        lam.args.vararg or lam.args.kwarg or lam.args.kwonlyargs or lam.args.defaults or lam.args.posonlyargs)):
                    raise Shape('%s: sorted shape: %s' % (self.name, ast.unparse(node)[:60]))
                y = lam.args.args[0].arg
                if ast.dump(lam.body) != ast.dump(ast.parse('%s.canonical_form' % y, mode='eval').body):
                    raise Shape('%s: sort key: %s' % (self.name, ast.unparse(lam)[:60]))
                if tl == L(MEMBER):
                    return '(Py.sortedBy (fun a b => Py.ckeyLt a.2 b.2) %s)' % l, tl
                if tl == L(RMEMBER):
                    return '(← Py.sortedByM (fun a b => Py.formLtM a.2 b.2) %s)' % l, tl
                raise Shape('%s: sorted(…, key=….canonical_form) of a %s' % (self.name, ty(tl)))
            if f == 'tuple' and len(node.args) == 1 and not node.keywords:
                a = node.args[0]
                if isinstance(a, ast.Call) and isinstance(a.func, ast.Name) and a.func.id == 'sorted':
                    return self.ex(a, expect)                                           # tuple(sorted(…)): the sorted list
                if isinstance(a, ast.Tuple) and len(a.elts) == 3:                       # tuple((x, y, z)) is (x, y, z)
                    return self.ex(a, expect)
        if isinstance(node, ast.Call) and isinstance(node.func, ast.Attribute) and isinstance(node.func.value, ast.Constant) \
                and isinstance(node.func.value.value, str):
            lit = node.func.value.value
            # 'lit{}lit'.format(a, …)
            if node.func.attr == 'format':
                pieces = lit.split('{}')
                if node.keywords or any('{' in p or '}' in p for p in pieces) or len(pieces) - 1 != len(node.args) or not node.args:
                    raise Shape('%s: format shape: %s' % (self.name, ast.unparse(node)[:60]))
                parts = [lean_str(pieces[0])] if pieces[0] else []
                for a, p in zip(node.args, pieces[1:]):
                    c, t = self.ex(a)
                    if t == STR:
                        parts.append(c)
                    elif t == O(STR):
                        parts.append('(Py.strOpt %s)' % c)
                    else:
                        raise Shape('%s: format argument of type %s: %s' % (self.name, ty(t), ast.unparse(a)[:40]))
                    if p:
                        parts.append(lean_str(p))
                return '(' + ' ++ '.join(parts) + ')', STR
            # ' + '.join([… opaque strs …])
            if node.func.attr == 'join' and len(node.args) == 1 and not node.keywords and isinstance(node.args[0], ast.ListComp):
                parts, tp = self.ex(node.args[0])
                if tp == L(STR):
                    return '(Py.strJoinS %s %s)' % (lean_str(lit), parts), STR
                raise Shape('%s: join of a %s' % (self.name, ty(tp)))
        return super().ex(node, expect)

    def mapped(self, x, body, iter_, expect):
        """FuncTx.mapped, with `None`-able lists unwrapped (iterating None is a TypeError)"""
        it, tit = self.ex(iter_)
        it, tit = self.unwrap_list(it, tit)
        if not (isinstance(tit, tuple) and tit[0] == 'List'):
            raise Shape('%s: map / comprehension over a %s' % (self.name, ty(tit)))
        if x in self.loopvars or x in self.locals or x in self.params:
            raise Shape('%s: the bound variable %s shadows another variable' % (self.name, x))
        saved = dict(self.loopvars)
        self.loopvars[x] = tit[1]
        want = expect[1] if expect and expect[0] == 'List' else None
        b, tb = self.ex(body, want)
        if want is not None:
            b, tb = self.need(b, tb, want), want
        self.loopvars = saved
        if '←' in b:
            raise Shape('%s: fallible element of a comprehension: %s' % (self.name, b))
        return '(List.map (fun (%s : %s) => %s) %s)' % (ident(x), ty(tit[1]), b, it), L(tb)

    # ---- statements ----------------------------------------------------------------------------------------------------
    def stmt(self, st, out, ind, inloop):
        # record['key'] = e
        if isinstance(st, ast.Assign) and len(st.targets) == 1 and isinstance(st.targets[0], ast.Subscript) \
                and isinstance(st.targets[0].value, ast.Name) and st.targets[0].value.id in self.precords:
            r = st.targets[0].value.id
            fields = self.precords[r]
            k = st.targets[0].slice
            if not (isinstance(k, ast.Constant) and k.value in [q for q, _ in fields]):
                raise Shape('%s: %s[%s] = …' % (self.name, r, ast.unparse(k)))
            i = [q for q, _ in fields].index(k.value)
            c, tc = self.ex(st.value, fields[i][1])
            val = '(some %s)' % self.need(c, tc, fields[i][1])
            cur, _ = self.var(r)
            comps, path = [], cur
            for j in range(len(fields)):
                last = j == len(fields) - 1
                proj = path if last else path + '.1'
                comps.append(val if j == i else proj)
                path = path + '.2'
            out.append(ind + self.set_local(r, '(' + ', '.join(comps) + ')') + '      -- %s[%r] = …' % (r, k.value))
            return
        return super().stmt(st, out, ind, inloop)


def stub_text(spec, reason):
    sig = ' '.join('(%s : %s)' % (ident(q), ty(t)) for q, t in spec['params'])
    return ('/-- `%s` (%s) could NOT be translated: %s -/\n' % (spec['name'], PATH, reason.replace('-/', '- /')) +
            'def py_%s %s : Py.M (%s) := throw (Err.fault "untranslated")\n' % (spec['name'], sig, ty(spec['ret'])))


def gen_pyident2(repo):
    out = ['/- GENERATED by translator/pyident2.py from the Python source — do not edit. -/',
           'import DsdVerif.Model.PyPreludeIdent2', '', 'set_option linter.unusedVariables false', '',
           'namespace Dsd.Gen', 'open Dsd', '']
    tree = ast.parse(open(os.path.join(repo, PATH)).read())
    builtins_unshadowed(tree, {'isinstance', 'list', 'zip', 'all', 'len', 'reversed', 'set', 'str', 'range', 'tuple', 'sorted', 'map', 'next'})
    summary, untranslated = {}, {}
    for spec in IDENT2_METHODS:
        s = dict(spec, path=PATH, lean=spec['name'], str_is_builtin=True)
        fn = None
        try:
            cls = find_class(tree, spec['cls'])
            fn = find_classmethod(cls, spec['method'])
            g = plain_function(fn, spec)
            s['_fn'] = g
            definite_assignment_fe(g, [p for p, _ in spec['params']] + ['cls', 'next'], spec['name'])
            tx = Ident2Tx(s, g, {})
            text = tx.run()
        except Shape as e:
            untranslated[spec['name']] = str(e)
            text = stub_text(spec, str(e))
        out.append(text)
        summary[spec['name']] = {'statements': (sum(1 for _ in ast.walk(fn) if isinstance(_, ast.stmt)) - 1) if fn is not None else 0,
                                 'loops': 0, 'source_lines': (fn.end_lineno - fn.lineno + 1) if fn is not None else 0}
    out.append('end Dsd.Gen')
    if untranslated:
        summary['untranslated'] = untranslated
    return '\n'.join(out) + '\n', summary


if __name__ == '__main__':
    text, summ = gen_pyident2(sys.argv[1])
    sys.stdout.write(text)
    sys.stderr.write(repr(summ) + '\n')
