"""Shared machinery of the checks: translator, lake build, axiom audit, Lean driver, verdict, evidence."""
import fcntl, hashlib, json, os, random, re, subprocess, sys, time

VERIF = os.path.dirname(os.path.dirname(os.path.abspath(__file__)))
LEAN = os.path.join(VERIF, 'lean')
GEN = os.path.join(LEAN, 'DsdVerif', 'Gen')
EVID = os.path.join(VERIF, 'evidence')
REPLAYS = os.path.join(VERIF, 'replays')
KNOWN = os.path.join(VERIF, 'known_findings.txt')
ALLOWED_AXIOMS = {'propext', 'Classical.choice', 'Quot.sound'}
FORBIDDEN = re.compile(r'\bsorry\b|\badmit\b|^axiom |native_decide|bv_decide|implemented_by|\bunsafe |maxHeartbeats 0')
TRUSTED_BASE = [
    'Lean 4.33 kernel (thorough tier: re-checked with leanchecker)',
    'axioms allowed: propext, Classical.choice, Quot.sound (audited on every run: #print axioms for the listed theorems, and a traversal of every constant of every imported DsdVerif module)',
    'translator/gen.py (Python ast/symtable transcription of tables and name references)',
    'correspondence harness (differential testing of Lean model vs. /repo working tree)',
    'CPython 3.12 / pyparsing 3.3.2 semantics are modelled, not verified',
]


AUDIT_ALL = r"""
open Lean Elab Command

partial def axOf (env : Environment) (c : Name) : StateM (Std.HashMap Name (Array Name)) (Array Name) := do
  match (← get)[c]? with
  | some r => return r
  | none =>
    modify (·.insert c #[])
    match env.find? c with
    | none => return #[]
    | some ci =>
      let r ← match ci with
        | .axiomInfo _ => pure #[c]
        | _ => do
          let vals : Array Name := match ci with
            | .defnInfo v => v.value.getUsedConstants
            | .thmInfo v => v.value.getUsedConstants
            | .opaqueInfo v => v.value.getUsedConstants
            | _ => #[]
          let used := ci.type.getUsedConstants ++ vals
          let mut acc : Array Name := #[]
          for d in used do
            for a in (← axOf env d) do
              if !acc.contains a then acc := acc.push a
          pure acc
      modify (·.insert c r)
      return r

elab "#audit_all" : command => do
  let env ← getEnv
  let allowed : List Name := [``propext, ``Classical.choice, ``Quot.sound]
  let mut st : Std.HashMap Name (Array Name) := {}
  let mut nconst := 0
  let mut nthm := 0
  let mut axs : Array Name := #[]
  let mut off : Array Name := #[]
  for (c, ci) in env.constants.map₁.toList do
    match env.getModuleIdxFor? c with
    | none => pure ()
    | some idx =>
      let m := env.header.moduleNames[idx.toNat]!
      if (`DsdVerif).isPrefixOf m then
        nconst := nconst + 1
        if ci matches .thmInfo _ then nthm := nthm + 1
        let (r, st') := (axOf env c).run st
        st := st'
        for a in r do
          if !axs.contains a then axs := axs.push a
        if r.any (fun a => !allowed.contains a) then off := off.push c
  logInfo m!"AUDIT-ALL constants={nconst} theorems={nthm} axioms={axs.toList} offenders={off.toList.take 20}"

#audit_all
"""


class Infra(Exception):
    """infrastructure failure (exit 2, never a violation)"""


def sh(cmd, cwd=None, timeout=1800, input=None, env=None):
    e = dict(os.environ)
    if env:
        e.update(env)
    p = subprocess.run(cmd, cwd=cwd, input=input, capture_output=True, text=True, timeout=timeout, env=e)
    return p.returncode, p.stdout, p.stderr


class Lock:
    def __enter__(self):
        os.makedirs(os.path.join(LEAN, '.lake'), exist_ok=True)
        self.f = open(os.path.join(LEAN, '.lake', 'verif.lock'), 'w')
        fcntl.flock(self.f, fcntl.LOCK_EX)
        return self

    def __exit__(self, *a):
        fcntl.flock(self.f, fcntl.LOCK_UN)
        self.f.close()


def repo_head(repo):
    rc, out, _ = sh(['git', '-C', repo, 'rev-parse', '--short', 'HEAD'])
    rc2, out2, _ = sh(['git', '-C', repo, 'status', '--porcelain', '--', 'dsdobjects'])
    return out.strip() + ('+dirty' if out2.strip() else '')


def gen_deps(modules):
    """the `DsdVerif.Gen.*` modules that the given Lean modules import, directly or through other DsdVerif modules"""
    seen, todo, gens = set(), list(modules), set()
    while todo:
        m = todo.pop()
        if m in seen:
            continue
        seen.add(m)
        if m.startswith('DsdVerif.Gen.'):
            gens.add(m.split('.')[-1])
        path = os.path.join(LEAN, *m.split('.')) + '.lean'
        try:
            text = open(path, encoding='utf-8').read()
        except OSError:
            continue
        for mm in re.findall(r'^import\s+(DsdVerif\.[A-Za-z0-9_.]+)', text, re.M):
            todo.append(mm)
    return gens


# ------------------------------------------------------------------------- proof side
class ProofSide:
    """translator + lake build + axiom audit + forbidden-token grep for one property"""

    def __init__(self, prop, repo, modules, theorems, gen_files=()):
        self.prop, self.repo = prop, repo
        self.modules = modules          # lake module names to build, e.g. ['DsdVerif.Props.C17']
        self.theorems = theorems        # fully qualified theorem names to audit
        self.gen_files = gen_files
        self.ok = True
        self.problems = []              # list of dicts {kind, detail}
        self.gen_report = {}
        self.axioms = {}                # theorem -> list of axioms
        self.audit_all = None           # axioms of EVERY constant of the imported DsdVerif modules
        self.build_s = 0.0
        self.notes = []                 # things worth recording that do not concern this property
        self.gen_deps = sorted(gen_files)

    def run(self, leanchecker=False):
        t0 = time.time()
        with Lock():
            rc, out, err = sh([sys.executable, os.path.join(VERIF, 'translator', 'gen.py'), self.repo, GEN])
            if rc != 0:
                self.problem('translator', 'translator crashed: ' + (err or out)[-2000:])
                self.gen_report = {'files': {}, 'errors': {'translator': err[-500:]}}
            else:
                self.gen_report = json.loads(out)
                # a regenerated file that does not elaborate (the translation is ill-typed for the changed source) is treated like
                # a refused translation: reported, and the previous content restored so that the rest of the model still builds
                for name, info in sorted(self.gen_report.get('files', {}).items()):
                    if not info.get('changed'):
                        continue
                    rc2, out2, err2 = sh(['lake', 'build', 'DsdVerif.Gen.' + name], cwd=LEAN)
                    if rc2 != 0:
                        self.gen_report.setdefault('errors', {})[name] = 'the regenerated file does not elaborate: ' + \
                            self.summarise_build_errors(out2 + err2)[:1500]
                        prev = os.path.join(GEN, name + '.lean.prev')
                        if os.path.exists(prev):
                            os.replace(prev, os.path.join(GEN, name + '.lean'))
                # a file that could not be regenerated concerns the properties whose theorems or streams read it: the files the
                # property declares (GEN_FILES) and every Gen module its Lean modules import, directly or not
                for name, info in self.gen_report.get('files', {}).items():
                    unt = (info.get('summary') or {}).get('untranslated') if isinstance(info.get('summary'), dict) else None
                    for meth, why in (unt or {}).items():
                        # one method could not be transcribed (it is a raising stub in Gen/<name>.lean): the theorems and the
                        # streams about THAT method break; whether this concerns the property is decided by its proof build
                        self.notes.append('Gen/%s.lean: %s could not be translated from the working tree: %s' % (name, meth, why[:300]))
                deps = set(self.gen_files) | gen_deps(self.modules)
                self.gen_deps = sorted(deps)
                for name, msg in self.gen_report.get('errors', {}).items():
                    if name in deps:
                        self.problem('translator', 'Gen/%s.lean could not be regenerated from the working tree: %s' % (name, msg),
                                     gen_file=name)
                    else:
                        self.notes.append('Gen/%s.lean could not be regenerated (not read by this property): %s' % (name, msg[:300]))
            # build the model first (the driver needs it), then the property modules one by one so that a
            # failing obligation is attributed to its module
            rc, out, err = sh(['lake', 'build', 'DsdVerif.Driver'], cwd=LEAN)
            self.model_built = (rc == 0)
            if rc != 0:
                self.problem('model-build', (out + err)[-3000:])
            for m in self.modules:
                rc, out, err = sh(['lake', 'build', m], cwd=LEAN)
                if rc != 0:
                    self.problem('proof-build', self.summarise_build_errors(out + err), module=m)
            self.build_s = time.time() - t0
            if not self.problems_of('proof-build') and self.model_built:
                self.audit()
            self.grep()
            if leanchecker and self.ok:
                rc, out, err = sh(['lake', 'env', 'leanchecker'] + self.modules, cwd=LEAN, timeout=3000)
                if rc != 0:
                    self.problem('leanchecker', (out + err)[-2000:])
                self.leanchecker = (rc == 0)
        return self

    def problem(self, kind, detail, **kw):
        self.ok = False
        d = {'kind': kind, 'detail': detail}
        d.update(kw)
        self.problems.append(d)

    def problems_of(self, kind):
        return [p for p in self.problems if p['kind'] == kind]

    @staticmethod
    def summarise_build_errors(text):
        lines = [l for l in text.splitlines() if 'error' in l.lower()]
        return '\n'.join(lines[:20]) if lines else text[-2000:]

    def audit(self):
        if not self.theorems:
            return
        src = '\n'.join('import %s' % m for m in self.modules) + '\nimport Lean\n' + \
              '\n'.join('#print axioms %s' % t for t in self.theorems) + '\n' + AUDIT_ALL
        path = os.path.join(LEAN, '.lake', 'audit_%s_%d.lean' % (self.prop, os.getpid()))
        with open(path, 'w') as f:
            f.write(src)
        rc, out, err = sh(['lake', 'env', 'lean', path], cwd=LEAN)
        os.unlink(path)
        if rc != 0:
            self.problem('audit', 'audit file failed: ' + (out + err)[-1500:])
            return
        # "'X' depends on axioms: [a, b]"  or "'X' does not depend on any axioms"
        text = out.replace('\n ', ' ')
        # every constant (definition, theorem, helper lemma, auto-generated proof) of every DsdVerif module the property's
        # module imports: the union of the axioms they depend on, and those that depend on anything else
        m = re.search(r'AUDIT-ALL constants=(\d+) theorems=(\d+) axioms=\[([^\]]*)\] offenders=\[([^\]]*)\]', text)
        if not m:
            self.problem('audit', 'no AUDIT-ALL line in the audit output: ' + text[-500:])
        else:
            self.audit_all = {'constants': int(m.group(1)), 'theorems': int(m.group(2)),
                              'axioms': sorted(a.strip() for a in m.group(3).split(',') if a.strip())}
            bad = [a for a in self.audit_all['axioms'] if a not in ALLOWED_AXIOMS]
            if bad or m.group(4).strip():
                self.problem('audit', 'constants of the imported DsdVerif modules depend on disallowed axioms %s: %s' % (bad, m.group(4).strip()[:600]))
        for t in self.theorems:
            m = re.search(r"'%s' depends on axioms: \[([^\]]*)\]" % re.escape(t), text)
            if m:
                ax = [a.strip() for a in m.group(1).replace('\n', ' ').split(',') if a.strip()]
            elif re.search(r"'%s' does not depend on any axioms" % re.escape(t), text):
                ax = []
            else:
                self.problem('audit', 'no #print axioms output for ' + t, theorem=t)
                continue
            self.axioms[t] = ax
            bad = [a for a in ax if a not in ALLOWED_AXIOMS]
            if bad:
                self.problem('audit', 'theorem %s depends on disallowed axioms %s' % (t, bad), theorem=t)

    def grep(self):
        root = os.path.join(LEAN, 'DsdVerif')
        hits = []
        for dp, dn, fn in os.walk(root):
            for f in fn:
                if not f.endswith('.lean'):
                    continue
                p = os.path.join(dp, f)
                incomment = 0
                for n, line in enumerate(open(p, encoding='utf-8'), 1):
                    code = strip_comments(line, [incomment])
                    # crude block-comment tracking
                    incomment += line.count('/-') - line.count('-/')
                    if incomment < 0:
                        incomment = 0
                    if FORBIDDEN.search(code):
                        hits.append('%s:%d: %s' % (os.path.relpath(p, LEAN), n, line.strip()))
        if hits:
            self.problem('grep', 'forbidden tokens in Lean sources: ' + '; '.join(hits[:10]))

    def obligations(self):
        """(total, discharged, list)"""
        obl = []
        broken_mods = {p.get('module') for p in self.problems_of('proof-build')}
        for t in self.theorems:
            ok = (t in self.axioms) and all(a in ALLOWED_AXIOMS for a in self.axioms[t]) and not broken_mods
            obl.append({'theorem': t, 'axioms': self.axioms.get(t), 'checked': bool(ok)})
        return obl


def strip_comments(line, state):
    if state[0] > 0:
        # inside a block comment: only what follows a closing -/ counts
        if '-/' in line:
            line = line.split('-/', 1)[1]
        else:
            return ''
    line = re.sub(r'/-.*?-/', '', line)
    if '/-' in line:
        line = line.split('/-', 1)[0]
    if '--' in line:
        line = line.split('--', 1)[0]
    return line


# ------------------------------------------------------------------------- Lean driver
def run_driver(lines, timeout=1200):
    """pipe protocol lines through the Lean model; returns list of output lines (same length) or raises Infra"""
    data = '\n'.join(lines) + '\n'
    rc, out, err = sh(['lake', 'env', 'lean', '--run', 'Main.lean'], cwd=LEAN, input=data, timeout=timeout)
    if rc != 0:
        raise DriverBroken((out + err)[-3000:])
    res = out.split('\n')
    if res and res[-1] == '':
        res.pop()
    if len(res) != len(lines):
        raise DriverBroken('driver returned %d lines for %d requests; tail: %s' % (len(res), len(lines), res[-3:]))
    return res


class DriverBroken(Exception):
    pass


def run_stream(fn, res, proof, *args):
    """run one source-derived stream; a stream that cannot cope with what the (changed) code returns must not turn the whole check into an
    infrastructure error: its crash is a broken correspondence (the oracles of the property have run before it and keep their verdicts)"""
    try:
        return fn(res, proof, *args)
    except (Infra, KeyboardInterrupt):
        raise
    except Exception as e:
        import traceback
        tb = traceback.extract_tb(e.__traceback__)
        proof.problem('stream-crash', '%s: %s in %s (%s)' % (type(e).__name__, str(e)[:200], getattr(fn, '__name__', '?'),
                      ' <- '.join('%s:%d' % (os.path.basename(f.filename), f.lineno) for f in reversed(tb[-5:]))))
        return None


# ------------------------------------------------------------------------- known findings
def load_known(prop):
    """returns (findings: dict key -> text, fixed: list of text)"""
    findings, fixed = {}, []
    if os.path.exists(KNOWN):
        for line in open(KNOWN, encoding='utf-8'):
            line = line.strip()
            if not line or line.startswith('#'):
                continue
            m = re.match(r'finding: property=(\S+) key=(\S+) (.*)', line)
            if m and m.group(1) == prop:
                findings[m.group(2)] = m.group(3)
            m = re.match(r'fixed: property=(\S+) (.*)', line)
            if m and m.group(1) == prop:
                fixed.append(m.group(2))
    return findings, fixed


# ------------------------------------------------------------------------- result container
class Result:
    def __init__(self, prop, tier, seed, repo):
        self.prop, self.tier, self.seed, self.repo = prop, tier, seed, repo
        self.violations = []       # dicts: key, input, observed, required  (oracle, on the real code)
        self.disagreements = []    # dicts: stream, input, impl, model
        self.evaluations = 0
        self.nontrivial = set()
        self.rule = ''
        self.samples = []
        self.dist = {}
        self.exhaustive = False
        self.traces = 0
        self.notes = []
        self.streams = {}          # stream name -> count
        self.model_failing = []    # failing rows found on the model side (targets for the search)

    def count(self, key, n=1):
        self.dist[key] = self.dist.get(key, 0) + n

    def violation(self, key, input, observed, required, **kw):
        d = {'key': key, 'input': input, 'observed': observed, 'required': required}
        d.update(kw)
        # keep one per key
        if not any(v['key'] == key for v in self.violations):
            self.violations.append(d)

    def disagree(self, stream, input, impl, model):
        if len(self.disagreements) < 50:
            self.disagreements.append({'stream': stream, 'input': input, 'impl': impl, 'model': model})

    def sample(self, x):
        if len(self.samples) < 12:
            self.samples.append(x)

    def nontriv(self, x):
        if len(self.nontrivial) < 2_000_000:
            self.nontrivial.add(x if isinstance(x, (str, int, tuple)) else json.dumps(x, sort_keys=True, default=str))


def compare_streams(res, stream, inputs, impl_out, model_out):
    """textual diff of two canonical output streams"""
    res.streams[stream] = res.streams.get(stream, 0) + len(inputs)
    res.traces += len(inputs)
    for i, (a, b) in enumerate(zip(impl_out, model_out)):
        if a != b:
            res.disagree(stream, inputs[i], a, b)


def write_replay(res, kind, payload):
    os.makedirs(REPLAYS, exist_ok=True)
    body = {'property': res.prop, 'kind': kind, 'seed': res.seed, 'tier': res.tier,
            'repo_head': repo_head(res.repo)}
    body.update(payload)
    h = hashlib.sha256(json.dumps(body, sort_keys=True, default=str).encode()).hexdigest()[:10]
    path = os.path.join(REPLAYS, '%s-%s-%s.json' % (res.prop, kind, h))
    with open(path, 'w') as f:
        json.dump(body, f, indent=1, default=str)
    return os.path.relpath(path, VERIF)


def finish(res, proof, wall_s, level_note):
    """verdict logic of DESIGN 2.4; writes evidence; returns the exit code"""
    if os.path.isdir(REPLAYS):
        for f in os.listdir(REPLAYS):
            if f.startswith(res.prop + '-'):
                os.unlink(os.path.join(REPLAYS, f))
    findings, fixed = load_known(res.prop)
    known_hit, new_viol = [], []
    for v in res.violations:
        if v['key'] in findings:
            known_hit.append(v)
        else:
            new_viol.append(v)
    for v in known_hit:
        print('KNOWN-FINDING: property=%s key=%s %s' % (res.prop, v['key'], findings[v['key']]))
    exit_code = 0
    if new_viol:
        for v in new_viol[:5]:
            path = write_replay(res, 'impl-violation', v)
            print('VIOLATION property=%s replay=%s' % (res.prop, path))
        exit_code = 1
    elif (not proof.ok) or res.disagreements:
        payload = {'proof_problems': proof.problems, 'disagreements': res.disagreements[:10],
                   'model_failing': res.model_failing[:20], 'translator_notes': proof.notes,
                   'note': 'a proof obligation or the model/implementation correspondence no longer checks; '
                           'the failing-input search on the real code found no input violating the property'}
        path = write_replay(res, 'unproven', payload)
        print('VIOLATION property=%s replay=%s no-failing-input-found' % (res.prop, path))
        exit_code = 1
    obl = proof.obligations()
    n_obl = len(obl) + len(proof.gen_files) + 1
    n_dis = sum(1 for o in obl if o['checked']) \
        + sum(1 for g in proof.gen_files if g not in proof.gen_report.get('errors', {})) \
        + (0 if res.disagreements else 1)
    cov = {
        'obligations': n_obl, 'discharged': n_dis,
        'checker_cmd': 'lake build %s && lake env lean <audit: #print axioms>%s' % (
            ' '.join(proof.modules), ' && lake env leanchecker' if getattr(proof, 'leanchecker', False) else ''),
        'trusted_base': TRUSTED_BASE,
        'theorems': obl,
        'all_constants_audit': proof.audit_all,
        'gen_files': {k: v.get('sha256') for k, v in proof.gen_report.get('files', {}).items() if k in proof.gen_files},
        'proof_problems': proof.problems,
        'evaluations': res.evaluations, 'distinct_nontrivial': len(res.nontrivial), 'rule': res.rule,
        'samples': res.samples, 'exhaustive': res.exhaustive,
        'traces_validated_against_impl': res.traces, 'correspondence_streams': res.streams,
        'disagreements': len(res.disagreements), 'input_distribution': res.dist,
        'known_findings_reproduced': [v['key'] for v in known_hit],
        'fixed_entries': fixed, 'build_s': round(proof.build_s, 1), 'notes': res.notes,
        'translator_notes': proof.notes, 'gen_files_read': proof.gen_deps,
    }
    ev = {'property_id': res.prop, 'tier': res.tier, 'seed': res.seed, 'level': 'proof', 'coverage': cov,
          'assumptions': level_note, 'wall_s': round(wall_s, 2), 'violations': len(new_viol)}
    os.makedirs(EVID, exist_ok=True)
    with open(os.path.join(EVID, res.prop + '.json'), 'w') as f:
        json.dump(ev, f, indent=1, default=str)
    return exit_code


def use_repo(repo):
    """make `import dsdobjects` resolve to the working tree under test"""
    repo = os.path.abspath(repo)
    sys.path[:] = [p for p in sys.path if os.path.abspath(p or '.') != repo]
    sys.path.insert(0, repo)
    for m in [m for m in sys.modules if m == 'dsdobjects' or m.startswith('dsdobjects.')]:
        del sys.modules[m]
    import warnings, logging
    warnings.simplefilter('ignore')
    logging.disable(logging.CRITICAL)
    import dsdobjects
    assert os.path.abspath(dsdobjects.__file__).startswith(repo), dsdobjects.__file__
    return dsdobjects
