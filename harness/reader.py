"""Running the real PIL reader in worker processes and summarising what it built (C12, C14, C15, C16, C05)."""
import gc, multiprocessing, weakref

DECLARED = ('ParseException', 'PilFormatError', 'SingletonError', 'ObjectInitError', 'SecondaryStructureError',
            'NotImplementedError', 'AssertionError')


def _fresh():
    import dsdobjects
    from dsdobjects import objectio, base_classes as bc, clear_singletons
    for c in (bc.DomainS, bc.StrandS, bc.ComplexS, bc.MacrostateS, bc.ReactionS):
        clear_singletons(c)
    bc.DomainS.ID = bc.ComplexS.ID = bc.StrandS.ID = 1
    objectio.set_io_objects()
    return objectio, bc


def summarise(out):
    s = {}
    s['domains'] = {n: [d.length, d.sequence] for n, d in out['domains'].items()}
    s['strands'] = {n: [str(x) for x in st.sequence] for n, st in out['strands'].items()}
    s['complexes'] = {n: [[str(x) for x in c.sequence], ''.join(c.structure),
                          (list(c.concentration) if c.concentration is not None else None)] for n, c in out['complexes'].items()}
    s['macrostates'] = {n: sorted(c.name for c in m.complexes) for n, m in out['macrostates'].items()}
    def rx(r):
        k, u = r.rate_constant
        return [sorted(x.name for x in r.reactants), sorted(x.name for x in r.products), r.rtype, k, u]
    s['det'] = sorted(rx(r) for r in out['det_reactions'])
    s['con'] = sorted(rx(r) for r in out['con_reactions'])
    s['other'] = len(out['other'])
    return s


def _flint(x):
    f = float(x)
    return int(f) if f == int(f) else f


def summary_line(out):
    """the canonical one-line summary the Lean reader model prints (numbers as repr of the stored Python value)"""
    doms = sorted('%s:%s:%s' % (n, d.length, d.sequence if d.sequence is not None else '-') for n, d in out['domains'].items())
    strands = sorted('%s=%s' % (n, ' '.join(str(x) for x in st.sequence)) for n, st in out['strands'].items())
    cplxs = sorted('%s=%s/%s@%s' % (n, ' '.join(str(x) for x in c.sequence), ''.join(c.structure),
                                    ('%s,%r,%s' % (c.concentration[0], c.concentration[1], c.concentration[2])) if c.concentration is not None else '-')
                   for n, c in out['complexes'].items())
    macs = sorted('%s=%s' % (n, ','.join(sorted(c.name for c in m.complexes))) for n, m in out['macrostates'].items())
    def rx(r):
        k, u = r.rate_constant
        return '%s->%s:%s:%r:%s' % ('+'.join(sorted(x.name for x in r.reactants)), '+'.join(sorted(x.name for x in r.products)), r.rtype, k, u)
    return 'read ok D[%s] S[%s] C[%s] M[%s] DET[%s] CON[%s] other=%d' % (
        ' '.join(doms), ' '.join(strands), ' ; '.join(cplxs), ' '.join(macs), ' '.join(sorted(rx(r) for r in out['det_reactions'])),
        ' '.join(sorted(rx(r) for r in out['con_reactions'])), len(out['other']))


def canon_model_line(line):
    """normalise the numeric literals of the model's summary the way the implementation stores them"""
    import re
    if not line.startswith('read ok '):
        return line
    def conc(m):
        try:
            return '@%s,%r,%s' % (m.group(1), float(m.group(2)), m.group(3))
        except ValueError:
            return m.group(0)
    line = re.sub(r'@([a-z]+),([^,\s\];]+),([a-zA-Z]+)', conc, line)
    def rate(m):
        try:
            return ':%s:%r:%s' % (m.group(1), _flint(m.group(2)), m.group(3))
        except ValueError:
            return m.group(0)
    head, tail = line.split('] DET[', 1)
    tail = re.sub(r':([A-Za-z0-9-]+):([0-9.e+-]+):(\S+?)(?=[ \]])', rate, tail)
    return head + '] DET[' + tail


def identity_checks(out, bc):
    """objects referenced by name are the identical singletons"""
    bad = []
    for n, c in out['complexes'].items():
        for x in c.sequence:
            if x != '+' and out['domains'].get(str(x)) is not x:
                bad.append('complex %s holds a domain object %s that is not the dictionary entry' % (n, x))
    for n, st in out['strands'].items():
        for x in st.sequence:
            if out['domains'].get(str(x)) is not x:
                bad.append('strand %s holds a domain %s that is not the dictionary entry' % (n, x))
    for n, m in out['macrostates'].items():
        for c in m.complexes:
            if out['complexes'].get(c.name) is not c:
                bad.append('macrostate %s member %s is not the dictionary entry' % (n, c.name))
    for r in list(out['det_reactions']) + list(out['con_reactions']):
        for x in list(r.reactants) + list(r.products):
            tbl = out['macrostates'] if r.rtype == 'condensed' else out['complexes']
            if tbl.get(x.name) is not x:
                bad.append('reaction %s member %s is not the dictionary entry' % (r.name, x.name))
    for n, d in out['domains'].items():
        if d.name != n or (~d).name not in out['domains'] or out['domains'][(~d).name] is not ~d:
            bad.append('domain %s: complement missing or not the singleton' % n)
    return bad


def _registry_check(bc, held):
    """own frame: no loop variable may keep an object alive after the check"""
    bad = []
    for cls in (bc.DomainS, bc.StrandS, bc.ComplexS, bc.MacrostateS, bc.ReactionS):
        for n, o in list(cls._instanceNames.items()):
            if o.name != n:
                bad.append('%s: name entry %r -> %r' % (cls.__name__, n, o.name))
    if held is not None:
        for key, cls in (('domains', bc.DomainS), ('strands', bc.StrandS), ('complexes', bc.ComplexS), ('macrostates', bc.MacrostateS)):
            for n, o in held[key].items():
                if cls._instanceNames.get(n) is not o:
                    bad.append('held %s %r is no longer the registered singleton' % (cls.__name__, n))
    return bad


def _release_refs(dicts):
    refs = []
    for d in dicts:
        for key in ('domains', 'strands', 'complexes', 'macrostates'):
            refs += [weakref.ref(o) for o in d[key].values()]
        refs += [weakref.ref(o) for o in d['det_reactions']] + [weakref.ref(o) for o in d['con_reactions']]
    return refs


def read_job(job):
    """job = dict(text=…, mode='full'|'outcome', ignore=None|list, lines=[single statements], pre=None|text)"""
    objectio, bc = _fresh()
    res = {}
    held = None
    if job.get('config') == 'cleared':
        # the reader after set_io_objects(); clear_io_objects(): every statement is handed back as a parsed line
        objectio.clear_io_objects()
    try:
        for earlier in job.get('session') or []:
            # earlier documents of the same configured session: read, then released
            try:
                tmp = objectio.read_pil(earlier)
                tmp = None
            except Exception as e:
                e = None
            gc.collect()
        if job.get('pre'):
            try:
                held = objectio.read_pil(job['pre'])
            except Exception as e:
                res['pre_failed'] = type(e).__name__
                e = None
        try:
            if job.get('config') == 'cleared':
                # read_pil_line guards every branch with `<class> is not None`: an unconfigured reader hands every parsed
                # statement back unchanged (read_pil itself is only specified for a configured reader)
                from dsdobjects.dsdparser import parse_pil_string
                for stmt in parse_pil_string(job['text']):
                    got = objectio.read_pil_line(stmt)
                    if got != stmt:
                        raise AssertionError('unconfigured reader did not hand the statement back')
                out = None
                res['outcome'] = 'ok'
                res['line'] = 'read raw'
            elif job.get('as_file'):
                # the same text through the file entry point: read_pil(path, is_file=True)
                import os, tempfile
                fd, path = tempfile.mkstemp(prefix='verif_reader_', suffix='.pil')
                try:
                    with os.fdopen(fd, 'w', newline='') as f:
                        f.write(job['text'])
                    out = objectio.read_pil(path, is_file=True, ignore=job.get('ignore'))
                finally:
                    os.unlink(path)
            else:
                out = objectio.read_pil(job['text'], ignore=job.get('ignore'))
        except Exception as e:
            res['outcome'] = 'err ' + type(e).__name__
            res['line'] = 'read err ' + (type(e).__name__ if type(e).__name__ in DECLARED else 'Fault ' + type(e).__name__)
            e = None
            out = None
        if out is not None:
            res['outcome'] = 'ok'
            res['line'] = summary_line(out)
            if job.get('reread'):
                # the result dictionary belongs to the caller: emptying it must not change what the same text reads to next
                # time (the objects are still held by `keep`, so the second read returns the same singletons)
                keep = [list(v.values()) if isinstance(v, dict) else list(v) for v in out.values()]
                for v in out.values():
                    v.clear()
                try:
                    out = objectio.read_pil(job['text'], ignore=job.get('ignore'))
                    res['reread_line'] = summary_line(out)
                except Exception as e:
                    res['reread_line'] = 'raised ' + type(e).__name__
                    e = None
                del keep
            if job.get('mode') == 'full':
                res['summary'] = summarise(out)
                res['identity'] = identity_checks(out, bc)
                # a line read on its own yields the same object as that line inside the document
                same = []
                for line in job.get('lines') or []:
                    try:
                        o = objectio.read_pil_line(line)
                    except Exception as e:
                        same.append('%r raised %s' % (line, type(e).__name__)); e = None
                        continue
                    if isinstance(o, list):
                        continue
                    tbl = None
                    for key, cls in (('domains', bc.DomainS), ('strands', bc.StrandS), ('complexes', bc.ComplexS), ('macrostates', bc.MacrostateS)):
                        if type(o) is cls:
                            tbl = out[key]
                    if tbl is not None and tbl.get(o.name) is not o:
                        same.append('%r read alone is not the document\'s object' % line)
                    if isinstance(o, bc.ReactionS) and o not in out['det_reactions'] and o not in out['con_reactions']:
                        same.append('%r read alone is not in the reaction sets' % line)
                    # a complex statement declares its concentration: the same line with ANOTHER value, read while the complex
                    # is alive, leaves the complex with exactly the newly declared triple (and the original line restores it)
                    import re as _re
                    m = _re.search(r'@\s*(initial|constant|i|c)\s+(\S+)\s+(\S+)\s*$', line)
                    if m and type(o) is bc.ComplexS and o.concentration is not None:
                        new = '7.25' if m.group(2) != '7.25' else '3.5'
                        try:
                            o2 = objectio.read_pil_line(line[:m.start(2)] + new + line[m.end(2):])
                            c2 = o2.concentration if o2 is o else None
                            if c2 is None or float(c2[1]) != float(new) or c2[2] != m.group(3):
                                same.append('%r re-declared with concentration %s while alive: concentration is %r' % (line, new, c2))
                            o3 = objectio.read_pil_line(line)
                            c3 = o3.concentration if o3 is o else None
                            if c3 is None or float(c3[1]) != float(m.group(2)) or c3[2] != m.group(3):
                                same.append('%r declared again after another value: concentration is %r' % (line, c3))
                            del o2, o3
                        except Exception as e:
                            same.append('%r re-declared with another concentration raised %s' % (line, type(e).__name__)); e = None
                    del o
                res['line_vs_doc'] = same
        if job.get('again'):
            # the same text once more in the same session, while the first result (if any) is still held: statements are
            # interpreted a second time against the objects of the first time; after a refused read, against what it left
            try:
                out2 = objectio.read_pil(job['text'], ignore=job.get('ignore'))
                res['again'] = 'ok'
                res['again_line'] = summary_line(out2)
                out2 = None
            except Exception as e:
                res['again'] = 'err ' + type(e).__name__
                e = None
        if out is not None and job.get('keep_only'):
            # keep only the complexes (or only the reactions / macrostates) of the result and drop everything else, collect:
            # whatever the kept objects were built from must still be alive and registered
            kind = job['keep_only']
            kept = list(out['complexes'].values()) if kind == 'complexes' else list(out['macrostates'].values()) if kind == 'macrostates' \
                else list(out['det_reactions']) + list(out['con_reactions'])
            need = set()
            def members(o):
                if isinstance(o, bc.ReactionS):
                    return list(o.reactants) + list(o.products)
                if isinstance(o, bc.MacrostateS):
                    return list(o.complexes)
                return []
            todo = list(kept)
            cplx_names = []
            while todo:
                o = todo.pop()
                if isinstance(o, (bc.ReactionS, bc.MacrostateS)):
                    todo += members(o)
                else:
                    cplx_names.append(o.name)
                    need |= {x for x in o.canonical_form[0] if x != '+'}
            out = None
            gc.collect()
            lostd = sorted(n for n in need if n not in bc.DomainS._instanceNames)
            lostc = sorted(n for n in cplx_names if n not in bc.ComplexS._instanceNames)
            held_strings = sorted({c.name for c in [bc.ComplexS._instanceNames[n] for n in cplx_names if n in bc.ComplexS._instanceNames]
                                   if any(x != '+' and not isinstance(x, bc.DomainS) for x in c.sequence)})
            res['lost_while_kept'] = ['domain ' + n for n in lostd] + ['complex ' + n for n in lostc] + ['complex %s holds names, not domain objects' % n for n in held_strings]
            del kept, todo
        if out is not None and job.get('reconfigure_while_held'):
            # the reader is re-configured (cleared and set again, as between two input files) while the caller still holds
            # the result: configuration is not a statement about lifetimes, every held object stays the registered singleton
            objectio.clear_io_objects()
            res['registry_after_clear'] = _registry_check(bc, out)
            objectio.set_io_objects()
            res['registry_after_reconfigure'] = _registry_check(bc, out)
        # registry invariants after the (possibly failed) read: previously held objects stay valid singletons
        res['registry'] = _registry_check(bc, held)
        # lifetime: dropping the dictionaries releases everything after at most one gc pass
        if job.get('check_release'):
            refs = _release_refs(([out] if out else []) + ([held] if held else []))
            out = held = None
            gc.collect()
            res['leaked'] = sum(1 for r in refs if r() is not None)
            res['names_left'] = sum(len(c._instanceNames) for c in (bc.DomainS, bc.StrandS, bc.ComplexS, bc.MacrostateS, bc.ReactionS))
    finally:
        out = held = None
        objectio.clear_io_objects()
    return res


def run_jobs(jobs, procs=16):
    ctx = multiprocessing.get_context('fork')
    with ctx.Pool(procs) as pool:
        return pool.map(read_job, jobs, chunksize=max(1, len(jobs) // (procs * 8)))
