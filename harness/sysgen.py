"""Generation of consistent PIL systems (abstract model Σ → document text + expected attributes) and of single-fault corruptions."""
import random
from . import gen, pilgen as PG

IUPAC = 'ACGTRYSMWKVHDBN'
WC = {'A': 'T', 'T': 'A', 'C': 'G', 'G': 'C', 'R': 'Y', 'Y': 'R', 'S': 'S', 'W': 'W', 'K': 'M', 'M': 'K', 'B': 'V', 'V': 'B', 'D': 'H', 'H': 'D', 'N': 'N'}
DET_TYPES = ['open', 'bind11', 'bind21', 'branch-3way', 'branch-4way']


def comp(n):
    return n[:-1] if n.endswith('*') else n + '*'


def rc(seq):
    return ''.join(WC[c] for c in reversed(seq))


class System:
    def __init__(self):
        self.domains = {}       # name -> {'length': int, 'sequence': str|None}   (both orientations)
        self.strands = {}       # name -> [domain names]
        self.complexes = {}     # name -> {'seq': [...], 'sst': [...], 'conc': (mode, float, unit)|None}
        self.macrostates = {}   # name -> [complex names]
        self.reactions = []     # {'reactants': [...], 'products': [...], 'rtype', 'rate', 'units', 'condensed': bool}
        self.stmts = []         # (kind, text, tree-ish meta) in a valid order
        self.ignored = 0


def gen_system(rng, size=None):
    S = System()
    nd = rng.randint(2, 6)
    base = []
    pool = ['a', 'b', 'c', 'd1', 't', 'x_2', 'toe-1', 'B', 'q']
    rng.shuffle(pool)
    for n in pool[:nd]:
        starred = rng.random() < 0.15
        name = n + ('*' if starred else '')
        k = rng.random()
        if k < 0.55:
            ln = rng.choice([3, 5, 8, 9, 15, 20])
            kw = rng.choice(['length', 'domain', 'sequence'])
            dl = str(ln)
            if kw != 'sequence' and rng.random() < 0.3:
                dl = rng.choice(['short', 'long']); ln = 5 if dl == 'short' else 15
            S.domains[name] = {'length': ln, 'sequence': None}
            S.domains[comp(name)] = {'length': ln, 'sequence': None}
            S.stmts.append(('dl', '%s %s %s %s' % (kw, name, rng.choice('=:'), dl)))
            if rng.random() < 0.15:
                S.stmts.append(('dl', '%s %s %s %d' % (rng.choice(['length', 'domain']), rng.choice([name, comp(name)]),
                                                       rng.choice('=:'), ln)))
        else:
            seq = ''.join(rng.choice(IUPAC) for _ in range(rng.randint(1, 12)))
            S.domains[name] = {'length': len(seq), 'sequence': seq}
            S.domains[comp(name)] = {'length': len(seq), 'sequence': rc(seq)}
            txt = 'sequence %s %s %s' % (name, rng.choice('=:'), seq)
            if rng.random() < 0.5:
                txt += ' %s %d' % (rng.choice('=:'), len(seq))
            # a consistent document may declare a domain more than once: its length first (through either orientation),
            # the sequence constraint later, and the length again afterwards; the declared system is the union
            if rng.random() < 0.3:
                S.stmts.append(('dl', '%s %s %s %d' % (rng.choice(['length', 'domain']), rng.choice([name, comp(name)]),
                                                       rng.choice('=:'), len(seq))))
            S.stmts.append(('sl', txt))
            if rng.random() < 0.15:
                S.stmts.append(('dl', '%s %s %s %d' % (rng.choice(['length', 'domain']), rng.choice([name, comp(name)]),
                                                       rng.choice('=:'), len(seq))))
        base.append(name)
    alld = list(S.domains)
    # composite domains / strands
    for i in range(rng.randint(0, 3)):
        name = rng.choice(['s', 'comp', 'T', 'S_']) + str(i)
        doms = [rng.choice(alld) for _ in range(rng.randint(1, 4))]
        if doms in S.strands.values():
            continue                      # strands are singletons by sequence: one name per sequence
        S.strands[name] = doms
        txt = '%s %s %s %s' % (rng.choice(['strand', 'sup-sequence']), name, rng.choice('=:'), ' '.join(doms))
        if rng.random() < 0.3:
            txt += ' %s %d' % (rng.choice('=:'), sum(S.domains[d]['length'] for d in doms))
        S.stmts.append(('comp', txt))
    # complexes
    used_canon = set()
    from . import ref
    for i in range(rng.randint(1, 5)):
        name = rng.choice(['A', 'B', 'C', 'I', 'cplx', 'e', 'F']) + str(i)
        for _ in range(10):
            s = gen.random_structure(rng, rng.randint(1, 9), nstrands=rng.randint(1, 3), pair_bias=0.5)
            # complementary labelling over declared domains
            names = [None] * len(s)
            stack = []
            for k, ch in enumerate(s):
                if ch == '+':
                    names[k] = '+'
                elif ch == ')':
                    names[k] = comp(names[stack.pop()])
                else:
                    names[k] = rng.choice(alld)
                    if ch == '(':
                        stack.append(k)
            rots = set(ref.rotations(names, s))
            if not (rots & used_canon):
                used_canon |= rots
                break
        else:
            continue
        conc = None
        notation = rng.random()
        if notation < 0.7 or not all(True for _ in [0]):
            # kernel notation, possibly in another rotation? (the declared one is what sequence/structure must show)
            toks = PG_kernel(names, s)
            txt = '%s = %s' % (name, toks)
            if rng.random() < 0.4:
                mode = rng.choice(['initial', 'i', 'constant', 'c'])
                val = rng.choice(['5', '100', '1e-9', '2.5', '1.5e+3', '0'])
                unit = rng.choice(PG.CUNITS)
                txt += ' @%s %s %s' % (mode, val, unit)
                conc = (mode, float(val), unit)
            S.stmts.append(('kernel', txt))
        else:
            # strand notation: declare the strands first
            snames = []
            for j, st in enumerate(gen_split(names)):
                sn = next((k for k, v in S.strands.items() if v == st), None)
                if sn is None:
                    sn = '%s_s%d' % (name, j)
                    S.strands[sn] = st
                    S.stmts.append(('comp', 'strand %s = %s' % (sn, ' '.join(st))))
                snames.append(sn)
            db = s if rng.random() < 0.5 else ' '.join(s)
            if rng.random() < 0.5:
                txt = 'complex %s :\n%s\n%s' % (name, ' '.join(snames), db)
            else:
                txt = 'structure %s = %s : %s' % (name, ' + '.join(snames), db)
            S.stmts.append(('sc', txt))
        S.complexes[name] = {'seq': list(names), 'sst': list(s), 'conc': conc}
    # kernel complexes that use composite domains (and their complements) inside the kernel string
    comps_avail = [n for n in S.strands if not n.endswith(tuple('_s%d' % j for j in range(9)))]
    for i in range(rng.randint(0, 2) if comps_avail else 0):
        q = rng.choice(comps_avail)
        D = list(S.strands[q])
        name = rng.choice(['K', 'W', 'hp']) + str(i)
        variant = rng.choice('ABCDEF')
        x, y = rng.choice(alld), rng.choice(alld)
        if variant == 'D':              # the same composite domain twice in one complex
            names, sst, ktxt = D + [x] + D, '.' * (2 * len(D) + 1), '%s %s %s' % (q, x, q)
        elif variant == 'E':            # ... once paired (with a strand break inside the loop) and once more unpaired
            names = D + ['+'] + [comp(d) for d in reversed(D)] + [x] + D
            sst = '(' * len(D) + '+' + ')' * len(D) + '.' * (len(D) + 1)
            ktxt = '%s( + ) %s %s' % (q, x, q)
        elif variant == 'F':            # ... and its complement twice
            cd = [comp(d) for d in reversed(D)]
            names, sst, ktxt = cd + [y] + cd, '.' * (2 * len(D) + 1), '%s* %s %s*' % (q, y, q)
        elif variant == 'A':
            names, sst, ktxt = [x] + D + [y], '.' * (len(D) + 2), '%s %s %s' % (x, q, y)
        elif variant == 'B':
            inner = [rng.choice(alld) for _ in range(rng.randint(0, 2))]
            names = D + inner + [comp(d) for d in reversed(D)]
            sst = '(' * len(D) + '.' * len(inner) + ')' * len(D)
            ktxt = '%s( %s )' % (q, ' '.join(inner))
        else:
            names, sst, ktxt = [x] + [comp(d) for d in reversed(D)], '.' * (len(D) + 1), '%s %s*' % (x, q)
        rots = set(ref.rotations(names, sst))
        if rots & used_canon:
            continue
        used_canon |= rots
        S.stmts.append(('kernel', '%s = %s' % (name, ktxt)))
        S.complexes[name] = {'seq': list(names), 'sst': list(sst), 'conc': None}
    cnames = list(S.complexes)
    # macrostates
    for i in range(rng.randint(0, 2)):
        if not cnames:
            break
        mem = rng.sample(cnames, rng.randint(1, min(3, len(cnames))))
        name = rng.choice(mem)
        if name in S.macrostates or any(sorted(v) == sorted(mem) for v in S.macrostates.values()):
            continue
        S.macrostates[name] = mem
        S.stmts.append(('rest', '%s %s = [%s]' % (rng.choice(['state', 'macrostate']), name, ', '.join(mem))))
    mnames = list(S.macrostates)
    # reactions
    for i in range(rng.randint(0, 4)):
        condensed = bool(mnames) and rng.random() < 0.35
        poolm = mnames if condensed else cnames
        if not poolm:
            continue
        rs = [rng.choice(poolm) for _ in range(rng.randint(1, 2))]
        ps = [rng.choice(poolm) for _ in range(rng.randint(1, 2))]
        rtype = 'condensed' if condensed else rng.choice(DET_TYPES)
        rate = rng.choice(['5', '1e6', '0.25', '3.5e-2', '100', '0', '0.0', '0e0', '12.50', '2.5e-10', '3.0000000004', '1234567890.5', '7e-12'])
        units = ''.join('/' + rng.choice(PG.CUNITS) for _ in range(len(rs) - 1)) + '/' + rng.choice(PG.TUNITS)
        err = ' +/- %s' % rng.choice(['1', 'inf', '0.5']) if rng.random() < 0.3 else ''
        key = (tuple(sorted(rs)), tuple(sorted(ps)), rtype)
        if any((tuple(sorted(r['reactants'])), tuple(sorted(r['products'])), r['rtype']) == key for r in S.reactions):
            continue
        S.reactions.append({'reactants': rs, 'products': ps, 'rtype': rtype, 'rate': float(rate), 'units': units})
        S.stmts.append(('rxn', '%s [%s = %s%s %s] %s -> %s' % (rng.choice(['reaction', 'kinetic']), rtype, rate, err, units,
                                                              ' + '.join(rs), ' + '.join(ps))))
    # ignorable reactions
    for i in range(rng.randint(0, 2)):
        if not cnames:
            break
        a, b = rng.choice(cnames), rng.choice(cnames)
        S.stmts.append(('rxn-ignored', rng.choice(['reaction %s -> %s' % (a, b), 'reaction [foo = 5 /s] %s -> %s' % (a, b),
                                                    'reaction [7 /s] %s -> %s' % (a, b)])))
        S.ignored += 1
    return S


def gen_split(names):
    cur, out = [], []
    for x in names:
        if x == '+':
            out.append(cur); cur = []
        else:
            cur.append(x)
    out.append(cur)
    return out


def PG_kernel(names, s):
    out = []
    for n, ch in zip(names, s):
        out.append('+' if ch == '+' else ')' if ch == ')' else n + '(' if ch == '(' else n)
    return ' '.join(out)


def render(S, rng=None):
    lines = []
    for kind, txt in S.stmts:
        lines.append(txt)
        if rng is not None and rng.random() < 0.15:
            lines.append(rng.choice(['', '# comment', '   ']))
    return '\n'.join(lines) + '\n'


def corruptions(S, rng, n=12):
    """single-fault corruptions of a valid system: (fault kind, text)"""
    out = []
    stmts = list(S.stmts)
    if not stmts:
        return out
    for _ in range(n):
        k = rng.choice(['drop', 'undeclared', 'redeclare', 'wrong-length', 'bad-structure', 'unbalanced', 'no-rate', 'unknown-type',
                        'units', 'degenerate', 'dup', 'non-iupac', 'swap-order', 'macro-name', 'empty-structure-strands',
                        'structure-length'])
        i = rng.randrange(len(stmts))
        new = list(stmts)
        if k == 'drop':
            del new[i]
        elif k == 'undeclared':
            new.insert(i, ('kernel', 'Z%d = nodom( a ) + zz*' % i))
        elif k == 'redeclare':
            new.insert(rng.randrange(len(new) + 1), ('dl', 'length %s = %d' % (rng.choice(list(S.domains)), rng.choice([1, 4, 7, 11]))))
        elif k == 'wrong-length':
            new.insert(i, ('sl', 'sequence w%d = ACGT : %d' % (i, rng.choice([3, 5, 0]))))
        elif k == 'bad-structure':
            d = rng.choice(list(S.domains))
            new.append(('comp', 'strand bs = %s %s' % (d, d)))
            new.append(('sc', 'structure BS = bs : %s' % rng.choice(['.', '...', '(.', '))', '+', '.+.'])))
        elif k == 'unbalanced':
            d = rng.choice(list(S.domains))
            new.append(('comp', 'strand ub = %s' % d))
            # also: the right number of characters with the strand break missing, misplaced or doubled
            new.append(('sc', 'structure UB = ub + ub : %s' % rng.choice([')+(', '(+(', ')+)', '.+)', '...', '(.)', '+..', '..+', '++.', '. .'])))
        elif k == 'no-rate':
            c = rng.choice(list(S.complexes) or ['A'])
            new.append(('rxn', 'reaction %s -> %s' % (c, c)))
        elif k == 'unknown-type':
            c = rng.choice(list(S.complexes) or ['A'])
            new.append(('rxn', 'reaction [%s = 5 /s] %s -> %s' % (rng.choice(['foo', 'bind', 'Open']), c, c)))
        elif k == 'units':
            c = rng.choice(list(S.complexes) or ['A'])
            new.append(('rxn', 'reaction [open = 5 %s] %s -> %s' % (rng.choice(['/M/M/s', '/h', '/m', '/nM/h']), c, c)))
        elif k == 'degenerate':
            new.append(('kernel', rng.choice(['Q = +', 'Q = + +', 'Q = a( + )', 'Q = x( )', 'Q = a^*'])))
        elif k == 'dup':
            new.insert(i, stmts[i])
        elif k == 'non-iupac':
            new.append(('sl', 'sequence z9 = %s' % rng.choice(['XYZ', 'acgt', 'NNNU', 'short', 'Q'])))
        elif k == 'swap-order':
            j = rng.randrange(len(new)); new[i], new[j] = new[j], new[i]
        elif k == 'macro-name':
            c = list(S.complexes) or ['A']
            new.append(('rest', 'state nobody = [%s]' % ', '.join(c[:2])))
        elif k == 'structure-length':
            # multi-stranded strand-notation complexes whose structure has the wrong number of characters: shorter than
            # the first strand, shorter than the sequence, longer, a single character
            d = rng.choice(list(S.domains))
            new.append(('comp', 'strand sl1 = %s %s' % (d, d)))
            new.append(('comp', 'strand sl2 = %s' % d))
            st = rng.choice(['sl1 + sl2', 'sl1 + sl2 + sl1', 'sl2 + sl1', 'sl1 + sl1'])
            new.append(('sc', 'structure SL = %s : %s' % (st, rng.choice(['..', '.', '(', ')', '(+', '..+', '.+.', '....+....+...', '((', '. .', '()', '.+', '+']))))
        elif k == 'empty-structure-strands':
            new.append(('sc', 'structure ES = + : .'))
        out.append((k, '\n'.join(t for _, t in new) + '\n'))
    return out
