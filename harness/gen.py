"""Input generators shared by the checks (exhaustive enumerators + seeded random, one PRNG per run)."""
import itertools, random


def all_strings(alphabet, maxlen, minlen=0):
    for n in range(minlen, maxlen + 1):
        for t in itertools.product(alphabet, repeat=n):
            yield ''.join(t)


def balanced_words(n):
    """all words over ( ) . of length n that are balanced"""
    def rec(prefix, depth, left):
        if left == 0:
            if depth == 0:
                yield prefix
            return
        if depth < left:
            yield from rec(prefix + '(', depth + 1, left - 1)
        if depth > 0:
            yield from rec(prefix + ')', depth - 1, left - 1)
        if depth <= left - 1:
            yield from rec(prefix + '.', depth, left - 1)
    yield from rec('', 0, n)


def compositions(n, maxparts):
    """ordered tuples of positive integers summing to n with at most maxparts parts"""
    def rec(left, parts):
        if left == 0:
            yield tuple(parts)
            return
        if len(parts) == maxparts:
            return
        for k in range(1, left + 1):
            yield from rec(left - k, parts + [k])
    yield from rec(n, [])


def wellformed_structures(maxpos, maxstrands=4, minpos=1):
    """every well-formed multi-stranded structure with non-empty strands: (string with '+')"""
    for n in range(minpos, maxpos + 1):
        words = list(balanced_words(n))
        for comp in compositions(n, maxstrands):
            for w in words:
                out, i = [], 0
                for k in comp:
                    out.append(w[i:i + k]); i += k
                yield '+'.join(out)


def random_structure(rng, npos, nstrands=None, pair_bias=0.5, depth_bias=0.5):
    """random well-formed structure from the forest grammar, npos positions"""
    w = []
    depth = 0
    for i in range(npos):
        left = npos - i
        choices = []
        if depth < left - 0:
            pass
        r = rng.random()
        if depth > 0 and (left == depth or r < pair_bias * (1 - depth_bias)):
            w.append(')'); depth -= 1
        elif left - 1 >= depth + 1 and r < pair_bias:
            w.append('('); depth += 1
        elif left - 1 >= depth:
            w.append('.')
        else:
            w.append(')'); depth -= 1
    assert depth == 0, (w, depth)
    w = ''.join(w)
    if nstrands is None:
        nstrands = rng.randint(1, max(1, min(npos, 8)))
    nstrands = max(1, min(nstrands, npos))
    cuts = sorted(rng.sample(range(1, npos), nstrands - 1)) if npos > 1 else []
    parts, last = [], 0
    for c in cuts + [npos]:
        parts.append(w[last:c]); last = c
    return '+'.join(parts)


def label(struct, rng=None, alphabet=None, unique=False):
    """a domain-name sequence (list with '+') for a structure string"""
    out, k = [], 0
    for ch in struct:
        if ch == '+':
            out.append('+')
        else:
            if unique:
                out.append('d%d' % k)
            else:
                out.append(rng.choice(alphabet))
            k += 1
    return out


def complementary_label(struct, rng, alphabet):
    """labels such that every pair joins x with x* (for kernel-string round trips)"""
    out = [None] * len(struct)
    stack = []
    for i, ch in enumerate(struct):
        if ch == '+':
            out[i] = '+'
        elif ch == '(':
            out[i] = rng.choice(alphabet) + (rng.choice(['', '*']))
            stack.append(i)
        elif ch == ')':
            j = stack.pop()
            n = out[j]
            out[i] = n[:-1] if n.endswith('*') else n + '*'
        else:
            out[i] = rng.choice(alphabet) + (rng.choice(['', '*']))
    return out


def symmetric_complexes():
    """rotationally symmetric complexes with 4 and 6 strands (period 2 and 3 < number of strands), connected and
    disconnected, plus periodic strand orders whose structure is NOT symmetric: (names list, structure string)"""
    out = []
    units = [(['a', '+', 'a*'], '(+)'), (['a', 'b', '+', 'b*', 'a*'], '((+))'), (['a', 'b', '+', 'b*'], '.(+)'), (['a', '+', 'b'], '.+.')]
    for names, s in units:
        for k in (2, 3):
            nn, ss = [], ''
            for i in range(k):
                if i:
                    nn.append('+'); ss += '+'
                nn += names; ss += s
            out.append((nn, ss))
    # connected, 2-fold symmetric ring of four strands: a b + b* c + c* ... closed cyclically
    out.append((['a', 'b', '+', 'b*', 'a*', '+', 'a', 'b', '+', 'b*', 'a*'], '((+)(+)(+))'))
    out.append((['x', 'a', '+', 'a*', 'x', '+', 'x', 'a', '+', 'a*', 'x'], '.(+).+.(+).'))
    # periodic strand order, asymmetric structure
    out.append((['a', 'a*', '+', 'a', 'a*'], '(.+.)'))
    out.append((['a', 'a*', '+', 'a', 'a*', '+', 'a', 'a*', '+', 'a', 'a*'], '(.+.)+..+..'))
    out.append((['a', '+', 'b', '+', 'a', '+', 'b'], '(+)+.+.'))
    return out


def random_nested_components(rng, depth=2):
    """a structure made of connected components nested inside loops (at nicks) of other components and placed next to each
    other: the shapes that stress the scan / splice bookkeeping of the component split"""
    from . import ref
    def connected(nstr):
        for _ in range(50):
            s = random_structure(rng, rng.randint(nstr, nstr + 5), nstrands=nstr, pair_bias=0.7)
            if len(ref.ref_loops(s.split('+'))[2]) == 1:
                return s
        return '+'.join(['.'] * nstr) if nstr == 1 else '(' + '+'.join([''] * (nstr - 1)).replace('+', '+', nstr) + ')' if False else '(+)'
    def comp(d):
        s = connected(rng.randint(1, 4))
        if d > 0:
            nicks = [i for i, ch in enumerate(s) if ch == '+']
            rng.shuffle(nicks)
            for i in sorted(nicks[:rng.randint(0, 2)], reverse=True):
                inner = '+'.join(comp(d - 1) for _ in range(rng.randint(1, 2)))
                s = s[:i] + '+' + inner + '+' + s[i + 1:]
        return s
    return '+'.join(comp(depth) for _ in range(rng.randint(1, 3)))
