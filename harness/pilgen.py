"""Grammar-directed generation of PIL token trees and their renderings (reference renderer, independent of the Lean model)."""
import random

KEYWORDS = ['length', 'domain', 'sequence', 'sup-sequence', 'strand', 'complex', 'structure', 'kinetic', 'reaction', 'state', 'macrostate']
IDCHARS = 'abcdefghijklmnopqrstuvwxyzABCDEFGHIJKLMNOPQRSTUVWXYZ0123456789_-'
ID_POOL = ['a', 'b', 'c', 'x1', 'toe', 'd12', 'A', 'B', 'Cplx', 'long_name-1', '5', '12', 'e5', 'inf', 'short', 'long', 'i', 'c', 'M', 'f',
           '_', '-', 'a-b', 'X_1', 'N', 'init', 'e', 'w', 'th', 's', 'h', 'm',
           # names that start with, or are, a statement keyword (legal identifiers; see known_findings.txt, fixed C13 entries)
           'lengthy', 'length', 'domain5', 'sequence', 'sup-sequence-x', 'strand', 'stranded', 'complex_1', 'structure', 'kinetic',
           'reaction-2', 'state', 'states', 'macrostate', 'length-']
CUNITS = ['M', 'mM', 'uM', 'nM', 'pM']
TUNITS = ['s', 'm', 'h']
RTYPES = ['bind21', 'bind11', 'open', 'condensed', 'branch-3way', 'branch-4way', 'foo', '3way', '21', '1-1_open', 'e5', '_x']


def has_keyword_prefix(name):
    return any(name.startswith(k) for k in KEYWORDS)


def rand_ident(rng, allow_keyword_prefix=True):
    for _ in range(50):
        if rng.random() < 0.7:
            n = rng.choice(ID_POOL)
        else:
            n = ''.join(rng.choice(IDCHARS) for _ in range(rng.randint(1, 8)))
        if allow_keyword_prefix or not has_keyword_prefix(n):
            return n
    return 'a'


def rand_domain(rng):
    return rand_ident(rng) + (rng.choice(['', '*']))


def rand_number(rng):
    return str(rng.choice([0, 1, 5, 7, 12, 15, 100, 2500, 10**9])) if rng.random() < 0.7 else ''.join(rng.choice('0123456789') for _ in range(rng.randint(1, 6)))


def rand_gorf(rng):
    k = rng.random()
    n = rand_number(rng)
    if k < 0.4:
        return n
    if k < 0.7:
        return n + '.' + rand_number(rng)
    m = n if rng.random() < 0.5 else n + '.' + rand_number(rng)
    return m + 'e' + rng.choice(['', '-', '+']) + rand_number(rng)


def rand_pattern(rng, depth=0, maxlen=5):
    """kernel pattern as token list: names, '+', and [name, [inner…]] pairs flattened as pyparsing returns them"""
    out = []
    n = rng.randint(1, maxlen)
    for _ in range(n):
        k = rng.random()
        if k < 0.25 and depth < 4:
            name = rand_ident(rng) + rng.choice(['', '^']) + rng.choice(['', '*'])
            inner = rand_pattern(rng, depth + 1, 3) if rng.random() < 0.8 else []
            out.append(name); out.append(inner)
        elif k < 0.4:
            out.append('+')
        else:
            out.append(rand_ident(rng) + rng.choice(['', '^']) + rng.choice(['', '*']))
    return out


def rand_statement(rng, kind=None):
    """returns (tree, spec) where spec carries the rendering choices that are not in the tree (keyword alias, assign signs)"""
    kind = kind or rng.choice(['dl', 'sl', 'comp', 'sc1', 'sc2', 'rxn', 'kernel', 'rest'])
    a = lambda: rng.choice(['=', ':'])
    if kind == 'dl':
        kw = rng.choice(['length', 'domain', 'sequence'])
        dl = rng.choice([rand_number(rng), 'short', 'long'])
        if kw == 'sequence' and dl in ('short', 'long'):
            dl = rand_number(rng)             # "sequence a = short" is also the rendering of an sl-domain
        return ['dl-domain', rand_domain(rng), dl], {'kw': kw, 'as': [a()]}
    if kind == 'sl':
        con = ''.join(rng.choice('ACGTNRYSWKMBDHVacgtu') for _ in range(rng.randint(1, 12)))
        t = ['sl-domain', rand_domain(rng), con]
        if rng.random() < 0.5:
            t.append(rand_number(rng))
        return t, {'kw': 'sequence', 'as': [a(), a()]}
    if kind == 'comp':
        t = ['composite-domain', rand_ident(rng), [rand_domain(rng) for _ in range(rng.randint(1, 5))]]
        if rng.random() < 0.4:
            t.append(rand_number(rng))
        return t, {'kw': rng.choice(['sup-sequence', 'strand']), 'as': [a(), a()]}
    if kind in ('sc1', 'sc2'):
        n = rng.randint(1, 4)
        doms = [rand_domain(rng) for _ in range(n)]
        db = ''.join(rng.choice('(.)+') for _ in range(rng.randint(1, 8)))
        return ['strand-complex', rand_ident(rng), doms, db], {'kw': 'complex' if kind == 'sc1' else 'structure', 'as': [a(), a()],
                                                                'plus': [rng.random() < 0.3 for _ in range(n + 1)],
                                                                'nl': [rng.random() < 0.5, rng.random() < 0.5],
                                                                # the line breaks INSIDE a three-line `complex` statement come in either style too
                                                                'eol': rng.choice(['\n', '\n', '\r\n'])}
    if kind == 'rxn':
        info = []
        if rng.random() < 0.8:
            ty = [rng.choice(RTYPES)] if rng.random() < 0.7 else []
            rate = [rand_gorf(rng)]
            if rng.random() < 0.4:
                rate.append(rng.choice([rand_gorf(rng), 'inf']))
            units = ''.join('/' + rng.choice(CUNITS) for _ in range(rng.randint(0, 2))) + '/' + rng.choice(TUNITS)
            info = [ty, rate, [units]]
        rs = [rand_ident(rng) for _ in range(rng.randint(1, 3))]
        ps = [rand_ident(rng) for _ in range(rng.randint(1, 3))]
        return ['reaction', info, rs, ps], {'kw': rng.choice(['kinetic', 'reaction']), 'as': [a()]}
    if kind == 'kernel':
        t = ['kernel-complex', rand_ident(rng), rand_pattern(rng)]
        if rng.random() < 0.4:
            mode = rng.choice(['initial', 'i', 'constant', 'c'])
            t.append([mode, rand_gorf(rng), rng.choice(CUNITS)])
        return t, {}
    if kind == 'rest':
        return ['resting-macrostate', rand_ident(rng), [rand_ident(rng) for _ in range(rng.randint(1, 4))]], {'kw': rng.choice(['state', 'macrostate'])}
    raise ValueError(kind)


class Layout:
    """source of blanks: canonical (single blank where needed) or random blanks/tabs"""

    def __init__(self, rng=None):
        self.rng = rng

    def need(self):
        """at least one blank"""
        if self.rng is None:
            return ' '
        return ''.join(self.rng.choice(' \t') for _ in range(self.rng.randint(1, 3)))

    def opt(self):
        if self.rng is None:
            return ' '
        return ''.join(self.rng.choice(' \t') for _ in range(self.rng.randint(0, 2)))

    def tight(self):
        if self.rng is None:
            return ''
        return ''.join(self.rng.choice(' \t') for _ in range(self.rng.choice([0, 0, 1, 2])))


def spread(db, L):
    """a dot-bracket with blanks / tabs between its characters (it is one token up to blanks)"""
    if L.rng is None or len(db) < 2 or L.rng.random() < 0.5:
        return db
    return db[0] + ''.join(L.tight() + c for c in db[1:])


def render_pattern(p, L):
    out = []
    i = 0
    while i < len(p):
        t = p[i]
        if i + 1 < len(p) and isinstance(p[i + 1], list):
            inner = render_pattern(p[i + 1], L)
            out.append(t + '(' + L.opt() + inner + (L.opt() if inner else '') + ')')
            i += 2
        else:
            out.append(t)
            i += 1
    return L.need().join(out)


def render_statement(tree, spec, L):
    k = tree[0]
    if k == 'dl-domain':
        return spec['kw'] + L.need() + tree[1] + L.opt() + spec['as'][0] + L.opt() + tree[2]
    if k == 'sl-domain':
        s = spec['kw'] + L.need() + tree[1] + L.opt() + spec['as'][0] + L.opt() + tree[2]
        if len(tree) == 4:
            s += L.opt() + spec['as'][1] + L.opt() + tree[3]
        return s
    if k == 'composite-domain':
        s = spec['kw'] + L.need() + tree[1] + L.opt() + spec['as'][0] + L.opt() + L.need().join(tree[2])
        if len(tree) == 4:
            s += L.opt() + spec['as'][1] + L.opt() + tree[3]
        return s
    if k == 'strand-complex':
        if spec['kw'] == 'complex':
            nl1 = spec.get('eol', '\n') if spec['nl'][0] else L.need()
            nl2 = spec.get('eol', '\n') if spec['nl'][1] else L.need()
            return 'complex' + L.need() + tree[1] + L.opt() + spec['as'][0] + (L.tight() + nl1 if spec['nl'][0] else L.opt()) + \
                L.need().join(tree[2]) + (L.tight() + nl2 if spec['nl'][1] else L.need()) + spread(tree[3], L)
        parts = []
        for i, d in enumerate(tree[2]):
            if spec['plus'][i]:
                parts.append('+')
            parts.append(d)
        if spec['plus'][len(tree[2])]:
            parts.append('+')
        return 'structure' + L.need() + tree[1] + L.opt() + spec['as'][0] + L.opt() + L.need().join(parts) + L.opt() + spec['as'][1] + L.opt() + spread(tree[3], L)
    if k == 'reaction':
        s = spec['kw'] + L.need()
        info = tree[1]
        if info:
            s += '[' + L.tight()
            if info[0]:
                s += info[0][0] + L.opt() + spec['as'][0] + L.opt()
            s += info[1][0]
            if len(info[1]) == 2:
                s += L.opt() + '+/-' + L.opt() + info[1][1]
            s += L.need() + info[2][0] + L.tight() + ']' + L.opt()
        s += (L.opt() + '+' + L.opt()).join(tree[2]) + L.need() + '->' + L.opt() + (L.opt() + '+' + L.opt()).join(tree[3])
        return s
    if k == 'kernel-complex':
        s = tree[1] + L.opt() + '=' + L.opt() + render_pattern(tree[2], L)
        if len(tree) == 4:
            c = tree[3]
            s += L.need() + '@' + L.tight() + c[0] + L.need() + c[1] + L.need() + c[2]
        return s
    if k == 'resting-macrostate':
        return spec['kw'] + L.need() + tree[1] + L.opt() + '=' + L.opt() + '[' + L.tight() + (L.tight() + ',' + L.opt()).join(tree[2]) + L.tight() + ']'
    raise ValueError(k)


def line_end(rng):
    """statement terminator: optional trailing blanks / comment, one of the two line-ending styles, optional blank or comment lines"""
    if rng is None:
        return '\n'
    s = ''.join(rng.choice(' \t') for _ in range(rng.choice([0, 0, 1, 3])))
    if rng.random() < 0.3:
        s += '#' + rng.choice(['', ' comment', ' length x = 5', '[', ')', ' x\x0cy(', ' k\x0bl = 5', ' u\u2028v ]', ' \x85 z', ' q\x1cr = ['])
    nl = rng.choice(['\n', '\r\n'])
    s += nl
    for _ in range(rng.choice([0, 0, 0, 1, 2])):
        s += rng.choice(['', '   ', '# a comment line', '\t# x = y']) + nl
    return s


def expected_tree(tree):
    """what the parser returns for a tree: the kernel pattern is wrapped in one group"""
    if tree[0] == 'kernel-complex':
        return tree[:2] + [tree[2]] + tree[3:]
    return tree


def norm(tree):
    """comparison form: dot-bracket of a strand-notation complex up to blanks"""
    if isinstance(tree, list) and tree and tree[0] == 'strand-complex':
        return tree[:3] + [tree[3].replace(' ', '').replace('\t', '')]
    return tree


def show(tree):
    if isinstance(tree, list):
        return '[' + ', '.join(show(t) for t in tree) + ']'
    return '"' + tree.replace('\\', '\\\\').replace('"', '\\"').replace('\n', '\\n') + '"'


def hx(t):
    return ''.join('%04x' % ord(c) for c in t)
