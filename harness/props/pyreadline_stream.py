"""`read_pil_line` as translated from the working tree (translator/pyreaderfn3.py -> Gen/PyReadLine.lean) against the real function.

`source_derived_pyreadline(res, proof)` runs the REAL `dsdobjects.objectio.read_pil_line` on every parsed statement of generated PIL systems
(harness/sysgen.py, also corrupted ones) and on hand-built malformed statements, with the five reader slots set to RECORDING PROXY classes: user
subclasses of the library classes whose metaclass `__call__` records every construction request made by `read_pil_line` itself (arguments as token
trees / object indices, outcome: the index of the object or the exception kind) and whose `__setattr__` records the assignments `.sequence = …` /
`.rate_constant = …`.  That table is the object world of the translated function (driver op `pyreadline.run`, lean/DsdVerif/DriverReadLine.lean): it
must make the same requests in the same order with the same arguments, and return the same object / the statement itself / the same exception
(stream `read_pil_line.source-derived`).  Statements of the branch that is a raising stub in the translation (`kernel-complex`) are executed (later statements need their objects) but not compared (`pyreadline:stub_branch`).  Sometimes one slot is `None`.
"""
import os
import random
from .. import core, sysgen
from .pyreaderfn_stream import hx, enc_tree, to_lists

STREAM = 'read_pil_line.source-derived'
STUBS = ('kernel-complex',)
SLOTS = ['Domain', 'Strand', 'Complex', 'Macrostate', 'Reaction']


def run_rl_driver(lines):
    wired = 'stepReadLine' in open(os.path.join(core.LEAN, 'DsdVerif', 'Driver.lean'), encoding='utf-8').read()
    if wired:
        return core.run_driver(lines)
    data = '\n'.join(lines) + '\n'
    rc, out, err = core.sh(['lake', 'env', 'lean', '--run', 'MainReadLine.lean'], cwd=core.LEAN, input=data, timeout=1200)
    if rc != 0:
        raise core.DriverBroken((out + err)[-3000:])
    got = out.split('\n')
    if got and got[-1] == '':
        got.pop()
    if len(got) != len(lines):
        raise core.DriverBroken('driver returned %d lines for %d requests; tail: %s' % (len(got), len(lines), got[-3:]))
    return got


class Recorder:
    def __init__(self):
        self.depth = 0
        self.table = []
        self.objs = []

    def ident(self, o):
        for i, x in enumerate(self.objs):
            if x is o:
                return i
        self.objs.append(o)
        return len(self.objs) - 1

    def hs(self, l):
        if l is None:
            return '-'
        l = list(l)
        if not l:
            return 'e'
        return ','.join(str(self.ident(x)) if not isinstance(x, str) else 'x' for x in l)

    def tree(self, x):
        return enc_tree(to_lists(x) if isinstance(x, (list, tuple)) else x) if isinstance(x, (str, list, tuple)) else '?' + type(x).__name__

    def signature(self, kind, args, kw):
        a = list(args)
        def arg(i, name, default=None):
            return a[i] if len(a) > i else kw.get(name, default)
        if kind == 'D':
            n = arg(1, 'length')
            return 'D %s %s' % (self.tree(arg(0, 'name')), '-' if n is None else n)
        if kind == 'S':
            return 'S %s %s' % (self.hs(arg(0, 'sequence')), self.tree(arg(1, 'name')))
        if kind == 'C' and arg(1, 'structure') is not None:      # Complex(sequence, list(structure), name = n)
            seq = list(arg(0, 'sequence') or [])
            items = ','.join('p' if isinstance(x, str) else str(self.ident(x)) for x in seq) if seq else 'e'
            return 'X %s [%s ] %s' % (items, ''.join(' ' + self.tree(c) for c in arg(1, 'structure')), self.tree(arg(2, 'name')))
        if kind == 'C':
            return 'C %s %s' % (self.hs(arg(0, 'sequence')), self.tree(arg(2, 'name')))
        if kind == 'M':
            return 'M %s %s' % (self.hs(arg(0, 'complexes')), self.tree(arg(1, 'name')))
        return 'R %s %s %s' % (self.hs(arg(0, 'reactants')), self.hs(arg(1, 'products')), self.tree(arg(2, 'rtype')))


def make_proxies(bc, rec):
    """user subclasses of the five library classes that record the requests made at depth 0 (by `read_pil_line` itself)"""
    Meta = type(bc.DomainS)
    class RecMeta(Meta):
        def __call__(cls, *args, **kwargs):
            top = rec.depth == 0
            sig = rec.signature(cls._rl_kind, args, kwargs) if top else None
            rec.depth += 1
            try:
                o = super().__call__(*args, **kwargs)
            except Exception as e:
                rec.depth -= 1
                if top:
                    rec.table.append('%s=>err %s' % (sig, type(e).__name__))
                raise
            rec.depth -= 1
            if top:
                rec.table.append('%s=>ok %d' % (sig, rec.ident(o)))
            return o
    def setattr_(self, k, v):
        if rec.depth == 0 and k in ('sequence', 'rate_constant'):
            sig = 'q %d %s' % (rec.ident(self), rec.tree(v)) if k == 'sequence' else \
                  'k %d %s' % (rec.ident(self), '-' if v[1] is None else rec.tree(v[1]))
            rec.depth += 1
            try:
                super(type(self), self).__setattr__(k, v)
            except Exception as e:
                rec.depth -= 1
                rec.table.append('%s=>err %s' % (sig, type(e).__name__))
                raise
            rec.depth -= 1
            rec.table.append('%s=>ok 0' % sig)
            return
        super(type(self), self).__setattr__(k, v)
    def seq_get(self):
        # `x.sequence` of a strand object (an iterator over its domains): recorded when `read_pil_line` itself reads it
        v = list(bc.StrandS.sequence.fget(self))
        if rec.depth == 0:
            rec.table.append('s %d=>okl %s' % (rec.ident(self), ','.join(str(rec.ident(d)) for d in v)))
        return iter(v)
    out = []
    for kind, base in zip('DSCMR', (bc.DomainS, bc.StrandS, bc.ComplexS, bc.MacrostateS, bc.ReactionS)):
        d = {'_rl_kind': kind, '__setattr__': setattr_}
        if kind == 'S':
            d['sequence'] = property(seq_get)
        out.append(RecMeta('Rl' + base.__name__, (base,), d))
    return out


HANDBUILT = [['dl-domain'], ['dl-domain', 'hb1'], ['dl-domain', 'hb1', 'x1'], ['dl-domain', 'hb2', 'short'], ['dl-domain', 'hb3', 'long', 'more'],
             ['dl-domain', 'hb4', '12'], ['dl-domain', 'hb4', '13'], ['dl-domain', 'hb5', ['7']], ['sl-domain', 'hb6', 'ACGT'], ['sl-domain', 'hb7', 'ACGT', '4'],
             ['sl-domain', 'hb8', 'ACGT', '5'], ['sl-domain', 'hb9', 'ACGT', 'x'], ['sl-domain', 'hb9', 'ACGT', '4', 'y'], ['sl-domain', 'hb10'],
             ['composite-domain', 'hbs1', ['hb1', 'hb2']], ['composite-domain', 'hbs2', []], ['composite-domain', 'hbs3', 'ab'], ['composite-domain', 'hbs4'],
             ['resting-macrostate', 'hbm1', ['nonexistent']], ['resting-macrostate', 'hbm2', []], ['resting-macrostate', 'hbm3'],
             ['reaction', [], ['A'], ['B']], ['reaction', [['open'], ['1'], ['/s']], ['nonexistent'], ['B']], ['reaction', [['condensed'], ['1'], ['/s']], ['nonexistent'], ['B']],
             ['reaction', [['foo'], ['1'], ['/s']], ['A'], ['B']], ['reaction'], ['foo', 'bar'], ['foo'], ['strand-complex', 'x'], [['dl-domain'], 'a', '5']]


def source_derived_pyreadline(res, proof):
    from dsdobjects import objectio, base_classes as bc, clear_singletons
    from dsdobjects.dsdparser import parse_pil_string
    rng = random.Random(res.seed * 2147483629 + 1618)
    quick = res.tier == 'quick'
    reqs, impl = [], []
    for n in range(40 if quick else 1000):
        S = sysgen.gen_system(rng)
        text = sysgen.render(S, rng)
        if rng.random() < 0.25:
            cs = sysgen.corruptions(S, rng, 3)
            if cs:
                text = rng.choice(cs)[1]
        try:
            stmts = to_lists(parse_pil_string(text))
        except Exception:
            res.count('pyreadline:unparsed')
            continue
        if rng.random() < 0.5:
            k = rng.randint(0, len(stmts))
            stmts[k:k] = [rng.choice(HANDBUILT) for _ in range(rng.randint(1, 3))]
        rec = Recorder()
        proxies = make_proxies(bc, rec)
        objectio.set_io_objects(*proxies)
        if rng.random() < 0.15:
            setattr(objectio, rng.choice(SLOTS), None)
        slots = ' '.join('-' if getattr(objectio, s) is None else str(i + 1) for i, s in enumerate(SLOTS))
        rtypes = ' '.join('h' + hx(x) for x in sorted(proxies[4].RTYPES))
        for st in stmts:
            rec.table = []
            arg = to_lists(st)
            try:
                o = objectio.read_pil_line(arg)
                out = 'ok raw' if isinstance(o, list) else 'ok obj %d' % rec.ident(o)
            except Exception as e:
                out = 'err ' + type(e).__name__
                e = None
            o = None
            if st and isinstance(st[0], str) and st[0] in STUBS and getattr(objectio, 'Complex') is not None:
                res.count('pyreadline:stub_branch')
                continue
            reqs.append('\t'.join(['pyreadline.run', slots, rtypes, ' '.join(enc_tree(t) for t in st), ';'.join(rec.table)]))
            impl.append(out)
            res.count('pyreadline:' + (out.split()[1] if out.startswith('ok') else 'raising'))
            res.count('pyreadline:requests', len(rec.table))
        rec.objs = []
        objectio.clear_io_objects()
        for k in proxies:
            clear_singletons(k)
    try:
        got = run_rl_driver(reqs)
    except core.DriverBroken as e:
        proof.problem('driver', 'pyreadline stream: ' + str(e))
        return
    core.compare_streams(res, STREAM, reqs, impl, got)
    if reqs:
        res.sample(reqs[0][:300])
