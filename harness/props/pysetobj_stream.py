"""The object parts of `MacrostateS` / `ReactionS` as TRANSLATED from the working tree (Gen/PySetObjects.lean) against real objects.

`source_derived_pysetobj(res, proof)`: real objects are built through the REAL constructors (`MacrostateS(list, name=…)`,
`ReactionS(reactants, products, rtype, name=…)`; registries cleared before each) from every permutation of 1-3 members of a pool of real
complexes / macrostates (repetitions and the empty list included), with and without a name; then the CALLER'S list is changed (an item
appended, the list reversed) and the views are read: `list(m.complexes)`, `m.representative`, `m.canonical_form`, `m.name`, `len(m)`,
resp. `list(r.reactants)`, `list(r.products)`, `r.rtype`, `r.name`, `r.canonical_form`.  The translated side (driver ops `pysetobj.macro` /
`pysetobj.rxn`, lean/DsdVerif/DriverSetObjects.lean) runs the translated `identifiers`, the translated `__init__` and the translated views
on the argument VALUES at construction.  Views resp. exception classes must agree.
"""
import itertools, random, subprocess
from .. import core
from .pyident2_stream import (enc_opt, show_key, show_form, show_members, show_rkey, enc_members, enc_rmembers, pool)


def show_rmembers(ms):
    return '[' + ','.join('%s@%s' % (m.name, show_form(m.canonical_form)) for m in ms) + ']'


def real_macro(K, members, name, extra):
    from dsdobjects.singleton import clear_singletons
    clear_singletons(K)
    arg = list(members)
    try:
        m = K(arg, name=name) if name is not None else K(arg)
    except Exception as e:
        out = 'err ' + type(e).__name__
        e = None
        return out
    arg.append(extra); arg.reverse()                      # the caller changes ITS list afterwards
    cf = m.canonical_form
    out = 'ok complexes=%s rep=%s canon=%s name=%s len=%d' % (show_members(list(m.complexes)), '%s@%s' % (m.representative.name, show_key(m.representative.canonical_form)),
                                                             'None' if cf is None else show_members(cf), m.name, len(m))
    del m
    clear_singletons(K)
    return out


def real_rxn(K, rs, ps, rtype, name, extra):
    from dsdobjects.singleton import clear_singletons
    clear_singletons(K)
    a, b = list(rs), list(ps)
    try:
        r = K(a, b, rtype, name=name) if name is not None else K(a, b, rtype)
    except Exception as e:
        out = 'err ' + type(e).__name__
        e = None
        return out
    a.append(extra); a.reverse(); b.append(extra); b.reverse()
    cf = r.canonical_form
    out = 'ok reactants=%s products=%s rtype=%s name=%s canon=%s' % (show_rmembers(list(r.reactants)), show_rmembers(list(r.products)), r.rtype, r.name,
                                                                    'None' if cf is None else show_rkey(cf))
    del r
    clear_singletons(K)
    return out


def source_derived_pysetobj(res, proof, runner=None):
    from dsdobjects.base_classes import ComplexS, MacrostateS, ReactionS
    from dsdobjects.singleton import clear_singletons
    runner = runner or core.run_driver
    rng = random.Random(res.seed * 6700417 + 3)
    quick = res.tier == 'quick'
    cplx, macro = pool()
    held = list(macro)                                   # the pool's macrostates stay alive as MEMBERS; MacrostateS registries are cleared per call
    lines, impl = [], []
    cs = cplx[:5] if quick else cplx
    for k in range(0, 4):
        for t in itertools.product(cs, repeat=k):
            if k == 3 and quick and rng.random() > 0.5:
                continue
            for name in [None] + ([t[0].name, t[-1].name] if t else []) + ['nope'] + ([''] if rng.random() < 0.1 else []):
                lines.append('\t'.join(['pysetobj.macro', enc_members(list(t)), enc_opt(name)]))
                impl.append(real_macro(MacrostateS, t, name, cplx[-1]))
    nm = len(lines)
    rlines, rimpl = [], []
    mem_sets = [cs[:4], held[:3], cs[:2] + held[:1]]
    for mem in mem_sets:
        for k in (0, 1, 2, 3):
            for t in itertools.product(mem, repeat=k):
                if k == 3 and rng.random() > (0.2 if quick else 0.6):
                    continue
                for ps in ([cs[0]], [held[0], held[1]], [cs[2], cs[1], cs[0]], []):
                    rtype, name = rng.choice([('bind21', None), ('open', 'r1'), (None, None), ('condensed', 'x'), (None, 'r2')])
                    rlines.append('\t'.join(['pysetobj.rxn', enc_rmembers(list(t)), enc_rmembers(ps), enc_opt(rtype), enc_opt(name)]))
                    rimpl.append(real_rxn(ReactionS, t, ps, rtype, name, cplx[-1]))
                    if rng.random() < 0.3:
                        rlines.append('\t'.join(['pysetobj.rxn', enc_rmembers(ps), enc_rmembers(list(t)), enc_opt(rtype), enc_opt(name)]))
                        rimpl.append(real_rxn(ReactionS, ps, t, rtype, name, cplx[-1]))
    del cplx, macro, held, cs, mem_sets
    for K in (ReactionS, MacrostateS, ComplexS):
        clear_singletons(K)
    ComplexS.ID = 1
    try:
        out = runner(lines + rlines)
    except core.DriverBroken as e:
        proof.problem('driver', 'source-derived set objects stream: ' + str(e))
        return
    core.compare_streams(res, 'MacrostateS-object.source-derived', lines, impl, out[:nm])
    core.compare_streams(res, 'ReactionS-object.source-derived', rlines, rimpl, out[nm:])
    res.dist['source_derived_setobj_objects'] = sum(1 for o in impl + rimpl if o.startswith('ok'))
    for o in impl + rimpl:
        if o.startswith('err'):
            res.count('source_derived_setobj_' + o[4:])


def run_private_driver(lines, timeout=1200):
    """the ops of DriverSetObjects.lean through the stand-alone lean/MainSetObjects.lean (before they are wired into Driver.lean)"""
    data = '\n'.join(lines) + '\n'
    p = subprocess.run(['lake', 'env', 'lean', '--run', 'MainSetObjects.lean'], cwd=core.LEAN, input=data, capture_output=True, text=True, timeout=timeout)
    if p.returncode != 0:
        raise core.DriverBroken((p.stdout + p.stderr)[-3000:])
    out = p.stdout.split('\n')
    if out and out[-1] == '':
        out.pop()
    if len(out) != len(lines):
        raise core.DriverBroken('driver returned %d lines for %d requests' % (len(out), len(lines)))
    return out


if __name__ == '__main__':
    # /venv/bin/python -m harness.props.pysetobj_stream <repo> [quick|full]      (from the verif directory)
    import sys
    repo = sys.argv[1]
    core.use_repo(repo)
    res = core.Result('PYSETOBJ', sys.argv[2] if len(sys.argv) > 2 else 'quick', 1, repo)
    class P:
        def problem(self, kind, detail):
            print('PROBLEM', kind, detail)
    source_derived_pysetobj(res, P(), runner=run_private_driver)
    print('streams', res.streams, 'dist', res.dist)
    print('disagreements', len(res.disagreements))
    for d in res.disagreements[:8]:
        print(d)
    sys.exit(1 if res.disagreements else 0)
