"""Stream `DSD_Complex-constructor.source-derived`: `DSD_Complex.__init__` as TRANSLATED from the source (translator/pylegacy3.py ->
Gen/PyLegacyInit.lean, driver op `li.new`) against the REAL constructor, and after EVERY construction - accepted or refused - the
public class variables `DSD_Complex.ID` / `NAMES` / `MEMORY` of the real class against the translated ones (`li.cls`).
Scenarios of the C20 harness: every rotation registered / requested again (duplicates), taken names (refused, then retried under a
free name), automatic names with good and bad prefixes, `memorycheck=False` twins, unequal lengths, ill-formed structures."""
import random, warnings
from .. import core, gen, ref
from .pylegacy_stream import show_err
from .pylegacyreg_stream import key

STREAM = 'DSD_Complex-constructor.source-derived'


def source_derived_pylegacyinit(res, proof, run_driver=None):
    warnings.simplefilter('ignore')
    from dsdobjects.core import deprecated as dep
    rng = random.Random(res.seed * 15485863 + 2022)
    quick = res.tier == 'quick'
    structs = list(gen.wellformed_structures(5 if quick else 6, 3))
    if quick:
        structs = [s for s in structs if len(s) <= 4 or rng.random() < 0.25]
    for _ in range(15 if quick else 150):
        structs.append(gen.random_structure(rng, rng.randint(5, 14), nstrands=rng.randint(2, 5)))
    cases = [(gen.label(s, rng, ['a', 'b']), s) for s in structs] + gen.symmetric_complexes()
    lines, impl, handles, keep, h = [], [], {}, [], [0]

    def cls():
        lines.append('li.cls')
        impl.append('ID=%d NAMES=%s MEMORY=%s' % (dep.DSD_Complex.ID, ';'.join('%s:%s' % (n, key(c)) for n, c in dep.DSD_Complex.NAMES.items()),
                                                  ';'.join('%s:h%s' % (key(c), handles.get(id(o), '?')) for c, o in dep.DSD_Complex.MEMORY.items())))

    def new(names, s, nm, pfx, mc):
        hh = h[0]; h[0] += 1
        lines.append('li.new\t%d\t%s\t%s\t%s\t%s\t%d' % (hh, ' '.join(names), ''.join(s), nm, pfx, 1 if mc else 0))
        try:
            o = dep.DSD_Complex(list(names), list(s), name=nm, prefix=pfx, memorycheck=mc)
            handles[id(o)] = hh; keep.append(o)
            impl.append('ok ' + o.name)
        except dep.DSDDuplicationError as e:
            impl.append('err Fault DSDDuplicationError existing=h%s rotations=%s' % (handles.get(id(e.existing), '?'), e.rotations)); e = None
        except Exception as e:
            impl.append(show_err(e))
        cls()

    for names, s in cases:
        rots = ref.rotations(names, s)
        n = len(rots)
        dep.clear_memory(); dep.DSD_Complex.ID = 0; handles.clear(); keep.clear()
        lines.append('lr.reset'); impl.append('ok')
        k = rng.randrange(n)
        new(rots[k][0], rots[k][1], 'L', 'cplx', True)
        for rn2, rs2 in rots:                                              # duplicates, under a free and under the taken name
            new(rn2, rs2, rng.choice(['L2', 'L']), 'cplx', True)
        new(rots[(k + 1) % n][0], rots[(k + 1) % n][1], 'Ltwin', 'cplx', False)
        other = gen.label(s, rng, ['a', 'b'])
        if not (set(ref.rotations(other, s)) & set(rots)):
            new(other, s, 'L', 'cplx', True)                               # taken name: refused, nothing may be left behind
            new(other, s, '', 'cplx', True)                                # the same complex under an automatic name: accepted
            new(other, s, '', rng.choice(['', 'c1', 'x']), True)           # bad prefixes / its duplicate
        new(list(names) + ['a'], s, 'Lbad', 'cplx', True)                  # unequal lengths
        new(names, s, '', 'r', False)
        res.count('pylegacyinit_strands_%d' % min(n, 6))
    for names, s in [(['a', '+', 'a'], ')+('), (['a', '+', 'b', '+', 'a'], '(+)+('), (['+'], '+'), ([], '')]:
        dep.clear_memory(); dep.DSD_Complex.ID = 0; handles.clear(); keep.clear()
        lines.append('lr.reset'); impl.append('ok')
        new(names, s, 'B', 'cplx', True); new(names, s, '', 'cplx', True); new(names, s, 'B', 'cplx', False)
    dep.clear_memory(); dep.DSD_Complex.ID = 0
    model = (run_driver or core.run_driver)(lines)
    hist, start = [], 0
    for i, l in enumerate(lines):
        if l == 'lr.reset':
            start = i
        hist.append(start)
    inputs = [lines[hist[i]:i + 1] if impl[i] != model[i] else l for i, l in enumerate(lines)]
    core.compare_streams(res, STREAM, inputs, impl, model)
    res.sample(lines[:12])
    return len(lines)


if __name__ == '__main__':
    import sys
    repo = sys.argv[1]
    sys.path.insert(0, repo)
    def private(lines):
        rc, out, err = core.sh(['lake', 'env', 'lean', '--run', 'MainLegacyInit.lean'], cwd=core.LEAN, input='\n'.join(lines) + '\n', timeout=1200)
        if rc != 0:
            raise core.DriverBroken((out + err)[-3000:])
        r = out.split('\n')
        if r and r[-1] == '':
            r.pop()
        return r
    res = core.Result('C20', sys.argv[3] if len(sys.argv) > 3 else 'quick', int(sys.argv[2]) if len(sys.argv) > 2 else 1, repo)
    n = source_derived_pylegacyinit(res, None, run_driver=private)
    print('lines', n, 'disagreements', len(res.disagreements), res.dist)
    for d in res.disagreements[:3]:
        print(str(d)[:900])
    sys.exit(1 if res.disagreements else 0)
