"""C18 — unit and rate-constant conversion preserves the physical quantity."""
import math, random
from fractions import Fraction
from .. import core

MODULES = ['DsdVerif.Props.C18', 'DsdVerif.Props.PyUnits']
GEN_FILES = ['UnitTables', 'GrammarUnits', 'PyUnits']
THEOREMS = ['Dsd.Units.' + t for t in [
    'tables_physical', 'families_disjoint', 'grammar_units_convertible', 'convert_def', 'convert_ok_iff',
    'convert_id', 'convert_compose', 'convert_inverse', 'rate_roundtrip', 'rateformat_physical',
    'rateformat_roundtrip', 'concentrationformat_physical']]
# flint / convert_units / ReactionS.rate_constant / rateformat / arity / ComplexS.concentration* as written in the source
# (translator/pyunits.py -> Gen/PyUnits.lean, regenerated on every run; numbers read as the exact rationals they denote)
THEOREMS += ['Dsd.PyUnits.' + t for t in [
    'py_flint_eq', 'py_convert_units_eq', 'py_rate_set_eq', 'py_rate_set_refused', 'py_rate_get_eq', 'py_arity_eq', 'py_rateformat_eq',
    'py_rateformat_no_units', 'py_conc_set_eq', 'py_conc_get_eq', 'py_concentrationformat_eq', 'py_concentrationformat_none',
    'py_div_zero_raises', 'py_convert_units_never_divides_by_zero', 'py_rateformat_none_const_raises', 'py_rate_set_const_isSome',
    'py_convert_id', 'py_convert_compose', 'py_convert_inverse', 'py_rate_roundtrip', 'py_rateformat_physical', 'py_rateformat_roundtrip',
    'py_concentrationformat_convert']]
ASSUMPTIONS = [
    'unit tables and grammar unit alternatives are transcribed from utils.py / pil_parser.py on every run',
    'arithmetic is exact in the model (Rat); the implementation computes in IEEE doubles: values are compared '
    'within a relative tolerance of 1e-12, integers exactly; floating-point rounding itself is not modelled',
    'convert_units/rateformat/concentrationformat/rate setter are hand-modelled (Model/Units.lean)',
]
MANIFEST = {
    'text': 'Full in exact arithmetic. tables_physical / families_disjoint / grammar_units_convertible are decided over tables '
            'regenerated from utils.py and pil_parser.py; convert_def, convert_ok_iff, convert_id, convert_compose, '
            'convert_inverse, rateformat_physical, rateformat_roundtrip are proved over Rat for all values and unit lists of any '
            'arity; the model is tied to convert_units / ReactionS.rateformat / ComplexS.concentrationformat / the rate_constant '
            'setter and flint by a correspondence stream (all ordered unit pairs, values over 300 orders of magnitude).',
    'note': 'Floating-point rounding is modelled-not-verified (tolerance comparison); Lean kernel, translator and the hand model '
            'of the conversion functions are trusted as stated in DESIGN.md section 3.',
    'source_derived': 'STATEMENT LEVEL, FROM THE SOURCE (since batch 7): translator/pyunits.py transcribes flint, convert_units, ReactionS.rate_constant (getter, setter), rateformat, arity and ComplexS.concentration / concentrationformat from the working tree (Gen/PyUnits.lean; a Python number is read as the exact rational it denotes - rounding is not modelled; the dict displays inside convert_units are checked to be the ones Gen/UnitTables is regenerated from); PyUnits.py_convert_units_eq, py_rate_set_eq, py_rate_set_refused (a refused assignment leaves the object unchanged), py_rateformat_eq, py_concentrationformat_eq prove each equal to the model for all inputs, and py_convert_compose, py_convert_inverse, py_rate_roundtrip, py_rateformat_physical, py_rateformat_roundtrip are C18 for the code as written; stream units.source-derived.',
    'technique': 'Lean 4 theorems over Rat (field_simp) + decide over unit tables regenerated from source; correspondence check',
}

# independent physical table for the oracle
SCALE = {'M': Fraction(1), 'mM': Fraction(1, 10**3), 'uM': Fraction(1, 10**6), 'nM': Fraction(1, 10**9), 'pM': Fraction(1, 10**12),
         'days': Fraction(86400), 'hours': Fraction(3600), 'h': Fraction(3600), 'min': Fraction(60), 'm': Fraction(60),
         's': Fraction(1), 'ms': Fraction(1, 10**3), 'us': Fraction(1, 10**6), 'ns': Fraction(1, 10**9)}
CONC = ['M', 'mM', 'uM', 'nM', 'pM']
TIME = ['days', 'hours', 'min', 's', 'ms', 'us', 'ns']
GCONC = ['M', 'mM', 'uM', 'nM', 'pM']
GTIME = ['s', 'm', 'h']
REL_TOL = Fraction(1, 10**12)


def fam(u):
    return 'c' if u in CONC else 't' if (u in TIME or u in ('m', 'h')) else None


def fr(x):
    return '%d/%d' % (Fraction(x).numerator, Fraction(x).denominator)


def close(a, exact):
    a, exact = Fraction(a), Fraction(exact)
    if exact == 0:
        return a == 0
    return abs(a - exact) <= REL_TOL * abs(exact)


def values(rng, n):
    vals = [0, 1, 2, 5, 10, 1000, 10**9, 10**15, 3 * 10**20, 0.5, 0.1, 2.4, 1e-9, 1e-12, 7.25, 123456.789, 1e-150, 1e150, 1e22,
            2**53, 2**53 + 2, 1.5e-5, 60, 3600, 86400]
    for _ in range(n):
        k = rng.random()
        if k < 0.3:
            x = rng.randint(0, 10**rng.randint(0, 18))
            vals.append(int(float(x)))      # numbers are IEEE doubles: integers are kept only as exactly representable values
        elif k < 0.6:
            vals.append(rng.uniform(0, 10) * 10.0**rng.randint(-30, 30))
        elif k < 0.8:
            vals.append(float(rng.randint(1, 999)) * 10.0**rng.randint(-150, 145))
        else:
            vals.append(rng.choice([1, 2, 5, 25, 125]) * 10.0**rng.randint(-12, 12))
    return vals


class World:
    """a few reactions of arity 1..3 built through the real constructors"""

    def __init__(self):
        import dsdobjects
        from dsdobjects.base_classes import DomainS, ComplexS, ReactionS, StrandS, MacrostateS
        from dsdobjects import clear_singletons
        for c in (DomainS, ComplexS, ReactionS, StrandS, MacrostateS):
            clear_singletons(c)
        self.ReactionS = ReactionS
        self.doms = [DomainS(n, 5) for n in 'abcd']
        self.cx = [ComplexS([d], ['.'], name='X' + d.name) for d in self.doms]
        # per arity: pairwise different reactants, and reactions with REPEATED reactants (A + A, A + A + B, A + A + A): the
        # reaction order that the units must match is the number of reactants, not the number of different ones
        c = self.cx
        self.rx = {1: [ReactionS(c[:1], c[1:2], 'open')],
                   2: [ReactionS(c[:2], c[2:3], 'bind21'), ReactionS([c[0], c[0]], c[2:3], 'bind21')],
                   3: [ReactionS(c[:3], c[3:4], 'condensed'), ReactionS([c[0], c[0], c[1]], c[3:4], 'condensed'),
                       ReactionS([c[0], c[0], c[0]], c[3:4], 'condensed')]}


def impl_num(x):
    if isinstance(x, bool) or not isinstance(x, (int, float)):
        return 'nonnumber ' + type(x).__name__
    if isinstance(x, float) and (math.isinf(x) or math.isnan(x)):
        return 'nonfinite'
    return 'ok ' + fr(x)


def impl_op(w, utils, op):
    try:
        if op[0] == 'units.conv':
            return impl_num(utils.convert_units(op[1], op[2], op[3]))
        if op[0] == 'units.rate':
            v, old, new, n = op[1], op[2], op[3], op[4]
            r = w.rx[n][(len(repr(v)) + len(''.join(old)) + len(''.join(new))) % len(w.rx[n])]
            r.rate_constant = (v, '/' + '/'.join(old))
            c, u = r.rateformat('/' + '/'.join(new))
            if u != '/' + '/'.join(new):
                return 'bad-units ' + repr(u)
            return impl_num(c)
        if op[0] == 'units.concfmt':
            cx = w.cx[0]
            cx.concentration = ('initial', op[1], op[2])
            if (len(repr(op[1])) + len(op[2]) + len(op[3])) % 2:
                # the concentration belongs to the complex, not to a representation: a `turns` assignment in between (any value,
                # also one that does not move a one-strand complex) leaves it as it was set
                cx.turns = cx.turns + 1
                if cx.concentration != ('initial', op[1], op[2]):
                    return 'concentration-changed-by-a-turns-assignment ' + repr(cx.concentration)
            m, c, u = cx.concentrationformat(op[3])
            if (m, u) != ('initial', op[3]):
                return 'bad-triple'
            return impl_num(c)
    except Exception as e:
        return 'err ' + type(e).__name__
    return 'bad-op'


def line_of(op):
    if op[0] == 'units.conv':
        return '\t'.join(['units.conv', fr(op[1]), op[2], op[3]])
    if op[0] == 'units.rate':
        return '\t'.join(['units.rate', fr(op[1]), ' '.join(op[2]), ' '.join(op[3]), str(op[4])])
    if op[0] == 'units.concfmt':
        return '\t'.join(['units.conv', fr(op[1]), op[2], op[3]])


def same(impl, model):
    if impl.startswith('ok ') and model.startswith('ok '):
        return close(Fraction(impl[3:]), Fraction(model[3:]))
    return impl == model


def run(res, proof):
    from dsdobjects import utils
    rng = random.Random(res.seed * 7919 + 18)
    w = World()
    nvals = 40 if res.tier == 'quick' else 600
    vals = values(rng, nvals)
    # the units the PIL grammar admits are read from the working tree's grammar by the translator (not assumed here)
    gu = (proof.gen_report.get('files', {}).get('GrammarUnits', {}) or {}).get('summary') or {}
    GTIME = list(gu.get('tunit') or globals()['GTIME'])
    GCONC = list(gu.get('cunit') or globals()['GCONC'])
    res.dist['grammar_units_from_source'] = ' '.join(GCONC) + ' | ' + ' '.join(GTIME)
    # every unit the grammar admits must be convertible (to the base unit of its family and back)
    for fam_units, base in ((GTIME, 's'), (GCONC, 'M')):
        for u in fam_units:
            res.evaluations += 1
            try:
                x = utils.convert_units(1, u, base)
                y = utils.convert_units(x, base, u)
                ok, obs = (x > 0 and close(y, Fraction(1))), '%r -> %r -> %r' % (u, x, y)
            except Exception as e:
                ok, obs = False, 'err ' + type(e).__name__
                e = None
            if not ok:
                res.violation('grammar-unit-not-convertible:' + u, {'op': ['units.conv', 1, u, base]}, obs,
                              'a positive number: every rate unit accepted by the PIL grammar can be converted')
    allu = CONC + TIME + ['m', 'h', 'foo', '', 'S', 'mm'] + [u for u in GTIME + GCONC if u not in CONC + TIME + ['m', 'h']]
    ops = []
    for a in allu:
        for b in allu:
            for v in rng.sample(vals, 6) + [0, 1, 2.4]:
                ops.append(('units.conv', v, a, b))
    n_pairs = len(allu) ** 2
    for n in (1, 2, 3):
        combos = []
        def rec(k, acc):
            if k == n - 1:
                for t in GTIME + ['min', 'hours', 'ms']:
                    combos.append(acc + [t])
                return
            for c in GCONC:
                rec(k + 1, acc + [c])
        rec(0, [])
        for old in combos:
            news = combos if (res.tier == 'thorough' or n < 3) else rng.sample(combos, 12)
            for new in news:
                ops.append(('units.rate', rng.choice(vals), old, new, n))
    # wrong arity / unknown units in rate strings
    ops.append(('units.rate', 5, ['M', 's'], ['s'], 2))
    ops.append(('units.rate', 5, ['s'], ['nM', 's'], 2))
    ops.append(('units.rate', 5, ['M', 's'], ['s', 's'], 2))
    ops.append(('units.rate', 5, ['M', 'foo'], ['M', 's'], 2))
    for a in CONC:
        for b in CONC + ['s', 'foo']:
            ops.append(('units.concfmt', rng.choice(vals), a, b))
    res.rule = ('all ordered pairs over %d unit names (both families, grammar aliases, unknown names) x sampled values over '
                '1e-150..1e150 (every intermediate product stays a normal double) incl. 0, integral and huge; reactions of arity 1-3 x combinations of accepted concentration and '
                'time units; non-trivial = two known units of one family with a non-zero value; distinct by (op, value, units)' % len(allu))
    impl = [impl_op(w, utils, op) for op in ops]
    from . import cu as _cu
    _cu.rerun_sample(res, 'units', ops, impl, lambda op: impl_op(w, utils, op), rng)
    lines = [line_of(op) for op in ops]
    try:
        model = core.run_driver(lines)
        res.streams['units'] = len(lines)
        res.traces += len(lines)
        for op, l, a, b in zip(ops, lines, impl, model):
            if not same(a, b):
                res.disagree('units', l, a, b)
    except core.DriverBroken as e:
        proof.problem('driver', str(e))
    # ---- oracle on the real code
    for op, out in zip(ops, impl):
        res.evaluations += 1
        if op[0] in ('units.conv', 'units.concfmt'):
            v, a, b = op[1], op[2], op[3]
            if fam(a) and fam(a) == fam(b):
                exact = Fraction(v) * SCALE[a] / SCALE[b]
                if v != 0:
                    res.nontriv((op[0], fr(v), a, b))
                res.count('conv_same_family')
                if abs(exact) > Fraction(10)**307 or (exact != 0 and abs(exact) < Fraction(1, 10**307)):
                    res.count('out_of_float_range'); continue
                if not (out.startswith('ok ') and close(Fraction(out[3:]), exact)):
                    res.violation('%s:%s->%s' % (op[0], a, b), {'op': [op[0], fr(v), a, b]}, out, 'ok ' + fr(exact) + ' (within 1e-12)')
            else:
                res.count('conv_mixed_or_unknown')
                if not out.startswith('err '):
                    res.violation('%s:%s->%s:no-exception' % (op[0], a, b), {'op': [op[0], fr(v), a, b]}, out, 'an exception')
        elif op[0] == 'units.rate':
            v, old, new, n = op[1:]
            if len(old) == n and len(new) == n and all(fam(o) and fam(o) == fam(x) for o, x in zip(old, new)):
                exact = Fraction(v)
                for o, x in zip(old, new):
                    exact = exact * SCALE[x] / SCALE[o]
                res.count('rate_arity_%d' % n)
                if v != 0:
                    res.nontriv(('rate', fr(v), tuple(old), tuple(new)))
                if abs(exact) > Fraction(10)**307 or (exact != 0 and abs(exact) < Fraction(1, 10**307)):
                    res.count('out_of_float_range'); continue
                if not (out.startswith('ok ') and close(Fraction(out[3:]), exact)):
                    bad = [x for x in old + new if x in ('m', 'h')]
                    key = 'rateformat:unit:%s' % bad[0] if (bad and out.startswith('err')) else 'rateformat:%s->%s' % ('/'.join(old), '/'.join(new))
                    res.violation(key, {'op': ['units.rate', fr(v), old, new, n]}, out, 'ok ' + fr(exact) + ' (within 1e-12)')
            else:
                res.count('rate_bad_units')
                if not out.startswith('err '):
                    res.violation('rateformat:bad-units-accepted', {'op': ['units.rate', fr(v), old, new, n]}, out, 'an exception')
    # ---- composition / inversion / round trips on the real code
    for _ in range(300 if res.tier == 'quick' else 5000):
        famu = rng.choice((CONC, TIME))
        a, b, c = rng.choice(famu), rng.choice(famu), rng.choice(famu)
        v = rng.choice(vals)
        if v == 0 or v > 1e250 or v < 1e-250:
            continue
        res.evaluations += 1
        try:
            ab = utils.convert_units(v, a, b); bc = utils.convert_units(ab, b, c); ac = utils.convert_units(v, a, c)
            ba = utils.convert_units(ab, b, a)
            ok = close(bc, Fraction(ac)) and close(ba, Fraction(v))
            obs = 'ab=%r bc=%r ac=%r ba=%r' % (ab, bc, ac, ba)
        except Exception as e:
            ok, obs = False, 'err ' + type(e).__name__
        res.count('compose_inverse')
        if not ok:
            res.violation('convert:compose:%s:%s:%s' % (a, b, c), {'op': ['compose', fr(v), a, b, c]}, obs, 'conv(conv(v,a,b),b,c) ~ conv(v,a,c) and conv(conv(v,a,b),b,a) ~ v')
    # ---- flint and the rate_constant setter/getter (oracle only; the model side is rate_roundtrip)
    for v in vals + [float(x) for x in vals if isinstance(x, int) and x < 2**53] + ['5', '2.5']:
        res.evaluations += 1
        try:
            r = utils.flint(v)
            f = float(v)
            ok = (r == f) and ((type(r) is int) == f.is_integer())
            obs = repr(r)
        except Exception as e:
            ok, obs = False, 'err ' + type(e).__name__
        res.count('flint')
        if not ok:
            res.violation('flint:%r' % (v,), {'op': ['flint', repr(v)]}, obs, 'numerically equal, int iff integral')
    r = w.rx[2][1]          # the reaction with a repeated reactant
    for v in vals[:60]:
        for form, arg, exp in (('number', v, (v, None)), ('tuple1', (v,), (v, None)),
                               ('pair', (v, '/M/s'), (v, '/M/s')), ('pair-none', (v, None), (v, None))):
            res.evaluations += 1
            try:
                r.rate_constant = arg
                got = r.rate_constant
                ok = (got[0] == exp[0] and got[1] == exp[1] and isinstance(got[0], (int, float)))
                obs = repr(got)
            except Exception as e:
                ok, obs = False, 'err ' + type(e).__name__
            res.count('rate_set_' + form)
            res.nontriv(('rate_set', form, fr(v)))
            if not ok:
                res.violation('rate_constant:' + form, {'op': ['rate_set', form, repr(arg)]}, obs, repr(exp))
                continue
            # a refused assignment changes nothing: the constant is still returned as it was (successfully) set
            for bad in ((7, '/nM', '/s'), (v, '/M', '/s', None), ()):
                refused = False
                try:
                    r.rate_constant = bad
                except Exception as e:
                    refused = True; e = None
                if refused:
                    res.count('refused_assignment')
                    try:
                        again = r.rate_constant
                        same2 = (again[0] == exp[0] and again[1] == exp[1])
                        obs2 = repr(again)
                    except Exception as e:
                        same2, obs2 = False, "err " + type(e).__name__
                    if not same2:
                        res.violation('rate_constant:changed-by-a-refused-assignment', {'op': ['rate_set', form, repr(arg), 'then refused', repr(bad)]},
                                      obs2, repr(exp))
                        break
                else:
                    r.rate_constant = arg
            # the printed form of the reaction shows the constant as it was set (six significant digits), its units, the type
            # and the members in the object's order
            import re
            try:
                text = r.reaction_string
                m = re.match(r'^reaction \[\s*(\S+?)\s*(?:=\s*(\S+)(?:\s+(/\S+))?)?\s*\] (.*) -> (.*)$', text)
                shown = None if (m is None or m.group(2) is None) else float(m.group(2))
                ok = (m is not None and m.group(1) == r.rtype
                      and [x.strip() for x in m.group(4).split(' + ')] == [x.name for x in r.reactants]
                      and [x.strip() for x in m.group(5).split(' + ')] == [x.name for x in r.products]
                      and ((shown is None and v == 0) or (shown is not None and abs(shown - v) <= 1e-5 * abs(v) and m.group(3) == exp[1])))
                obs = text
            except Exception as e:
                ok, obs = False, 'err ' + type(e).__name__
            res.count('reaction_string')
            if not ok:
                res.violation('reaction_string:' + form, {'op': ['rate_set', form, repr(arg)]}, obs,
                              'type %s, constant %r (6 significant digits), units %r, members as in the object' % (r.rtype, v, exp[1]))
    try:
        r._const, r._units = 5, None
        r.rateformat('/M/s')
        res.violation('rateformat:no-units-accepted', {'op': ['rateformat-without-units']}, 'returned', 'ObjectInitError')
    except Exception as e:
        if type(e).__name__ != 'ObjectInitError':
            res.violation('rateformat:no-units:' + type(e).__name__, {'op': ['rateformat-without-units']}, type(e).__name__, 'ObjectInitError')
    for op in ops[::max(1, len(ops) // 10)]:
        res.sample(line_of(op))
    res.dist['unit_pairs'] = n_pairs
    del w
    # the unit / rate functions as translated from the working tree (Gen/PyUnits.lean) against the real ones
    from .pyunits_stream import source_derived_pyunits
    core.run_stream(source_derived_pyunits, res, proof)


def replay(body, repo):
    from dsdobjects import utils
    op = body['input']['op']
    w = World()
    if op[0] in ('units.conv', 'units.concfmt'):
        x = Fraction(op[1]); x = int(x) if x.denominator == 1 else float(x)
        out = impl_op(w, utils, (op[0], x, op[2], op[3]))
    elif op[0] == 'units.rate':
        x = Fraction(op[1]); x = int(x) if x.denominator == 1 else float(x)
        out = impl_op(w, utils, ('units.rate', x, op[2], op[3], op[4]))
    else:
        out = 'replay by hand: ' + repr(op)
    print('op       :', op)
    print('observed :', out)
    print('required :', body.get('required'))
    return 1
