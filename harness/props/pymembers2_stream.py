"""`DomainS.__init__` as translated from the working tree (translator/pymembers2.py -> Gen/PyMembers2.lean) against the real method.

`source_derived_pymembers2(res, proof)` calls the REAL `DomainS.__init__` on a blank object (`object.__new__`) of a fresh subclass with its own
`PREFIX` / `ID` / `SHORT_DOM_LEN` / `LONG_DOM_LEN`, with every combination of name (None / given), length (None / 0 / given), prefix (None / EMPTY /
given) and dtype (None / 'short' / 'long' / another str / ''), and the TRANSLATED `py_DomainS_init_full` through the driver op `pym2.init`
(lean/DsdVerif/DriverMembers2.lean); compared: the name stored, `cls.ID` afterwards, the length, `sequence` (stream `DomainS-init.source-derived`).
"""
import os
import random
from .. import core

STREAM = 'DomainS-init.source-derived'


def run_members2_driver(lines):
    wired = 'stepMembers2' in open(os.path.join(core.LEAN, 'DsdVerif', 'Driver.lean'), encoding='utf-8').read()
    if wired:
        return core.run_driver(lines)
    data = '\n'.join(lines) + '\n'
    rc, out, err = core.sh(['lake', 'env', 'lean', '--run', 'MainMembers2.lean'], cwd=core.LEAN, input=data, timeout=1200)
    if rc != 0:
        raise core.DriverBroken((out + err)[-3000:])
    got = out.split('\n')
    if got and got[-1] == '':
        got.pop()
    if len(got) != len(lines):
        raise core.DriverBroken('driver returned %d lines for %d requests; tail: %s' % (len(got), len(lines), got[-3:]))
    return got


def source_derived_pymembers2(res, proof):
    from dsdobjects.base_classes import DomainS
    rng = random.Random(res.seed * 5050511 + 55)
    lines, impl = [], []
    k = 0
    for name in (None, 'a', 'b*', ''):
        for length in (None, 0, 7, 15):
            for prefix in (None, '', 'p', 'dom'):
                for dtype in (None, 'short', 'long', 'medium', ''):
                    k += 1
                    pfx, sh, lo, id0 = rng.choice(['d', 'x', '']), rng.randint(0, 9), rng.randint(10, 30), rng.randint(0, 500)
                    K = type('InitDom%d' % k, (DomainS,), {'PREFIX': pfx, 'ID': id0, 'SHORT_DOM_LEN': sh, 'LONG_DOM_LEN': lo})
                    obj = object.__new__(K)
                    try:
                        DomainS.__init__(obj, name=name, length=length, prefix=prefix, dtype=dtype)
                        out = 'ok name=%s ID=%d length=%s sequence=%s' % (obj._name, K.ID, obj._length, 'None' if obj.sequence is None else 'object')
                    except Exception as e:
                        out = 'err ' + type(e).__name__
                        e = None
                    opt = lambda x: '-' if x is None else '=' + x
                    lines.append('\t'.join(['pym2.init', pfx, str(sh), str(lo), str(id0), opt(name), '-' if length is None else str(length), opt(prefix), opt(dtype)]))
                    impl.append(out)
                    res.count('pym2:' + ('auto' if name is None else 'named'))
    try:
        out = run_members2_driver(lines)
    except core.DriverBroken as e:
        proof.problem('driver', 'pymembers2 stream: ' + str(e))
        return
    core.compare_streams(res, STREAM, lines, impl, out)
    res.dist['pym2:ops'] = len(lines)
    for l in lines[:2]:
        res.sample(l)
