"""C08 — loop indices, connectivity and exterior domains follow the loop decomposition."""
import random
from .. import core, gen, ref
from . import cu

MODULES = ['DsdVerif.Props.C08', 'DsdVerif.Props.PyFuncs', 'DsdVerif.Props.C08Dlc', 'DsdVerif.Lemmas.PyObjExt', 'DsdVerif.Props.PyComplexS2']
GEN_FILES = ['PyFuncs', 'PyComplexS', 'PyComplexS2']
THEOREM_NAMES = ['loop_index_spec', 'loop_index_modes_agree', 'exterior_spec', 'not_connected_of_error', 'error_of_not_connected',
                 'makeLoopIndex_linear',
                 # object level (Model/CplxObject): Props/C08Obj.lean
                 'isConnected_iff', 'disconnected_views_raise', 'disconnected_no_cache', 'exterior_enclosed_partition',
                 'views_after_rotation']
THEOREMS = ['Dsd.C08.' + t for t in THEOREM_NAMES] + ['Dsd.PyFuncs.' + t for t in [
    # make_loop_index / make_pair_table as written in the source (Gen/PyFuncs.lean, regenerated on every run)
    'py_make_loop_index_eq', 'py_loop_index_of_py_pair_table', 'py_loop_index_components_total',
    'py_loop_index_raises_iff_disconnected', 'py_make_pair_table_eq']] + ['Dsd.C08.' + t for t in [
    # is_domainlevel_complement (Model/Dlc.lean follows the loop with its early return)
    'dlc_true_iff', 'dlc_true_iff_unconditional', 'dlc_total', 'dlc_false_iff', 'dlc_false_iff_witness', 'dlc_error',
    'dlc_of_make_pair_table', 'dlc_one_sided_of_make_pair_table', 'mpt_partner_valid']] + [
    # exterior_domains / enclosed_domains / __loop_index as written in the source (Gen/PyComplexS.lean): on a coherent object they answer
    # the cache-free specification edSpec / liSpec (raising exactly when it raises) and leave the object coherent
    'Dsd.PyObj.Ext.view_exterior', 'Dsd.PyObj.Ext.view_enclosed', "Dsd.PyObj.Ext.exec_p_loop_index'"] + ['Dsd.PyComplexS2.' + t for t in [
    # is_domainlevel_complement as written in the source (translator/pycomplex2.py -> Gen/PyComplexS2.lean; a domain is (name, length), `~` a parameter)
    'py_dlc_eq', 'py_dlc_no_pair_table', 'py_dlc_true_iff', 'py_dlc_false_iff', 'py_dlc_total', 'py_dlc_error', 'py_dlc_of_make_pair_table']]
ASSUMPTIONS = [
    'make_loop_index is hand-modelled on linear positions (Model/Complex.lean: loopStep, makeLoopIndex) and tied to the code by the '
    'correspondence stream `loop` (both `components` modes)',
    'the object views is_connected / exterior_domains / enclosed_domains / is_domainlevel_complement are checked on the real code by '
    'the independent quadratic reference and a union-find oracle',
]
MANIFEST = {
    'text': 'Full for the utility: loop_index_spec (loops are numbered in the order of their opening bracket, both partners get the '
            'loop they enclose, an unpaired position the number of its innermost enclosing pair, 0 outside), exterior_spec (the '
            'reported exterior set is exactly the set of loops containing a strand break or the outer ends), and connectivity in both '
            'directions (not_connected_of_error, error_of_not_connected: the plain mode fails exactly when the strands do not form a '
            'single component under pairing - quantified over every set of strands closed under pairing), all for structures of any '
            'size, plus makeLoopIndex_linear connecting the locus-level function to the linear scan. OBJECT LEVEL (Model/CplxObject, for '
            'coherent objects with a well-formed structure, after any queries): isConnected_iff (true exactly for one component, never '
            'raises), disconnected_views_raise + disconnected_no_cache (exterior / enclosed raise SecondaryStructureError every time '
            'they are asked; a failure is never cached), exterior_enclosed_partition (the two views list every unpaired position '
            'exactly once, in strand-major order; a position is exterior iff the pairs enclosing it are exactly those enclosing some '
            'nick or the outer end), views_after_rotation (after turns = v the views are the re-indexed views). The model is tied to '
            'make_loop_index by exhaustive correspondence in both `components` modes and to the object views by the C03 / C08 streams; '
            'is_domainlevel_complement is decided on the real code against an independent reference.'
            ' STATEMENT LEVEL, FROM THE SOURCE: make_loop_index is transcribed statement by statement from the working tree (Gen/PyFuncs.lean) and proved equal to the model, in both modes, on every table make_pair_table returns (py_make_loop_index_eq, py_loop_index_of_py_pair_table); py_loop_index_raises_iff_disconnected: the source-derived function raises SecondaryStructureError exactly for disconnected complexes, py_loop_index_components_total: components mode never raises; on arbitrary ill-formed tables the transcription is run against the code (same faults).',
    'note': 'is_domainlevel_complement: Model/Dlc.lean follows the loop (row-major, early return, look-up order) and is tied to the property by the correspondence stream ComplexS.is_domainlevel_complement; the side effects of ~ (creation of complement objects) are outside that model (C04 / C05 cover them); trusted base as in DESIGN.md section 3.',
    'source_derived': 'The object views exterior_domains / enclosed_domains / __loop_index are transcribed from the working tree (Gen/PyComplexS.lean): PyObj.Ext.view_exterior / view_enclosed prove that on a coherent object they answer the cache-free specification edSpec - raising exactly when it raises, leaving the object coherent also after a failure half way.',
    'technique': 'Lean 4 invariant proof over the loop-index scan (innermost enclosing pair = stack top) + connectivity by descent; correspondence check',
}


def structures(res, rng):
    quick = res.tier == 'quick'
    L = 7 if quick else 9
    out = list(gen.wellformed_structures(L, 4))
    res.dist['exhaustive_positions_le'] = L
    res.dist['exhaustive_structures'] = len(out)
    for _ in range(300 if quick else 6000):
        npos = rng.choice((12, 30, 80, 200)) if rng.random() < 0.4 else rng.randint(2, 25)
        out.append(gen.random_structure(rng, npos, pair_bias=rng.choice((0.4, 0.7, 0.9)), depth_bias=rng.choice((0.3, 0.6))))
    return out


def run(res, proof):
    from dsdobjects import complex_utils as cux, clear_singletons
    from dsdobjects.base_classes import ComplexS, DomainS
    rng = random.Random(res.seed * 271 + 8)
    structs = structures(res, rng)
    res.rule = ('every well-formed structure with non-empty strands up to %d positions and 4 strands (exhaustive), seeded random up '
                'to 200 positions; non-trivial = at least one pair; distinct by structure string' % res.dist['exhaustive_positions_le'])
    res.exhaustive = True
    ops = []
    clear_singletons(DomainS)
    SUB = type('MyComplex', (ComplexS,), {})
    # domain lengths are irrelevant to every view here, zero (a legal length, and a falsy object: DomainS defines __len__) included
    doms = {n: DomainS(n, l) for n, l in (('a', 5), ('b', 0), ('c', 0))}
    dlc_ops, dlc_impl = [], []
    doms.update({n + '*': ~d for n, d in list(doms.items())})
    for s in structs:
        res.evaluations += 1
        if '(' in s:
            res.nontriv(s)
        ops.append(('loop', s, '0'))
        ops.append(('loop', s, '1'))
        strands = s.split('+')
        li, ext, comps = ref.ref_loops(strands)
        connected = len(comps) == 1
        res.count('connected' if connected else 'disconnected')
        res.count('nicks_%d' % min(len(strands) - 1, 4))
        # ---- utility level against the reference
        out = cu.impl_op(cux, ('loop', s, '0'))
        want = ('ok ' + cu.show_ll(li) + ' / ' + ' '.join(str(x) for x in sorted(ext))) if connected else 'err SecondaryStructureError'
        if out != want:
            res.violation('make_loop_index:' + ('connected' if connected else 'disconnected'), {'op': ['loop', s, '0']}, out, want)
        if len(s) <= 12:
            for mode in (False, True):
                cu.fresh_results(res, 'make_loop_index', lambda: cux.make_loop_index(cux.make_pair_table(s), components=mode) if (connected or mode) else None,
                                 {'op': ['loop', s, '1' if mode else '0']})
        if len(s) <= 12:
            cu.same_for_forms(res, 'make_loop_index', [('lists', lambda: cux.make_loop_index(cux.make_pair_table(s), components=True)),
                                                       ('tuples', lambda: cux.make_loop_index(cu.tup(cux.make_pair_table(s)), components=True))], {'op': ['loop', s, '1']})
        out1 = cu.impl_op(cux, ('loop', s, '1'))
        if not out1.startswith('ok ' + cu.show_ll(li) + ' / '):
            res.violation('make_loop_index:components-mode', {'op': ['loop', s, '1']}, out1, 'ok ' + cu.show_ll(li) + ' / …')
        # ---- object level
        if len(s) > 40:
            continue
        clear_singletons(ComplexS)
        # labels: complementary pairs with probability 1/2, otherwise random
        compl = rng.random() < 0.5
        names = gen.complementary_label(s, rng, ['a', 'b', 'c']) if compl else gen.label(s, rng, ['a', 'b', 'a*', 'c*'])
        seq = [doms[x] if x != '+' else '+' for x in names]
        try:
            K = ComplexS if rng.random() < 0.7 else SUB          # sometimes a user subclass
            clear_singletons(K)
            c = K(seq, list(s), name='X')
            got_conn = c.is_connected
            if got_conn != connected:
                res.violation('is_connected', {'op': ['ComplexS.is_connected', ' '.join(names), s]}, repr(got_conn), repr(connected))
            if connected:
                pt = ref.ref_pair_table(s)
                exd = [(si, di) for si, row in enumerate(pt) for di, p in enumerate(row) if p is None and li[si][di] in ext]
                end = [(si, di) for si, row in enumerate(pt) for di, p in enumerate(row) if p is None and li[si][di] not in ext]
                if list(c.exterior_domains) != exd or list(c.enclosed_domains) != end:
                    res.violation('exterior_domains', {'op': ['ComplexS.exterior_domains', ' '.join(names), s]},
                                  repr((c.exterior_domains, c.enclosed_domains)), repr((exd, end)))
                for si, row in enumerate(li):
                    for di, v in enumerate(row):
                        if c.get_loop_index((si, di)) != v:
                            res.violation('get_loop_index', {'op': ['ComplexS.get_loop_index', ' '.join(names), s]}, 'mismatch', 'reference loop index')
            pt = ref.ref_pair_table(s)
            flat = [x for x in names if x != '+']
            L = ref.loci(strands)
            idx = {l: k for k, l in enumerate(L)}
            def comp(n): return n[:-1] if n.endswith('*') else n + '*'
            dlc = all(p is None or flat[idx[(si, di)]] == comp(flat[idx[p]]) for si, row in enumerate(pt) for di, p in enumerate(row))
            if c.is_domainlevel_complement != dlc:
                res.violation('is_domainlevel_complement', {'op': ['ComplexS.is_domainlevel_complement', ' '.join(names), s]},
                              repr(c.is_domainlevel_complement), repr(dlc))
            res.count('dlc_%s' % dlc)
            dlc_ops.append(('dlc', ' '.join(names), s)); dlc_impl.append('ok %s' % c.is_domainlevel_complement)
            # a disconnected complex has no exterior / enclosed domains: the views raise, every time they are asked
            from dsdobjects import SecondaryStructureError as _SSE
            def raises_sse(attr):
                try:
                    getattr(c, attr)
                except _SSE:
                    return True
                except Exception:
                    return False
                return False
            if not connected:
                for attr in ('exterior_domains', 'enclosed_domains', 'exterior_domains'):
                    if not raises_sse(attr):
                        res.violation('disconnected:' + attr, {'op': ['ComplexS.' + attr, ' '.join(names), s]}, 'no SecondaryStructureError', 'SecondaryStructureError')
            # the same answers after the complex was split (split computes its own decomposition of the same tables)
            parts = list(c.split())
            ncomp = len(parts)
            del parts
            if ncomp != len(comps):
                res.violation('split():number-of-parts', {'op': ['ComplexS.split', ' '.join(names), s]}, str(ncomp), str(len(comps)))
            if c.is_connected != connected:
                res.violation('is_connected:after-split', {'op': ['ComplexS.is_connected after split', ' '.join(names), s]}, repr(c.is_connected), repr(connected))
            if connected:
                if list(c.exterior_domains) != exd or list(c.enclosed_domains) != end:
                    res.violation('exterior_domains:after-split', {'op': ['ComplexS.exterior_domains after split', ' '.join(names), s]},
                                  repr((c.exterior_domains, c.enclosed_domains)), repr((exd, end)))
            elif not (raises_sse('exterior_domains') and raises_sse('enclosed_domains')):
                res.violation('disconnected:views-after-split', {'op': ['ComplexS.exterior_domains after split', ' '.join(names), s]},
                              'no SecondaryStructureError', 'SecondaryStructureError')
            res.count('views_after_split')
            # the same views after the object was rotated (tables populated before the rotation), enclosed read first
            nstr = len(strands)
            if connected and nstr > 1:
                k = rng.randrange(1, nstr)
                _ = (c.exterior_domains, c.enclosed_domains, list(c.pair_table))
                c.turns = c.turns + k
                s2 = ''.join(c.structure)
                st2 = s2.split('+')
                li2, ext2, _c2 = ref.ref_loops(st2)
                pt2 = ref.ref_pair_table(s2)
                exd2 = [(si, di) for si, row in enumerate(pt2) for di, p in enumerate(row) if p is None and li2[si][di] in ext2]
                end2 = [(si, di) for si, row in enumerate(pt2) for di, p in enumerate(row) if p is None and li2[si][di] not in ext2]
                # domain-level views of the rotated object: every locus holds the domain the current sequence names there,
                # and complementarity is a property of the complex, not of the rotation
                seq2 = [str(x) for x in c.sequence]
                rows2, cur = [], []
                for x in seq2:
                    if x == '+':
                        rows2.append(cur); cur = []
                    else:
                        cur.append(x)
                rows2.append(cur)
                bad_dom = [(si, di) for si, row in enumerate(rows2) for di, nm in enumerate(row) if str(c.get_domain((si, di))) != nm
                           or c.strand_length(si) != len(row)]
                if bad_dom:
                    res.violation('get_domain:after-rotation', {'op': ['ComplexS.get_domain after turns', ' '.join(names), s, 'turns+=%d' % k]},
                                  'loci %r do not hold the domain of the current sequence %s' % (bad_dom[:3], ' '.join(seq2)), 'the domains of the current sequence')
                if c.is_domainlevel_complement != dlc:
                    res.violation('is_domainlevel_complement:after-rotation', {'op': ['ComplexS.is_domainlevel_complement after turns', ' '.join(names), s, 'turns+=%d' % k]},
                                  repr(c.is_domainlevel_complement), repr(dlc))
                dlc_ops.append(('dlc', ' '.join(seq2), s2)); dlc_impl.append('ok %s' % c.is_domainlevel_complement)
                got_en = list(c.enclosed_domains)
                got_ex = list(c.exterior_domains)
                if got_en != end2 or got_ex != exd2:
                    res.violation('exterior_domains:after-rotation', {'op': ['ComplexS.enclosed_domains after turns', ' '.join(names), s, 'turns+=%d' % k]},
                                  repr((got_ex, got_en)), repr((exd2, end2)))
                res.count('views_after_rotation')
            del c
        except Exception as e:
            res.violation('ComplexS-views:raises:' + type(e).__name__, {'op': ['ComplexS.views', ' '.join(names), s]}, type(e).__name__, 'views computed')
    clear_singletons(ComplexS)
    impl = [cu.impl_op(cux, op) for op in ops]
    cu.rerun_sample(res, 'complex_utils', ops, impl, lambda op: cu.impl_op(cux, op), rng)
    lines = ['\t'.join(op) for op in ops]
    try:
        model = core.run_driver(lines)
        core.compare_streams(res, 'complex_utils.loop_index', lines, impl, model)
    except core.DriverBroken as e:
        proof.problem('driver', str(e))
    try:
        dl = ['\t'.join(op) for op in dlc_ops]
        core.compare_streams(res, 'ComplexS.is_domainlevel_complement', dl, dlc_impl, core.run_driver(dl))
    except core.DriverBroken as e:
        proof.problem('driver', str(e))
    # the source-derived make_loop_index on the same inputs, and on ARBITRARY tables (partners out of range, asymmetric,
    # crossing): there the translation must fail exactly like the code (IndexError from the empty stack, ...)
    xops = []
    for _ in range(400 if res.tier == 'quick' else 4000):
        ns = rng.randint(1, 3)
        lens = [rng.randint(0, 3) for _ in range(ns)]
        tab = [[(None if rng.random() < 0.5 else (rng.randint(0, ns), rng.randint(0, 3))) for _ in range(l)] for l in lens]
        xops.append(('loop.pt', cu.show_pt(tab), rng.choice('01')))
    ximpl = [cu.impl_op(cux, op) for op in xops]
    res.evaluations += len(xops)
    cu.source_derived_stream(res, proof, 'complex_utils.loop_index.source-derived', ops + xops, impl + ximpl)
    from .pycomplex2_stream import source_derived_pycomplex2
    core.run_stream(source_derived_pycomplex2, res, proof)      # is_domainlevel_complement / split as translated from the working tree
    for op in ops[::max(1, len(ops) // 8)]:
        res.sample('\t'.join(op))


def replay(body, repo):
    return cu.replay(body, repo)
