"""C04 — domain complementarity: involutive, unique, always of equal length; dtype rules."""
import itertools, random
from .. import core, hist, world as W
from .c01 import handles_ok, fix_disagreements

MODULES = ['DsdVerif.Props.C04', 'DsdVerif.Props.PyDomain', 'DsdVerif.Props.PyDomain2', 'DsdVerif.Props.PyDomain3', 'DsdVerif.Props.PyMembers', 'DsdVerif.Props.PyDomain4', 'DsdVerif.Props.PyMembers2', 'DsdVerif.Props.PyDomain5', 'DsdVerif.Props.PyDomain6']
GEN_FILES = ['PyExprs', 'PyDomain', 'PySingleton', 'PyMembers', 'PyMembers2']
THEOREM_NAMES = ['domwf_init', 'domwf_request', 'domwf_drop', 'domwf_invert', 'complement_lengths_agree', 'conflict_raises',
                 'invert_involutive', 'dtype_rule', 'dtype_default_lengths', 'dtype_length_contradiction',
                 # the full model of DomainS.identifiers with its nested requests and temporary objects (Model/DomainFull.lean)
                 'domainRequestFullT_eq', 'domainRequestFull_eq', 'domainRequestFull_eq_of_lt', 'no_trace_of_temporaries', 'no_trace_objs',
                 'domwf_requestFull']
THEOREMS = ['Dsd.C04.' + t for t in THEOREM_NAMES] + ['Dsd.PyExprs.py_dtype_eq_model'] + \
    ['Dsd.PyDomain.' + t for t in (
        # DomainS.identifiers as written in the source (translator/pydomain.py -> Gen/PyDomain.lean; the nested `cls(...)` requests are a
        # parameter). PARTIAL: its equality with Model/DomainFull is not proved yet; what is proved is the refusal clause and a kernel-checked history
        'py_identifiers_dtype_length_contradiction', 'model_refuses_same', 'history_with_temporaries')] + \
    ['Dsd.PyDomain2.' + t for t in (
        # the representation relation between the translated class state and the registry model, the death of an object, and the equality of the
        # translated identifiers with the model for two of its four branches (starred name with a length; plain name without)
        'rep_init', 'py_drop_eq', 'py_lenTemp_eq', 'py_identifiers_starred_length', 'py_identifiers_plain_name')]
# DomainS.identifiers as written in the source equals the model in the remaining branches (unstarred name with a length: both nested requests; starred name without), for automatic names and dtype defaults
THEOREMS += ['Dsd.PyDomain3.' + t for t in ['py_identifiers_unstarred_length', 'py_identifiers_starred_nolength', 'py_identifiers_auto_name', 'py_identifiers_dtype_default']]
# the small DomainS members as written in the source (translator/pymembers.py -> Gen/PyMembers.lean): dtype rule, cname involution, ~d requests (cname, same length), bool(d) is length != 0
THEOREMS += ['Dsd.PyMembers.' + t for t in ['py_name_eq', 'py_length_eq', 'py_len_eq', 'py_domain_truth_value', 'py_zero_length_domain_falsy', 'py_dtype_eq_expr', 'py_dtype_eq_model', 'py_dtype_rule', 'py_is_complement_iff', 'py_empty_name_raises', 'py_cname_eq', 'py_cname_involutive', 'py_cname_star_not_involutive', 'py_complement_requests', 'py_invert_requests']]
# the last identifiers case (dtype with a consistent length) and the ingredients of the whole-request theorem: the request the stream runs, the translated Singleton.__call__ inside it, registration
THEOREMS += ['Dsd.PyDomain4.' + t for t in ['py_identifiers_dtype_consistent', 'py_requestPy_eq_driver', 'py_repX_rep', 'py_zoom_call', 'py_register_eq']]
# the whole DomainS.__init__ as written in the source: the name identifiers derived, ID + 1 exactly when no name was given, empty prefix is not None
THEOREMS += ['Dsd.PyMembers2.' + t for t in ['py_domain_init_eq', 'py_domain_init_after_identifiers', 'py_domain_init_empty_prefix', 'py_domain_init_default_length']]
# the branch theorems under the freshness of the temporary identity, one theorem for every request identifiers itself makes, the base case of the fuel induction (the step is open)
THEOREMS += ['Dsd.PyDomain5.' + t for t in ['py_identifiers_starred_length_F', 'py_identifiers_unstarred_length_F', 'py_identifiers_starred_nolength_F', 'model_identTail_fresh', 'py_identifiers_named', 'py_relatedF_zero']]
# one level of the nested request unfolded; the sub-case of the induction step in which no object is created (the creation sub-case is open)
THEOREMS += ['Dsd.PyDomain6.' + t for t in ['py_requestPy_succ', 'py_tail_not_created']]
ASSUMPTIONS = [
    'DomainS.identifiers is hand-modelled by its net effect (Model/Objects.lean: domainRequest); the temporary complement objects it '
    'creates and drops are modelled separately (Model/DomainFull.lean) and proved to have this net effect (Props/C04Full.lean)',
    'class settings (cutoff, default lengths, prefix, ID) are parameters of the model and are set on the real class by the harness',
]
MANIFEST = {
    'text': 'Full for the model: complement_lengths_agree is an invariant over all histories of requests / look-ups / complements / '
            'drops (no reachable registry holds x and x* with different lengths), conflict_raises in both orders, invert_involutive '
            '(~~d is d; ~d has the toggled name and the same length and is the registered object of that name), dtype_rule, '
            'dtype_default_lengths, dtype_length_contradiction; for every name, length (0 included since the repair 81557a1), dtype and class '
            'setting. The net-effect model these theorems are about is itself proved to be what the code does step by step: '
            'Model/DomainFull.lean follows DomainS.identifiers and Singleton.__call__ statement by statement - nested requests, '
            'try/except SingletonError shapes, temporary complement objects that are registered and die - and domainRequestFull_eq shows '
            'the same outcome, the same registry and the same ID counter for every request (names with at most one trailing star); '
            'no_trace_of_temporaries: nothing but the returned object is ever added. Kernel-checked differences outside that range '
            '(a double star, the name "*") are kept as findings in Props/C04Full.lean. Tied to DomainS by '
            'exhaustive histories over names {a, a*, auto}, lengths, dtypes and three class-setting variants plus random histories; '
            'the invariant is also checked directly on the real registry after every step.',
    'note': 'DomainS.dtype is translated from the source on every run and proved equal to the model\'s dtypeOf (py_dtype_eq_model). trusted base as in DESIGN.md 3.',
    'source_derived': "FROM THE SOURCE, PARTIAL (since batch 8): translator/pydomain.py transcribes DomainS.identifiers statement by statement from the working tree (Gen/PyDomain.lean; the nested cls(...) requests are a parameter, temporaries die when consumed as in Model/DomainFull); its equality with the statement-level model is NOT proved yet - proved are PyDomain.py_identifiers_dtype_length_contradiction (a contradictory dtype and length raises ObjectInitError before any nested request, for every request parameter, the class unchanged), model_refuses_same and the kernel-checked history_with_temporaries; the whole translated request (translated identifiers + translated Singleton.__call__ tied by a hand-written recursion in DriverDomain.lean) is executed against the real class after every step of C04's op alphabet (stream DomainS.request.source-derived, 24 000 steps per quick run).",
    'technique': 'Lean 4 invariant proof over histories of the domain registry; correspondence check on histories',
}

CFGS = [(8, 5, 15), (4, 3, 10), (20, 7, 30), (5, 3, 12), (9, 4, 11)]     # the last two: a requested length ON the cut-off


def alphabet():
    ops = []
    for name in ('a', 'a*', '-'):
        for ln in ('5', '9', '-'):
            for dt in ('-', 'short', 'long'):
                ops.append('mk.dom\t0\t%s\t%s\t-\t%s' % (name, ln, dt))
    # the complement of the NEXT automatic name (prefix d, ID 1) declared explicitly, with either length
    ops += ['mk.dom\t0\td1*\t5\t-\t-', 'mk.dom\t0\td1*\t9\t-\t-', 'mk.dom\t0\td1\t-\t-\tlong']
    # automatic names with an EMPTY prefix (numeric names), with and without dtype
    ops += ['mk.dom\t0\t-\t5\t\t-', 'mk.dom\t0\t-\t-\t\tlong', 'mk.dom\t0\t1*\t5\t-\t-', 'mk.dom\t0\t1*\t9\t-\t-']
    # length 0: a degenerate but accepted length; the complement rule applies to it like to any other length
    ops += ['mk.dom\t0\ta*\t0\t-\t-', 'mk.dom\t0\ta\t0\t-\t-']
    # keywords passed explicitly as None (what a forwarding wrapper does): the same requests as with the keyword omitted
    ops += ['mk.dom\t0\ta*\tN\t-\tN', 'mk.dom\t0\ta\tN\t-\t-', 'mk.dom\t0\ta*\tN\t-\tshort']
    ops += ['inv\th0', 'inv\th1', 'drop\th0', 'drop\th1']
    return ops


def model_line(l):
    """the model does not distinguish an omitted keyword from an explicit None"""
    f = l.split('\t')
    if f[0] == 'mk.dom':
        f = [('-' if x == 'N' else x) for x in f]
    return '\t'.join(f)


def dtype_all(iw, res, hl):
    """every live domain reports the dtype its length has under the CURRENT class cut-off"""
    for h, o in list(iw.held.items()):
        if type(o) in iw.classes['dom'] and o.length is not None:
            want = 'short' if o.length <= type(o).DTYPE_CUTOFF else 'long'
            try:
                got = o.dtype
            except Exception as e:
                got = 'raises ' + type(e).__name__; e = None
            if got != want:
                res.violation('dtype-rule:live-domain', {'history': list(hl)}, 'h%d %r has dtype %r (length %r, cut-off %d)' % (h, o, got, o.length, type(o).DTYPE_CUTOFF), want)
                return


def oracle_after(iw, line, out, res, hist_lines):
    """independent statement of the dtype / complement rules on the object just returned"""
    if not out.startswith('ret h'):
        f = model_line(line).split('\t')
        if f[0] == 'mk.dom' and f[3] != '-' and f[5] != '-':
            cut = iw.classes['dom'][int(f[1])].DTYPE_CUTOFF
            contradictory = (f[5] == 'short') != (int(f[3]) <= cut)
            if contradictory and out != 'err ObjectInitError':
                res.violation('dtype-length-contradiction-accepted', {'history': hist_lines}, out, 'err ObjectInitError')
        return
    o = iw.held[int(out.split(' ')[1][1:])]
    cls = type(o)
    f = model_line(line).split('\t')
    if o.length is not None:
        want = 'short' if o.length <= cls.DTYPE_CUTOFF else 'long'
        if o.dtype != want:
            res.violation('dtype-rule', {'history': hist_lines}, '%r has dtype %r' % (o, o.dtype), want)
    if f[0] == 'mk.dom' and f[3] != '-' and o.length != int(f[3]):
        res.violation('length-not-as-requested', {'history': hist_lines}, '%r has length %r' % (o, o.length), 'length %s' % f[3])
    if f[0] == 'mk.dom' and f[5] != '-' and o.length is not None and o.dtype != f[5]:
        res.violation('dtype-not-as-requested', {'history': hist_lines}, '%r has dtype %r' % (o, o.dtype), 'dtype %s (or ObjectInitError)' % f[5])
    if f[0] == 'mk.dom' and out.endswith('new') and f[3] == '-' and f[5] != '-':
        want = cls.SHORT_DOM_LEN if f[5] == 'short' else cls.LONG_DOM_LEN
        if o.length != want:
            res.violation('dtype-default-length', {'history': hist_lines}, repr(o), 'length %d' % want)
    if o.length is not None:
        try:
            c = ~o
        except Exception as e:
            res.violation('invert-raises:' + type(e).__name__, {'history': hist_lines}, '~%r raised %s' % (o, type(e).__name__),
                          'the complement with the toggled name and the same length')
            return
        ok = (c.name == (o.name[:-1] if o.name.endswith('*') else o.name + '*')) and c.length == o.length and (~c is o) \
            and cls._instanceNames.get(c.name) is c
        if not ok:
            res.violation('invert-involutive', {'history': hist_lines}, '~%r = %r, ~~ is d: %s' % (o, c, ~c is o),
                          'toggled name, same length, ~~d is d, registered')
        del c


def run(res, proof):
    rng = random.Random(res.seed * 7907 + 4)
    iw = W.ImplWorld()
    quick = res.tier == 'quick'
    ops = alphabet()
    lines, impl = [], []
    n_hist = 0

    def run_one(cfg, combo):
        nonlocal n_hist
        pre = ['reset', 'cfg.dom\t0\t%d\t%d\t%d' % cfg]
        hl = list(pre)
        ho = hist.run_checked(iw, pre, res, 'C04', check_domains=True)
        for l in combo:
            if l.startswith('cfg.dom'):
                hl.append(l); ho.append(iw.do(l))
                dtype_all(iw, res, hl)
                continue
            if not handles_ok(l, iw.held):
                return
            o = hist.run_checked(iw, [l], res, 'C04', check_domains=True, prefix=hl)[0]
            hl.append(l); ho.append(o)
            hl.append('names'); ho.append(iw.do('names'))
            try:
                oracle_after(iw, l, o, res, hl)      # may create complements: mirror that in the history
            except Exception as e:
                res.violation('complement-api-raises:' + type(e).__name__, {'history': list(hl)}, type(e).__name__ + ' while taking complements of the returned domain',
                              '~d and ~~d never raise for a live domain')
                e = None
                return
            dtype_all(iw, res, hl)
            bad = hist.domain_lengths_agree(iw)
            if bad:
                res.violation('complement-length-mismatch', {'history': list(hl)}, bad, 'a domain and its complement have equal length')
                return
            if o.startswith('ret h') and iw.held[int(o.split(' ')[1][1:])].length is not None:
                h = o.split(' ')[1]
                l2 = 'inv\t' + h
                o2 = iw.do(l2)
                hl.append(l2); ho.append(o2)
                if o2.startswith('ret h'):
                    l3 = 'drop\t' + o2.split(' ')[1]
                    if o2.split(' ')[1] != h and o2.endswith('new'):
                        hl.append(l3); ho.append(iw.do(l3))
        n_hist += 1
        res.evaluations += 1
        if any(x.startswith('err') for x in ho):
            res.nontriv(tuple(hl))
        lines.extend(hl); impl.extend(ho)
        if len(res.samples) < 4 and len(combo) >= 2 and any(x.startswith('err') for x in ho):
            res.sample(hl)

    depth = 2 if quick else 3
    for cfg in CFGS:
        for d in range(1, depth + 1):
            for combo in itertools.product(ops, repeat=d):
                run_one(cfg, combo)
    # class settings changed while domains are alive: op, new settings, op
    for cfg in CFGS:
        for cfg2 in CFGS:
            if cfg2 == cfg:
                continue
            for a in ops:
                for b in (ops if not quick else rng.sample(ops, 8)):
                    run_one(cfg, [a, 'cfg.dom\t0\t%d\t%d\t%d' % cfg2, b])
    for _ in range(2500 if quick else 40000):
        cfg = rng.choice(CFGS)
        combo = [rng.choice(ops) for _ in range(rng.randint(3, 6))]
        if rng.random() < 0.3:
            combo.insert(rng.randrange(1, len(combo)), 'cfg.dom\t0\t%d\t%d\t%d' % rng.choice(CFGS))
        run_one(cfg, combo)
    iw.reset()
    res.dist['histories'] = n_hist
    res.rule = ('exhaustive histories of depth <= %d over 37 ops (incl. keywords passed explicitly as None), histories that change the class settings between two requests, (names a / a* / automatic x lengths 5 / 9 / none x dtype none / short / '
                'long, complement of the first two handles, drops) x 3 class-setting variants, plus seeded random histories of length '
                '3-6; after every successful request the complement is taken and dropped again; non-trivial = at least one refused '
                'request; distinct by (settings, op sequence)' % depth)
    res.exhaustive = True
    try:
        model = core.run_driver([model_line(l) for l in lines])
        core.compare_streams(res, 'histories.domains', lines, impl, model)
        if res.disagreements:
            fix_disagreements(res, lines, impl, model)
    except core.DriverBroken as e:
        proof.problem('driver', str(e))
    # DomainS(...) as translated from the working tree (identifiers: Gen/PyDomain.lean, Singleton.__call__: Gen/PySingleton.lean, tied by a
    # hand-written fuel-bounded recursion in DriverDomain.lean) against the real class on the same op alphabet, after every step
    from .pydomain_stream import source_derived_pydomain
    core.run_stream(source_derived_pydomain, res, proof)
    from .pymembers_stream import source_derived_pymembers
    core.run_stream(source_derived_pymembers, res, proof)
    from .pymembers2_stream import source_derived_pymembers2
    core.run_stream(source_derived_pymembers2, res, proof)


def replay(body, repo):
    return hist.replay_history(body, repo)
