"""Stream `SequenceConstraint-methods.source-derived`: the legacy `SequenceConstraint` (dsdobjects/core/deprecated.py) as TRANSLATED from the
source (translator/pylegacy4.py -> Gen/PyLegacySeq.lean, driver ops `ls.*`) against the real class: random IUPAC sequences for both
molecules (and texts outside the alphabet: KeyError), every view before and after in-place `add_constraint` calls (compatible,
incompatible, wrong length), the views asked in any order and repeatedly (a cached complement would show)."""
import random, warnings
from .. import core
from .pylegacy_stream import show_err

STREAM = 'SequenceConstraint-methods.source-derived'
VIEWS = ['constraint', 'complement', 'wc_complement', 'reverse_complement', 'reverse_wc_complement', 'len']


def source_derived_pylegacyseq(res, proof, run_driver=None):
    warnings.simplefilter('ignore')
    from dsdobjects.core import deprecated as dep
    rng = random.Random(res.seed * 49979687 + 2023)
    quick = res.tier == 'quick'
    lines, impl = [], []

    def q(o, h, v):
        lines.append('ls.q\t%d\t%s' % (h, v))
        try:
            r = len(o) if v == 'len' else getattr(o, v)
            impl.append("'%s'" % r)
        except Exception as e:
            impl.append(show_err(e))

    for h in range(400 if quick else 6000):
        mol = rng.choice(['DNA', 'RNA', 'DNA', 'RNA', 'XNA'])
        t = 'U' if mol == 'RNA' else 'T'
        full = 'ACG' + t + 'RYSMWKVHDBN'
        alpha = rng.choice([full, 'ACG' + t + 'N', full + 'TUx'])
        s = ''.join(rng.choice(alpha) for _ in range(rng.randint(0, 12)))
        lines.append('ls.new\t%d\t%s\t%s' % (h, s, mol))
        try:
            o = dep.SequenceConstraint(s, molecule=mol)
            impl.append('ok')
        except Exception as e:
            impl.append(show_err(e)); continue
        for v in rng.sample(VIEWS, rng.randint(1, 6)):
            q(o, h, v)
        for _ in range(rng.randint(1, 3)):
            kind = rng.randrange(4)
            if kind == 0:
                con = ''.join(rng.choice(full) for _ in range(len(s)))
            elif kind == 1:
                con = ''.join((c if rng.random() < 0.5 else 'N') for c in o.constraint)
            elif kind == 2:
                con = ''.join(rng.choice('N' + alpha) for _ in range(len(s) + rng.choice([-1, 1]) if len(s) else 1))
            else:
                con = ''.join(rng.choice(alpha) for _ in range(len(s)))
            lines.append('ls.add\t%d\t%s' % (h, con))
            try:
                o.add_constraint(con); impl.append('ok')
            except Exception as e:
                impl.append(show_err(e))
            for v in rng.sample(VIEWS, rng.randint(2, 6)):
                q(o, h, v)
            q(o, h, 'complement'); q(o, h, 'complement')
        res.count('pylegacyseq_' + mol)
    model = (run_driver or core.run_driver)(lines)
    hist, start = [], 0
    for i, l in enumerate(lines):
        if l.startswith('ls.new'):
            start = i
        hist.append(start)
    inputs = [lines[hist[i]:i + 1] if impl[i] != model[i] else l for i, l in enumerate(lines)]
    core.compare_streams(res, STREAM, inputs, impl, model)
    res.sample(lines[:12])
    return len(lines)


if __name__ == '__main__':
    import sys
    repo = sys.argv[1]
    sys.path.insert(0, repo)
    def private(lines):
        rc, out, err = core.sh(['lake', 'env', 'lean', '--run', 'MainLegacySeq.lean'], cwd=core.LEAN, input='\n'.join(lines) + '\n', timeout=1200)
        if rc != 0:
            raise core.DriverBroken((out + err)[-3000:])
        r = out.split('\n')
        if r and r[-1] == '':
            r.pop()
        return r
    res = core.Result('C20', sys.argv[3] if len(sys.argv) > 3 else 'quick', int(sys.argv[2]) if len(sys.argv) > 2 else 1, repo)
    n = source_derived_pylegacyseq(res, None, run_driver=private)
    print('lines', n, 'disagreements', len(res.disagreements), res.dist)
    for d in res.disagreements[:3]:
        print(str(d)[:600])
    sys.exit(1 if res.disagreements else 0)
