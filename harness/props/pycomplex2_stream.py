"""`ComplexS.is_domainlevel_complement` and `ComplexS.split` as translated from the working tree (translator/pycomplex2.py ->
Gen/PyComplexS2.lean) against the real property / generator.

`source_derived_pycomplex2(res, proof)` runs the REAL code in-process and the TRANSLATED definitions through the driver ops `pyc2.dlc` /
`pyc2.split` (lean/DsdVerif/DriverComplexS2.lean) and compares the answer streams (`ComplexS-methods2.source-derived`): a disagreement
means that the translator's reading of Python is wrong for some statement - or that the code changed under it.

  is_domainlevel_complement   the C08 harness's structures (`c08.structures`: exhaustive small + random), labelled like C08 does
        (complementary labels or random ones over a, b, a*, c*, …; domains of length 5 and of length ZERO - a zero-length domain is a
        falsy object), on `ComplexS` and on a user subclass; the driver gets what the OBJECT holds (`_sequence` as names, structure,
        `turns`), the lengths of the registered domains as `lenOf`, and the name toggle keeping the length as `invert`.  For complexes
        with several strands also: the property, then `turns = k`, then the property again (tables cached before the rotation).
  split   the C09 harness's structures (`c09.structures`) with C09-like labels, on a subclass whose metaclass RECORDS every
        `self.__class__(nseq, nsst)` request of the real run (arguments and outcome: the object, or the SingletonError with / without
        `existing`) and for some requests INJECTS a refusal (a test double of the registry: `existing` = an object made before, or none).
        The table of the recorded requests is the PARAMETER `request` of the translated generator; objects are numbered h0, h1, … in
        the order of their first appearance.  Complexes already registered (components requested twice) exercise the real
        `existing` path.  Runs where one (sequence, structure) request had two different outcomes are not a function `request` and are
        counted and skipped.
"""
import os
import random
from .. import core, gen

STREAM = 'ComplexS-methods2.source-derived'


def run_c2_driver(lines):
    """the driver with `stepComplexS2` wired in (Main.lean); before the integration, the private loop MainComplexS2.lean"""
    wired = 'stepComplexS2' in open(os.path.join(core.LEAN, 'DsdVerif', 'Driver.lean'), encoding='utf-8').read()
    if wired:
        return core.run_driver(lines)
    data = '\n'.join(lines) + '\n'
    rc, out, err = core.sh(['lake', 'env', 'lean', '--run', 'MainComplexS2.lean'], cwd=core.LEAN, input=data, timeout=1200)
    if rc != 0:
        raise core.DriverBroken((out + err)[-3000:])
    got = out.split('\n')
    if got and got[-1] == '':
        got.pop()
    if len(got) != len(lines):
        raise core.DriverBroken('driver returned %d lines for %d requests; tail: %s' % (len(got), len(lines), got[-3:]))
    return got


def nm(x):
    return x if isinstance(x, str) else x.name


def show_exc(e):
    if type(e).__name__ == 'SingletonError':
        return 'err SingletonError existing=' + ('none' if getattr(e, 'existing', None) is None else 'obj')
    return 'err ' + type(e).__name__


def dlc_ops(res, rng, quick):
    from dsdobjects import clear_singletons
    from dsdobjects.base_classes import ComplexS, DomainS
    from . import c08
    clear_singletons(DomainS)
    SUB = type('MyComplex2', (ComplexS,), {})
    doms = {n: DomainS(n, l) for n, l in (('a', 5), ('b', 0), ('c', 0), ('d', 7))}
    doms.update({n + '*': ~d for n, d in list(doms.items())})
    lens = ' '.join('%s=%d' % (n, d.length) for n, d in doms.items())
    structs = [s for s in c08.structures(res, rng) if len(s) <= 40]
    if quick:
        structs = [s for s in structs if len(s) <= 6 or rng.random() < 0.35]
    lines, impl = [], []
    for s in structs:
        mode = rng.random()
        if mode < 0.45:
            names = gen.complementary_label(s, rng, ['a', 'b', 'c'])
        elif mode < 0.6:
            names = gen.complementary_label(s, rng, ['b', 'c'])            # zero-length domains only
        else:
            names = gen.label(s, rng, ['a', 'b', 'a*', 'c*', 'b*', 'd'])
        seq = [doms[x] if x != '+' else '+' for x in names]
        K = ComplexS if rng.random() < 0.7 else SUB
        clear_singletons(ComplexS); clear_singletons(K)
        try:
            c = K(seq, list(s), name='X')
        except Exception as e:
            res.count('pyc2:dlc_unconstructible'); e = None
            continue
        held = ' '.join(nm(x) for x in c._sequence)
        sst = ''.join(c._structure)
        t0 = c.turns
        k = '-'
        nstr = s.count('+') + 1
        if nstr > 1 and rng.random() < 0.5:
            k = str(rng.randrange(0, nstr + 1))
        def prop():
            try:
                return 'ok %s' % c.is_domainlevel_complement
            except Exception as e:
                return show_exc(e)
        out = prop()
        if k != '-':
            try:
                c.turns = int(k)
                mid = 'ok'
            except Exception as e:
                mid = show_exc(e); e = None
            out = '%s | set %s | %s' % (out, mid, prop())
        lines.append('\t'.join(['pyc2.dlc', held, sst, str(t0), lens, k])); impl.append(out)
        res.count('pyc2:dlc' + ('_rotated' if k != '-' else ''))
        res.count('pyc2:dlc_' + out.split(' ')[1])
        del c
    return lines, impl


def split_ops(res, rng, quick):
    from dsdobjects import clear_singletons
    from dsdobjects.singleton import Singleton, SingletonError
    from dsdobjects.base_classes import ComplexS, DomainS
    from . import c09

    class RecMeta(Singleton):
        def __call__(cls, *args, **kw):
            rec = cls.__dict__.get('_rec')
            if not rec or not rec.get('on') or len(args) != 2 or kw:
                return super().__call__(*args, **kw)
            key = (' '.join(nm(x) for x in args[0]), ''.join(args[1]))
            inj = rec['inject'](key)
            try:
                if inj == 'none':
                    raise SingletonError('injected refusal')
                if inj == 'existing':
                    raise SingletonError('injected refusal', existing=rec['spare'])
                o = super().__call__(*args, **kw)
            except SingletonError as e:
                rec['calls'].append((key, 'err', e.existing))
                raise
            rec['calls'].append((key, 'ok', o))
            return o
    K = RecMeta('RecComplex', (ComplexS,), {'_rec': None})
    clear_singletons(DomainS)
    doms = {n: DomainS(n, l) for n, l in (('a', 5), ('b', 0), ('c', 3), ('d', 7))}
    doms.update({n + '*': ~d for n, d in list(doms.items())})
    structs = [s for s in c09.structures(res, rng) if len(s) <= 40]
    if quick:
        structs = [s for s in structs if len(s) <= 6 or rng.random() < 0.3]
    lines, impl = [], []
    for s in structs:
        names = gen.complementary_label(s, rng, ['a', 'b', 'c']) if rng.random() < 0.6 else gen.label(s, rng, ['a', 'b', 'a*', 'c*', 'd'])
        seq = [doms[x] if x != '+' else '+' for x in names]
        if rng.random() < 0.6:
            clear_singletons(K)                                   # otherwise: components of earlier complexes are still registered
        K._rec = None
        try:
            c = K(seq, list(s))
            spare = K([doms['d']], ['.'])
        except Exception as e:
            res.count('pyc2:split_unconstructible'); e = None
            continue
        p_inj = rng.choice((0.0, 0.0, 0.15, 0.4))
        salt = rng.random()
        def inject(key, p_inj=p_inj, salt=salt):
            r = random.Random(repr((key, salt))).random()
            return 'none' if r < p_inj / 2 else 'existing' if r < p_inj else None
        handles, keep = {}, []
        def h(o):
            if id(o) not in handles:
                handles[id(o)] = len(handles); keep.append(o)
            return 'h%d' % handles[id(o)]
        K._rec = {'on': True, 'calls': [], 'inject': inject, 'spare': spare}
        parts = None
        try:
            parts = list(c.split())
            out = 'ok' + ''.join(' ' + h(p) for p in parts)
        except SingletonError as e:
            out = 'err SingletonError existing=' + ('none' if e.existing is None else h(e.existing))
        except Exception as e:
            out = 'err ' + type(e).__name__
        calls = K._rec['calls']
        K._rec = None
        table, seen, functional = [], {}, True
        for key, kind, o in calls:
            ans = h(o) if kind == 'ok' else ('E' if o is None else 'E' + h(o))
            eff = ans.lstrip('E') if ans != 'E' else 'E'           # `h3` and `Eh3` both make the generator yield h3
            if key in seen and seen[key] != eff:
                functional = False
            seen.setdefault(key, eff)
            table.append('%s,%s,%s' % (key[0], key[1], ans))
        if not functional:
            res.count('pyc2:split_request_not_a_function'); continue
        held = ' '.join(nm(x) for x in c._sequence)
        lines.append('\t'.join(['pyc2.split', held, ''.join(c._structure), str(c.turns), ';'.join(table)])); impl.append(out)
        res.count('pyc2:split'); res.count('pyc2:split_requests', len(calls))
        res.count('pyc2:split_refusals_existing', sum(1 for _, k2, o in calls if k2 == 'err' and o is not None))
        res.count('pyc2:split_refusals_none', sum(1 for _, k2, o in calls if k2 == 'err' and o is None))
        del parts, keep, c, spare
    return lines, impl


def source_derived_pycomplex2(res, proof):
    rng = random.Random(res.seed * 9090109 + 89)
    quick = res.tier == 'quick'
    l1, i1 = dlc_ops(res, rng, quick)
    l2, i2 = split_ops(res, rng, quick)
    lines, impl = l1 + l2, i1 + i2
    try:
        out = run_c2_driver(lines)
    except core.DriverBroken as e:
        proof.problem('driver', 'pycomplex2 stream: ' + str(e))
        return
    core.compare_streams(res, STREAM, lines, impl, out)
    res.dist['pyc2:ops'] = len(lines)
    for l in (l1[:2] + l2[:2]):
        res.sample(l[:200])
