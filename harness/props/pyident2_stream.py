"""`MacrostateS.identifiers` / `ReactionS.identifiers` as TRANSLATED from the working tree (Gen/PyIdentifiers2.lean) against the real ones.

`source_derived_pyident2(res, proof)`: a pool of real `ComplexS` objects (names chosen so that the order of the names differs from the
order of the canonical forms) and of real `MacrostateS` objects over them; the real classmethods are called directly on every
sublist (up to a bounded length, every order, repetitions included) of members, with and without a name (a member's, a foreign one,
the empty one), with `None` arguments; the translated functions are run through the driver ops `pyident2.macro` / `pyident2.rxn`
(lean/DsdVerif/DriverIdent2.lean) on the members read as (name, canonical form).  `(canon, name, nargs)` resp. the exception class
must agree.  Mixed lists of complexes and macrostates (AssertionError out of `sorted`) are part of the reaction inputs.
"""
import itertools, random, subprocess
from .. import core


def enc_opt(x):
    return 'none' if x is None else 's:' + x


def show_key(k):
    return ' '.join(k[0]) + '|' + ''.join(k[1])


def show_form(cf):
    """canonical form of a complex (names, structure) or of a macrostate (tuple of complexes)"""
    if len(cf) == 2 and isinstance(cf[0], tuple) and all(isinstance(x, str) for x in cf[0]):
        return 'C:' + show_key(cf)
    return 'M:' + '/'.join(show_key(c.canonical_form) for c in cf)


def show_members(ms):
    return '[' + ','.join('%s@%s' % (m.name, show_key(m.canonical_form)) for m in ms) + ']'


def show_rkey(k):
    return 'R[%s] P[%s] T=%s' % (','.join(show_form(f) for f in k[0]), ','.join(show_form(f) for f in k[1]), k[2])


def show_rec(f, d):
    assert set(d) <= {'canon', 'name'}, d
    return '{' + ('canon=' + f(d['canon']) if 'canon' in d else '') + (' name=%s' % (d['name'],) if 'name' in d else '') + '}'


def real_macro(K, members, name):
    try:
        canon, nm, nargs = K.identifiers(None if members is None else list(members), name)
    except Exception as e:
        out = 'err ' + type(e).__name__
        e = None
        return out
    f = lambda c: 'None' if c is None else show_members(c)
    return 'ok %s ; %s ; %s' % (f(canon), nm, show_rec(f, nargs))


def real_rxn(K, rs, ps, rtype, name):
    try:
        canon, nm, nargs = K.identifiers(None if rs is None else list(rs), None if ps is None else list(ps), rtype, name)
    except Exception as e:
        out = 'err ' + type(e).__name__
        e = None
        return out
    return 'ok %s ; %s ; %s' % ('None' if canon is None else show_rkey(canon), nm, show_rec(show_rkey, nargs))


def pool():
    """real complexes and macrostates (kept alive by the returned lists)"""
    from dsdobjects.base_classes import ComplexS, MacrostateS, ReactionS
    from dsdobjects.singleton import clear_singletons
    for K in (ReactionS, MacrostateS, ComplexS):
        clear_singletons(K)
    specs = [('Z', ['a'], '.'), ('Y', ['a', 'b'], '..'), ('B', ['b'], '.'), ('A', ['b', '+', 'a'], '(+)'), ('c10', ['a', 'a'], '..'),
             ('c9', ['a', '+', 'a'], '.+.'), ('Q', ['B'], '.')]
    cplx = [ComplexS(list(s), list(t), name=n) for n, s, t in specs]
    macro = [MacrostateS([cplx[0], cplx[2]], name='B'), MacrostateS([cplx[1]], name='Y'), MacrostateS([cplx[3], cplx[0], cplx[4]], name='c10'),
             MacrostateS([cplx[5], cplx[6]])]
    return cplx, macro


def macro_inputs(cplx, rng, quick):
    cases = []
    n = 3 if quick else 4
    for k in range(0, n + 1):
        for t in itertools.product(cplx[:5 if quick else 7], repeat=k):
            names = [None] + ([t[-1].name] if t else []) + ['nope']
            if rng.random() < 0.1:
                names.append('')
            for name in names:
                cases.append((list(t), name))
    for name in (None, 'Z', 'nope', ''):
        cases.append((None, name))
    return cases


def rxn_inputs(cplx, macro, rng, quick):
    cases = []
    cs, msx = (cplx[:4], macro[:3]) if quick else (cplx, macro)
    lists = [None, []]
    for pool_, frac in ((cs, 1.0), (msx, 1.0), (cs + msx, 0.25)):          # complexes only, macrostates only, mixed
        for k in (1, 2, 3):
            for t in itertools.product(pool_, repeat=k):
                if k < 3 and frac == 1.0 or rng.random() < frac * (0.3 if quick else 0.6):
                    lists.append(list(t))
    for rs in lists:
        for ps in ([None, [], [cplx[0]], [macro[0]], [cplx[2], cplx[0]], [macro[1], macro[0]], [cplx[1], macro[2]]] if quick or True else lists):
            rtype, name = rng.choice([('bind21', None), ('open', 'r1'), (None, None), ('condensed', ''), (None, 'r2'), ('', None)])
            cases.append((rs, ps, rtype, name))
    for rs in rng.sample(lists, min(len(lists), 60 if quick else 400)):
        ps = rng.choice(lists)
        cases.append((rs, ps, rng.choice(['bind11', None]), rng.choice([None, 'x'])))
    for name in (None, 'r', ''):
        for rtype in (None, 'open'):
            cases.append((None, None, rtype, name))
    return cases


def enc_members(ms):
    return 'none' if ms is None else 's:' + ';'.join('%s@%s' % (m.name, show_key(m.canonical_form)) for m in ms)


def enc_rmembers(ms):
    return 'none' if ms is None else 's:' + ';'.join('%s@%s' % (m.name, show_form(m.canonical_form)) for m in ms)


def source_derived_pyident2(res, proof, runner=None):
    from dsdobjects.base_classes import ComplexS, MacrostateS, ReactionS
    from dsdobjects.singleton import clear_singletons
    runner = runner or core.run_driver
    rng = random.Random(res.seed * 9176557 + 5)
    quick = res.tier == 'quick'
    cplx, macro = pool()
    lines, impl = [], []
    for ms, name in macro_inputs(cplx, rng, quick):
        lines.append('\t'.join(['pyident2.macro', enc_members(ms), enc_opt(name)]))
        impl.append(real_macro(MacrostateS, ms, name))
    nm = len(lines)
    rlines, rimpl = [], []
    for rs, ps, rtype, name in rxn_inputs(cplx, macro, rng, quick):
        rlines.append('\t'.join(['pyident2.rxn', enc_rmembers(rs), enc_rmembers(ps), enc_opt(rtype), enc_opt(name)]))
        rimpl.append(real_rxn(ReactionS, rs, ps, rtype, name))
    del cplx, macro
    for K in (ReactionS, MacrostateS, ComplexS):
        clear_singletons(K)
    ComplexS.ID = 1
    try:
        out = runner(lines + rlines)
    except core.DriverBroken as e:
        proof.problem('driver', 'source-derived identifiers (sets) stream: ' + str(e))
        return
    core.compare_streams(res, 'MacrostateS.identifiers.source-derived', lines, impl, out[:nm])
    core.compare_streams(res, 'ReactionS.identifiers.source-derived', rlines, rimpl, out[nm:])
    res.dist['source_derived_identifiers2_calls'] = len(lines) + len(rlines)
    for o in impl + rimpl:
        if o.startswith('err'):
            res.count('source_derived_identifiers2_' + o[4:])


def run_private_driver(lines, timeout=1200):
    """the ops of DriverIdent2.lean through the stand-alone lean/MainIdent2.lean (before they are wired into Driver.lean)"""
    data = '\n'.join(lines) + '\n'
    p = subprocess.run(['lake', 'env', 'lean', '--run', 'MainIdent2.lean'], cwd=core.LEAN, input=data, capture_output=True, text=True, timeout=timeout)
    if p.returncode != 0:
        raise core.DriverBroken((p.stdout + p.stderr)[-3000:])
    out = p.stdout.split('\n')
    if out and out[-1] == '':
        out.pop()
    if len(out) != len(lines):
        raise core.DriverBroken('driver returned %d lines for %d requests' % (len(out), len(lines)))
    return out


if __name__ == '__main__':
    # /venv/bin/python -m harness.props.pyident2_stream <repo> [quick|full]      (from the verif directory)
    import sys
    repo = sys.argv[1]
    core.use_repo(repo)
    res = core.Result('PYIDENT2', sys.argv[2] if len(sys.argv) > 2 else 'quick', 1, repo)
    class P:
        def problem(self, kind, detail):
            print('PROBLEM', kind, detail)
    source_derived_pyident2(res, P(), runner=run_private_driver)
    print('streams', res.streams, 'dist', res.dist)
    print('disagreements', len(res.disagreements))
    for d in res.disagreements[:8]:
        print(d)
    sys.exit(1 if res.disagreements else 0)
