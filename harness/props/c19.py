"""C19 — seesaw grammar: parsing inverts rendering."""
import os, random, tempfile, multiprocessing
from .. import core, pilgen as PG

MODULES = ['DsdVerif.Props.C19']
GEN_FILES = ['Grammars']
THEOREM_NAMES = ['run_fuel_mono', 'input_rt', 'output_fluor_rt', 'input_fluor_rejected', 'reporter_rt', 'reporter_arity_rejected',
                 'inputfanout_rt', 'seesaw_rt', 'wireconc_rt', 'negative_conc_rejected', 'input_ident_rt', 'output_wire_rt',
                 'input_wire_f_rt', 'gateO_conc_rt', 'gateI_conc_rt', 'thO_conc_rt', 'wireconc_decimal_rt', 'seesawOR_rt', 'seesawAND_rt',
                 'seesaw_missing_list_rejected', 'reporter_comment_rt', 'two_statements_rt',
                 'document_rt', 'document_leading_rt', 'document_open_rt', 'stmtText_reporter', 'stmtText_input', 'stmtText_input_ident',
                 'stmtText_input_wire_f', 'stmtText_output_fluor', 'stmtText_output_wire', 'stmtText_seesaw', 'stmtText_inputfanout',
                 'stmtText_seesawOR', 'stmtText_seesawAND', 'stmtText_wireconc', 'stmtText_wireconc_decimal', 'stmtText_gateO_conc',
                 'stmtText_gateI_conc', 'stmtText_thO_conc', 'ssw_document_layout_rt', 'ssw_document_layout_open_rt', 'ssw_document_tabs_rt', 'stmtTextT_reporter', 'stmtTextT_input',
                 'ssw_accepts_only_valid', 'input_binds_wire', 'conc_value_unsigned', 'reporter_arity', 'negative_concentration_rejected_general',
                 # every statement form, separators at every token boundary, general rejections
                 'input_layout', 'output_layout', 'seesaw_layout', 'conc_layout', 'reporter_layout', 'inputfanout_layout', 'seesawOR_layout',
                 'seesawAND_layout', 'kind_input', 'kind_output', 'kind_seesaw', 'kind_conc', 'kind_reporter', 'kind_inputfanout',
                 'kind_seesawOR', 'kind_seesawAND', 'conc_thI_gen_rt', 'conc_wire_gen_rt', 'seesaw_f_rt', 'input_gen_rt',
                 'wrong_arity_rejected', 'reporter_one_argument_rejected', 'negative_concentration_rejected_layout',
                 'ssw_every_layout', 'ssw_document_indent_rt']
THEOREMS = ['Dsd.C19.' + t for t in THEOREM_NAMES]
ASSUMPTIONS = [
    'pyparsing 3.3.2 is modelled by a hand-written interpreter (Model/Pyparsing.lean); the seesaw grammar term (Gen/Grammars.lean: '
    'ssw_grammar) is regenerated from seesaw_parser.py on every run; agreement with the real library by correspondence only',
    'legal layouts: blanks / tabs between any two tokens (not inside numbers, identifiers or keywords), trailing comments, blank and '
    'comment lines, LF or CRLF',
]
MANIFEST = {
    'text': 'Partial. The seesaw grammar is regenerated from seesaw_parser.py into a Lean term interpreted by the model of pyparsing. '
            'Proved for the regenerated grammar, for numbers of any length, brace lists of any length and any amount of blanks: every '
            'statement kind - input_rt, input_ident_rt, input_wire_f_rt, output_fluor_rt, output_wire_rt, reporter_rt, inputfanout_rt, '
            'seesaw_rt, seesawOR_rt, seesawAND_rt, wireconc_rt, wireconc_decimal_rt, gateO/gateI/thO_conc_rt -, a trailing comment without '
            'final newline, and the rejections input_fluor_rejected, reporter_arity_rejected, negative_conc_rejected, '
            'seesaw_missing_list_rejected. DOCUMENTS: document_rt - for ANY non-empty list of statement texts satisfying StmtText (proved '
            'for every statement kind: the 15 stmtText_* instances), each followed by its line end and any number of blank lines, the '
            'document parses to the list of the statements\' trees (concatenation, in order); document_leading_rt (leading blank lines), '
            'document_open_rt (no final newline), ssw_document_layout_rt (a comment after any statement, LF or CRLF line ends, any '
            'number of blank / comment-only lines before, between and after the statements, unterminated last line). ssw_document_tabs_rt (blank/tab separators; instances for reporter and input). REJECTIONS in general form: '
            'ssw_accepts_only_valid (whatever text the parser model accepts, every returned statement has one of the valid shapes '
            'SswValid: right arity and argument kinds), hence input_binds_wire (an INPUT is never bound to a fluorophore), '
            'reporter_arity, conc_value_unsigned, negative_concentration_rejected_general. COMPLETE: for every statement kind a summary '
            'theorem *_layout (blank/tab separators at EVERY token boundary of the statement, brace lists of any length, names as '
            'numbers or identifiers, concentrations in integer / decimal / scientific form for all five argument forms incl. thI, f in '
            'seesaw output lists), and general rejections at document level: wrong_arity_rejected (reporter with 1 or 3 arguments, '
            'seesaw without its second list, inputfanout without number / list - with any separators, after any well-formed '
            'statements, before any text) and negative_concentration_rejected_layout; ssw_every_layout: EVERY LEGAL LAYOUT in one statement (lines = blank / comment-only or '
            'indentation + statement of any kind with separators at every boundary + optional comment; LF / CRLF; unterminated last line). Scientific concentrations, thI and files are NOT theorems: they are decided on the real parser by a reference renderer, '
            'and the model is compared with pyparsing on the same texts, the systematic negative family and random mutations.',
    'note': 'pyparsing semantics is modelled by hand and tied by differential testing only.',
    'technique': 'Lean 4 symbolic execution of a pyparsing interpreter over the grammar regenerated from source (induction on list length); correspondence check; reference renderer oracle',
}


def num(rng):
    return str(rng.choice([0, 1, 2, 5, 10, 18, 53, 100])) if rng.random() < 0.8 else ''.join(rng.choice('0123456789') for _ in range(rng.randint(1, 5)))


def ident(rng):
    first = rng.choice('abcxyzABCfwgt')
    return first + ''.join(rng.choice('abcxyz0123456789_-') for _ in range(rng.randint(0, 5)))


def wire(rng):
    return ['w', [num(rng), num(rng) if rng.random() < 0.8 else 'f']]


def nlist(rng, allow_f=False):
    return [(num(rng) if not (allow_f and rng.random() < 0.2) else 'f') for _ in range(rng.randint(1, 5))]


def gorf(rng):
    return PG.rand_gorf(rng)


KINDS = ['INPUT', 'OUTPUT', 'seesaw', 'wireconc', 'gateconc', 'thconc', 'reporter', 'inputfanout', 'seesawOR', 'seesawAND']


def statement(rng, kind=None):
    kind = kind or rng.choice(KINDS)
    if kind == 'INPUT':
        return ['INPUT', [num(rng) if rng.random() < 0.5 else ident(rng)], wire(rng)]
    if kind == 'OUTPUT':
        return ['OUTPUT', [num(rng) if rng.random() < 0.5 else ident(rng)], wire(rng) if rng.random() < 0.5 else ['Fluor', num(rng)]]
    if kind == 'seesaw':
        return ['seesaw', [num(rng), nlist(rng), nlist(rng, True)]]
    if kind == 'wireconc':
        return ['conc', wire(rng), gorf(rng)]
    if kind in ('gateconc', 'thconc'):
        g = 'g' if kind == 'gateconc' else 'th'
        inner = [wire(rng), num(rng)] if rng.random() < 0.5 else [num(rng), wire(rng)]
        return ['conc', [g, inner], gorf(rng)]
    if kind == 'reporter':
        return ['reporter', [num(rng), num(rng)]]
    if kind == 'inputfanout':
        return ['inputfanout', [num(rng), num(rng), nlist(rng)]]
    return [kind, [num(rng), num(rng), nlist(rng), nlist(rng)]]


def r_wire(w, L):
    return 'w' + L.tight() + '[' + L.tight() + w[1][0] + L.tight() + ',' + L.opt() + w[1][1] + L.tight() + ']'


def r_list(l, L):
    return '{' + L.tight() + (L.tight() + ',' + L.opt()).join(l) + L.tight() + '}'


def r_args(args, L):
    out = []
    for a in args:
        out.append(r_list(a, L) if isinstance(a, list) else a)
    return '[' + L.tight() + (L.tight() + ',' + L.opt()).join(out) + L.tight() + ']'


def render(t, L):
    k = t[0]
    if k in ('INPUT', 'OUTPUT'):
        rhs = r_wire(t[2], L) if t[2][0] == 'w' else 'Fluor' + L.tight() + '[' + L.tight() + t[2][1] + L.tight() + ']'
        return k + L.tight() + '(' + L.tight() + t[1][0] + L.tight() + ')' + L.opt() + '=' + L.opt() + rhs
    if k == 'conc':
        tgt = t[1]
        if tgt[0] == 'w':
            s = r_wire(tgt, L)
        else:
            a, b = tgt[1]
            ra = r_wire(a, L) if isinstance(a, list) else a
            rb = r_wire(b, L) if isinstance(b, list) else b
            s = tgt[0] + L.tight() + '[' + L.tight() + ra + L.tight() + ',' + L.opt() + rb + L.tight() + ']'
        return 'conc' + L.tight() + '[' + L.tight() + s + L.tight() + ',' + L.opt() + t[2] + L.tight() + '*' + L.tight() + 'c' + L.tight() + ']'
    return k + L.tight() + r_args(t[1], L)


def negatives(rng, n):
    out = []
    L = PG.Layout(None)
    for _ in range(n):
        k = rng.random()
        if k < 0.1:
            t = statement(rng, 'INPUT'); t[2] = ['Fluor', num(rng)]
            out.append(('input-fluor', render(t, L) + '\n'))
        elif k < 0.2:
            # the fluorophore marker `f` is legal in output lists only
            kind = rng.choice(['seesaw', 'inputfanout', 'seesawOR', 'seesawAND'])
            t = statement(rng, kind)
            lists = [i for i, a in enumerate(t[1]) if isinstance(a, list)]
            li = lists[0] if kind == 'seesaw' else rng.choice(lists)
            t[1][li][rng.randrange(len(t[1][li]))] = 'f'
            out.append(('f-in-input-list:' + kind, render(t, L) + '\n'))
        elif k < 0.3:
            t = statement(rng, rng.choice(['wireconc', 'gateconc', 'thconc']))
            t[2] = '-' + t[2]
            out.append(('negative-conc', render(t, L) + '\n'))
        elif k < 0.4:
            # a gate / threshold is named by one wire and one node, in either order: two nodes or two wires is a wrong kind of argument
            t = statement(rng, rng.choice(['gateconc', 'thconc']))
            inner = t[1][1]
            i = rng.randrange(2)
            inner[i] = wire(rng) if not isinstance(inner[i], list) else num(rng)
            out.append(('gate-argument-kind:' + t[1][0], render(t, L) + '\n'))
        else:
            kind = rng.choice(['seesaw', 'reporter', 'inputfanout', 'seesawOR', 'seesawAND'])
            t = statement(rng, kind)
            args = t[1]
            m = rng.random()
            if m < 0.35:
                del args[rng.randrange(len(args))]; fam = 'arity:delete'
            elif m < 0.65:
                args.insert(rng.randrange(len(args) + 1), num(rng) if rng.random() < 0.5 else nlist(rng)); fam = 'arity:insert'
            else:
                i = rng.randrange(len(args))
                args[i] = nlist(rng) if not isinstance(args[i], list) else num(rng); fam = 'kind-swap'
            out.append((fam + ':' + kind, render(t, L) + '\n'))
    return out


def _parse_many(texts):
    from dsdobjects.dsdparser import parse_seesaw_string
    out = []
    for t in texts:
        try:
            out.append(('ok', parse_seesaw_string(t)))
        except Exception as e:
            out.append(('err', type(e).__name__))
    return out


def parse_all(texts, procs=16):
    chunks = [texts[i::procs * 4] for i in range(procs * 4)]
    ctx = multiprocessing.get_context('fork')
    with ctx.Pool(procs) as pool:
        res = pool.map(_parse_many, chunks)
    out = [None] * len(texts)
    for ci, r in enumerate(res):
        for k, v in enumerate(r):
            out[ci + k * procs * 4] = v
    return out


def canon(r):
    if r[0] == 'ok':
        return 'ok ' + PG.show(r[1])
    return 'err ' + ('ParseException' if r[1] == 'ParseException' else 'Fault ' + r[1])


def run(res, proof):
    rng = random.Random(res.seed * 8191 + 19)
    quick = res.tier == 'quick'
    cases = []
    for i in range(1500 if quick else 30000):
        kind = KINDS[i % len(KINDS)]
        t = statement(rng, kind)
        cases.append(('stmt:' + kind + ':canonical', render(t, PG.Layout(None)) + '\n', [t]))
        for _ in range(2 if quick else 6):
            cases.append(('stmt:' + kind + ':layout', render(t, PG.Layout(rng)) + PG.line_end(rng), [t]))
        if rng.random() < 0.2:
            cases.append(('stmt:' + kind + ':no-final-newline', render(t, PG.Layout(rng)), [t]))
    for _ in range(200 if quick else 4000):
        exp, txt = [], rng.choice(['', '\n', '# circuit\n\n'])
        for _ in range(rng.randint(2, 4 if quick else 8)):
            t = statement(rng)
            exp.append(t)
            txt += render(t, PG.Layout(rng)) + PG.line_end(rng)
        cases.append(('document', txt, exp))
    for fam, txt in negatives(rng, 400 if quick else 8000):
        cases.append(('negative:' + fam, txt, None))
    base = [c for c in cases if c[0].startswith('stmt')]
    for _ in range(1000 if quick else 20000):
        lab, txt, _ = rng.choice(base)
        i = rng.randrange(len(txt))
        k = rng.random()
        if k < 0.4:
            txt = txt[:i] + txt[i + 1:]
        else:
            txt = txt[:i] + rng.choice(' \t=[]{}(),*cwfgth5.e-#\n') + txt[i:]
        cases.append(('mutation', txt, 'unknown'))
    texts = [c[1] for c in cases]
    impl_raw = parse_all(texts)
    impl = [canon(r) for r in impl_raw]
    for (lab, txt, exp), r in zip(cases, impl_raw):
        res.evaluations += 1
        res.count(':'.join(lab.split(':')[:2]) if lab.startswith(('stmt', 'negative')) else lab)
        if exp == 'unknown':
            res.count('mutation_' + r[0]); continue
        res.nontriv(txt)
        if exp is None:
            if r[0] != 'err' or r[1] != 'ParseException':
                # an insertion / swap can accidentally produce another valid statement only if arities coincide: they never do here
                res.violation('accepts:' + lab, {'text': txt}, canon(r), 'err ParseException')
            continue
        if r[0] != 'ok' or r[1] != exp:
            res.violation('roundtrip:' + lab, {'text': txt}, canon(r), 'ok ' + PG.show(exp))
    from dsdobjects.dsdparser import parse_seesaw_string, parse_seesaw_file
    from . import cu
    # a parse result belongs to the caller: taking it apart in place must not change what the same text parses to next time
    for (lab, txt, exp) in [c for c in cases if c[2] is not None][:40 if quick else 400]:
        cu.fresh_results(res, 'parse_seesaw_string', lambda: parse_seesaw_string(txt), {'text': txt})
        res.count('result_ownership_checked')
    tmpdir = tempfile.mkdtemp(prefix='verif_c19_')
    try:
        for k, (lab, txt, exp) in enumerate([c for c in cases if c[0] == 'document'][:40 if quick else 300]):
            res.evaluations += 1
            p = os.path.join(tmpdir, 'same.ssw' if k % 3 else 'd%d.ssw' % k)      # rewritten in place, timestamp unchanged
            with open(p, 'w', newline='') as f:
                f.write(txt)
            os.utime(p, (1000000000, 1000000000))
            try:
                if parse_seesaw_string(txt) != parse_seesaw_file(p):
                    res.violation('file-differs-from-string', {'text': txt}, 'differ', 'equal')
            except Exception as e:
                res.violation('file-parse-raises:' + type(e).__name__, {'text': txt}, type(e).__name__, 'equal results')
            finally:
                os.unlink(p)
        # how a file ends: no line end after the last statement, blanks or a comment after it, empty lines after it — the
        # statements read are the same
        for k, (lab, txt, exp) in enumerate([c for c in cases if c[0] == 'document'][:25 if quick else 300]):
            base = txt.rstrip('\r\n \t')
            if '#' in base.rsplit('\n', 1)[-1]:
                continue
            want = parse_seesaw_string(base + '\n')
            for tail in ('', ' ', '\t ', ' # end', '#', '\n\n\n', '\n# end', '\r\n', '\n   ', ' # end\n# more'):
                res.evaluations += 1
                p = os.path.join(tmpdir, 'tail.ssw')
                with open(p, 'w', newline='') as f:
                    f.write(base + tail)
                try:
                    got = parse_seesaw_file(p)
                    if got != want:
                        res.violation('file-ending-changes-result', {'text': base + tail}, 'differs from the same statements with one line end', 'equal')
                except Exception as e:
                    res.violation('file-ending-raises:' + type(e).__name__, {'text': base + tail}, type(e).__name__, 'the same statements'); e = None
                finally:
                    os.unlink(p)
                res.count('file_endings')
        good = [c for c in cases if c[2] is not None and c[0] != 'document' and '\n' not in c[1].strip('\n')]
        bad = [c for c in cases if c[2] is None]
        for k in range(min(len(bad), 60 if quick else 600)):
            g1, g2, b = rng.choice(good), rng.choice(good), bad[k]
            txt = g1[1] + ('' if g1[1].endswith('\n') else '\n') + g2[1] + ('' if g2[1].endswith('\n') else '\n') + b[1]
            res.evaluations += 1
            p = os.path.join(tmpdir, 'neg.ssw')
            with open(p, 'w', newline='') as f:
                f.write(txt)
            outcomes = []
            for name, call in (('string', lambda: parse_seesaw_string(txt)), ('file', lambda: parse_seesaw_file(p))):
                try:
                    call(); outcomes.append((name, 'accepted'))
                except Exception as e:
                    outcomes.append((name, type(e).__name__)); e = None
            os.unlink(p)
            if any(o != 'ParseException' for _, o in outcomes):
                res.violation('malformed-later-statement-accepted:' + '/'.join('%s=%s' % o for o in outcomes), {'text': txt},
                              ', '.join('%s: %s' % o for o in outcomes), 'ParseException from both entry points')
            res.count('negative_documents_file_and_string')
    finally:
        os.rmdir(tmpdir)
    lines = ['ssw.parse\t' + PG.hx(t) for t in texts]
    try:
        model = core.run_driver(lines)
        res.streams['ssw.parse'] = len(lines)
        res.traces += len(lines)
        for (lab, txt, exp), a, b in zip(cases, impl, model):
            if a != b:
                res.disagree('ssw.parse', {'label': lab, 'text': txt}, a, b)
    except core.DriverBroken as e:
        proof.problem('driver', str(e))
    for c in cases[::max(1, len(cases) // 8)]:
        res.sample({'label': c[0], 'text': c[1]})
    res.rule = ('grammar-directed token trees of all 10 statement shapes (all list lengths 1-5, numeric forms, identifier shapes) x '
                'canonical + random layouts, documents, the negative family (INPUT = Fluor, negative concentration, argument deletion / '
                'insertion / kind swap for seesaw and the four macros), random single mutations (correspondence only); distinct by text')


def replay(body, repo):
    from dsdobjects.dsdparser import parse_seesaw_string
    txt = body['input']['text']
    try:
        out = 'ok ' + PG.show(parse_seesaw_string(txt))
    except Exception as e:
        out = 'err ' + type(e).__name__
    print('text     :', repr(txt)); print('observed :', out); print('required :', body.get('required'))
    return 1
