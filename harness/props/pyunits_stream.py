"""The unit / rate-constant arithmetic as translated from the working tree (translator/pyunits.py -> Gen/PyUnits.lean) against the
real functions.

`source_derived_pyunits(res, proof)` generates inputs with the C18 harness's own generators (harness/props/c18.py: `values`, the unit
name lists, `World` = reactions of arity 1..3 and complexes built through the real constructors), runs the REAL `utils.flint`,
`utils.convert_units`, `ReactionS.rate_constant` (setter / getter), `ReactionS.rateformat`, `ReactionS.arity`, `ComplexS.concentration`
(setter / getter) and `ComplexS.concentrationformat` in-process and the TRANSLATED definitions through the driver ops `pyunits.*`
(lean/DsdVerif/DriverUnits.lean), and compares the two answer streams (`units.source-derived`).  A disagreement means that the
translator's reading of Python is wrong for some statement - or that the code changed under it.

Numbers: the Python side prints `fractions.Fraction(x)` of the int / float it got (the exact value of the double), the Lean side the
exact rational.  Where arithmetic is involved (`convert_units`, `rateformat`, `concentrationformat`) two numbers agree when they are
within the relative tolerance 1e-12 that harness/props/c18.py uses (floating-point rounding is not modelled); `flint`, the setters and
the getters involve no arithmetic and are compared exactly.  Only finite doubles (and ints that are exactly representable as doubles,
as `c18.values` produces them) are generated: that is the domain of the reading of numbers (Model/PyPreludeUnits.lean).
"""
import math
import os
import random
from fractions import Fraction
from .. import core
from . import c18

STREAM = 'units.source-derived'
ARITH = ('pyunits.conv', 'pyunits.rate', 'pyunits.conc')          # ops whose numbers are compared within c18.REL_TOL

BAD_UNIT_STRINGS = ['', '/', 'M/s', '//', '/M//s', '/M/s/', 'M', '/foo/s', '/M/foo', '/s/M', '/m/M', '/M/M', '/ M/s', '/M /s', '/nM/ms',
                    '/M/M/s', '/s', '/h', '/m', '/mM/min', '/uM/uM/hours']


def fr(x):
    return c18.fr(x)


def num(x):
    if isinstance(x, bool) or not isinstance(x, (int, float)):
        return 'nonnumber:' + type(x).__name__
    if isinstance(x, float) and (math.isinf(x) or math.isnan(x)):
        return 'nonfinite'
    return fr(x)


def ostr(u):
    return 'None' if u is None else "'" + u + "'"


def trip(t):
    if t is None:
        return 'None'
    if not (isinstance(t, tuple) and len(t) == 3):
        return 'bad-triple:' + repr(t)[:40]
    return "('%s', %s, '%s')" % (t[0], num(t[1]), t[2])


def show_get(r):
    try:
        c, u = r.rate_constant
        g = 'get %s %s' % ('None' if c is None else num(c), ostr(u))
    except Exception as e:
        g = 'get err ' + type(e).__name__
        e = None
    try:
        a, b = r.arity
        return g + ' arity %d %d' % (a, b)
    except Exception as e:
        return g + ' arity err ' + type(e).__name__


def form_arg(form, v, units):
    if form == 'number': return v
    if form == 'tuple1': return (v,)
    if form == 'pair': return (v, units)
    if form == 'pairnone': return (v, None)
    if form == 'tuple0': return ()
    return (v,) + tuple(range(int(form[6:]) + 2))          # longer<k>: k + 3 items


def pick_rx(w, n, key):
    rs = w.rx[n]
    return rs[len(key) % len(rs)]


def impl_op(w, utils, op):
    try:
        if op[0] == 'pyunits.flint':
            return 'ok ' + num(utils.flint(op[1]))
        if op[0] == 'pyunits.conv':
            return 'ok ' + num(utils.convert_units(op[1], op[2], op[3]))
        if op[0] == 'pyunits.rate':
            v, units, new, n = op[1:]
            r = pick_rx(w, n, units + new)
            r.rate_constant = (v, units)
            c, u = r.rateformat(new)
            return 'ok %s\t%s' % (num(c), u)
        if op[0] == 'pyunits.rateset':
            form, v, units, n = op[1:]
            r = pick_rx(w, n, form + units)
            r.rate_constant = (7, '/x')
            try:
                r.rate_constant = form_arg(form, v, units)
                s = 'set ok '
            except Exception as e:
                s = 'set err %s ' % type(e).__name__
                e = None
            return s + show_get(r)
        if op[0] == 'pyunits.rateget':
            return show_get(w.rx[op[1]][0])
        if op[0] == 'pyunits.ratefmt0':
            c, u = w.rx[op[2]][0].rateformat(op[1])
            return 'ok %s\t%s' % (num(c), u)
        if op[0] in ('pyunits.conc', 'pyunits.concnone'):
            cx = w.cx[1]
            out = op[-1]
            try:
                cx.concentration = None if op[0] == 'pyunits.concnone' else (op[1], op[2], op[3])
                s = 'set ok'
            except Exception as e:
                s = 'set err ' + type(e).__name__
                e = None
            try:
                s += ' get ' + trip(cx.concentration)
            except Exception as e:
                s += ' get err ' + type(e).__name__
                e = None
            try:
                s += ' fmt ok ' + trip(cx.concentrationformat(out))
            except Exception as e:
                s += ' fmt err ' + type(e).__name__
                e = None
            return s
    except Exception as e:
        return 'err ' + type(e).__name__
    return 'bad-op'


def line_of(op):
    if op[0] in ('pyunits.flint', 'pyunits.conv', 'pyunits.rate'):
        return '\t'.join([op[0], fr(op[1])] + [str(x) for x in op[2:]])
    if op[0] == 'pyunits.rateset':
        return '\t'.join([op[0], op[1], fr(op[2]), op[3], str(op[4])])
    if op[0] == 'pyunits.conc':
        return '\t'.join([op[0], op[1], fr(op[2]), op[3], op[4]])
    return '\t'.join(str(x) for x in op)


def reconcile(impl, model):
    """`model` if the two answers differ only in numbers `n/d` that are within c18.REL_TOL of each other, else `impl`"""
    import re
    ta, tb = re.split(r'([ \t,()])', impl), re.split(r'([ \t,()])', model)
    if len(ta) != len(tb):
        return impl
    for x, y in zip(ta, tb):
        if x == y:
            continue
        if re.fullmatch(r'-?\d+/\d+', x) and re.fullmatch(r'-?\d+/\d+', y) and c18.close(Fraction(x), Fraction(y)):
            continue
        return impl
    return model


def run_units_driver(lines):
    """the driver with `stepUnits` wired in (Main.lean); before the integration, the private loop MainUnits.lean"""
    wired = 'stepUnits' in open(os.path.join(core.LEAN, 'DsdVerif', 'Driver.lean'), encoding='utf-8').read()
    if wired:
        return core.run_driver(lines)
    data = '\n'.join(lines) + '\n'
    rc, out, err = core.sh(['lake', 'env', 'lean', '--run', 'MainUnits.lean'], cwd=core.LEAN, input=data, timeout=1200)
    if rc != 0:
        raise core.DriverBroken((out + err)[-3000:])
    got = out.split('\n')
    if got and got[-1] == '':
        got.pop()
    if len(got) != len(lines):
        raise core.DriverBroken('driver returned %d lines for %d requests; tail: %s' % (len(got), len(lines), got[-3:]))
    return got


def make_ops(res, rng, quick):
    vals = c18.values(rng, 40 if quick else 600)
    # the reading of numbers covers finite doubles: ints are kept only when the double has the same value (as c18.values does)
    vals = [v for v in vals if Fraction(float(v)) == Fraction(v)]
    ops = []
    for n in (1, 2, 3):                                      # fresh objects first: getter / rateformat without a rate constant
        ops.append(('pyunits.rateget', n))
        ops.append(('pyunits.ratefmt0', '/M' * (n - 1) + '/s', n))
    for v in vals + [float(x) for x in vals if isinstance(x, int)] + [2.5, 1e-320, 123456789.125, 2**53 + 2, 10**22]:
        ops.append(('pyunits.flint', v))
    allu = c18.CONC + c18.TIME + ['m', 'h', 'foo', '', 'S', 'mm']
    for a in allu:
        for b in allu:
            for v in rng.sample(vals, 4 if quick else 8) + [0, 1, 2.4]:
                ops.append(('pyunits.conv', v, a, b))
    for n in (1, 2, 3):
        combos = []
        def rec(k, acc):
            if k == n - 1:
                for t in c18.GTIME + ['min', 'hours', 'ms']:
                    combos.append(acc + [t])
                return
            for c in c18.GCONC:
                rec(k + 1, acc + [c])
        rec(0, [])
        for old in combos:
            news = combos if (not quick and n < 3) or n < 2 else rng.sample(combos, 6 if quick else 24)
            for new in news:
                ops.append(('pyunits.rate', rng.choice(vals), '/' + '/'.join(old), '/' + '/'.join(new), n))
        for a in BAD_UNIT_STRINGS:                          # unit strings of the wrong arity, unknown / mixed units, odd slashes
            for b in rng.sample(BAD_UNIT_STRINGS, 6) + ['/M' * (n - 1) + '/s']:
                ops.append(('pyunits.rate', rng.choice(vals), a, b, n))
                ops.append(('pyunits.rate', rng.choice(vals), b, a, n))
    for v in vals[:60]:
        for form in ('number', 'tuple1', 'pair', 'pairnone', 'tuple0', 'longer0', 'longer1', 'longer4'):
            ops.append(('pyunits.rateset', form, v, rng.choice(['/M/s', '/s', '', 'x y', '/nM/h']), rng.choice((1, 2, 3))))
    for a in c18.CONC + ['s', 'foo', '']:
        for b in c18.CONC + ['s', 'foo', '']:
            ops.append(('pyunits.conc', rng.choice(['initial', 'constant', '']), rng.choice(vals), a, b))
    ops.append(('pyunits.concnone', 'M'))
    ops.append(('pyunits.concnone', 'foo'))
    return ops


def source_derived_pyunits(res, proof):
    from dsdobjects import utils
    rng = random.Random(res.seed * 1800181 + 1818)
    w = c18.World()
    ops = make_ops(res, rng, res.tier == 'quick')
    impl = [impl_op(w, utils, op) for op in ops]
    lines = [line_of(op) for op in ops]
    del w
    try:
        out = run_units_driver(lines)
    except core.DriverBroken as e:
        proof.problem('driver', 'pyunits stream: ' + str(e))
        return
    impl2 = [reconcile(a, b) if op[0] in ARITH else a for op, a, b in zip(ops, impl, out)]
    core.compare_streams(res, STREAM, lines, impl2, out)
    for op in ops:
        res.count('pyunits:' + op[0].split('.')[1])
    res.dist['pyunits:ops'] = len(lines)
    res.dist['pyunits:raising'] = sum(1 for o in impl if 'err ' in o)
    res.dist['pyunits:numbers_equal_only_within_tolerance'] = sum(1 for a, b in zip(impl, impl2) if a != b)
    for l in lines[::max(1, len(lines) // 5)][:5]:
        res.sample(l[:200])
