"""C05 — object lifetime: no hidden references, no loss while referenced."""
import gc, itertools, random, weakref
from .. import core, hist, world as W, sysgen, reader
from .c01 import fix_disagreements

MODULES = ['DsdVerif.Props.C05']
GEN_FILES = []
THEOREM_NAMES = ['reachable_sound', 'reachable_complete', 'collect_keeps_reachable', 'collect_drops_unreachable', 'drop_releases', 'query_no_edges', 'setTurns_no_edges', 'refused_adds_no_edges',
                 'reachable_no_handles', 'collect_no_handles', 'read_then_drop_releases']
THEOREMS = ['Dsd.C05.' + t for t in THEOREM_NAMES]
ASSUMPTIONS = [
    'CPython reference counting, the cyclic garbage collector and WeakValueDictionary are modelled as: an object is live exactly while it '
    'is reachable from a user handle through containment edges (complex -> its domains, strand -> domains, macrostate -> complexes, '
    'reaction -> members); that CPython creates no other reference is NOT a theorem about any model - it is exhibited by the liveness '
    'correspondence (weakref liveness of every object ever handed out, compared with the model after every operation)',
    'objects built by the PIL reader may need one gc.collect() pass after the result dictionary is dropped',
]
MANIFEST = {
    'text': 'Partial (runtime-dependent). The Lean World models the strong-reference graph (user handles + containment) and computes '
            'liveness by reachability (reachable_sound / reachable_complete, collect_keeps_reachable / collect_drops_unreachable, '
            'drop_releases; views and refused requests add no edges; collect_no_handles: with no handle left nothing survives in any '
            'registry; read_then_drop_releases: whatever document the reader model read, dropping its dictionary leaves an empty world); after every operation of exhaustive short and random long histories (constructions of all five '
            'kinds, refused requests, complements, split, turns assignments, every view, drops) the weakref liveness of every object '
            'ever handed out and the names of all registries are compared with the model, immediately (no gc pass) for constructor-built '
            'objects; whole systems returned by the reader are dropped at once and must be released after one collection, after which '
            'names and canonical forms are re-defined with different parameters. A hidden cache or a leaked traceback reference in the '
            'code shows as a liveness disagreement whose history is the replay.',
    'note': 'Absence of hidden references is established only by the liveness correspondence on the explored histories; GC timing is a '
            'CPython behaviour, modelled not verified.',
    'technique': 'Lean 4 reachability model of the reference graph; liveness correspondence on histories (weakref); reader release oracle',
}

VIEWS = ['sequence', 'structure', 'kernel', 'size', 'strand_table', 'pair_table', 'exterior', 'enclosed', 'is_connected', 'rotate', 'rotate_pt']


def gen_history(iw, rng, length):
    kinds = {}
    names = ['a', 'a*', 'b', 'x1', 'd1', 'c1', 'X', 'Y']
    structs = [('1', '.'), ('2', '..'), ('1+1', '(+)'), ('2+1', '(.+)'), ('1+1', '.+.'), ('1+1+1', '(+.+)'), ('1+1+1', '.+.+.'), ('2+2', '((+))')]
    for _ in range(length):
        held = {h: kinds.get(h) for h in iw.held}
        doms = [h for h, k in held.items() if k == 'dom']
        cx = [h for h, k in held.items() if k == 'cplx']
        ms = [h for h, k in held.items() if k == 'macro']
        r = rng.random()
        kind = None
        if r < 0.18 or not doms:
            l = 'mk.dom\t0\t%s\t%s\t-\t-' % (rng.choice(names[:5] + ['-']), rng.choice(['5', '9', '-'])); kind = 'dom'
        elif r < 0.23:
            l = 'inv\th%d' % rng.choice(doms); kind = 'dom'
        elif r < 0.45:
            shape, sst = rng.choice(structs)
            seq = []
            for i, part in enumerate(shape.split('+')):
                if i: seq.append('+')
                seq += ['h%d' % rng.choice(doms) for _ in range(int(part))]
            nm = rng.choice(['-', '-', 'X', 'Y', 'c1', '1', '2'])
            pf = rng.choice(['-', '-', '', 'k']) if nm == '-' else '-'          # automatic names with an explicit (also empty) prefix
            l = 'mk.cplx\t0\t%s\t%s\t%s\t%s' % (nm, pf, ' '.join(seq), sst); kind = 'cplx'
        elif r < 0.50:
            l = 'mk.strand\t0\t%s\t%s' % (rng.choice(['-', 'S']), ' '.join('h%d' % rng.choice(doms) for _ in range(rng.randint(1, 3)))); kind = 'strand'
        elif r < 0.57 and cx:
            l = 'mk.macro\t0\t-\t%s' % ' '.join('h%d' % h for h in rng.sample(cx, rng.randint(1, min(3, len(cx))))); kind = 'macro'
        elif r < 0.64 and cx:
            pool = ms if (ms and rng.random() < 0.3) else cx
            l = 'mk.rxn\t0\t-\t%s\t%s\t%s' % (rng.choice(['bind21', 'open']), ' '.join('h%d' % rng.choice(pool) for _ in range(rng.randint(1, 2))),
                                              ' '.join('h%d' % rng.choice(pool) for _ in range(rng.randint(1, 2)))); kind = 'rxn'
        elif r < 0.70 and cx:
            l = 'split\th%d' % rng.choice(cx); kind = 'cplx'
        elif r < 0.76 and cx:
            l = 'set.turns\th%d\t%d' % (rng.choice(cx), rng.randint(-3, 4))
        elif r < 0.84 and cx:
            l = 'q\th%d\t%s\t' % (rng.choice(cx), rng.choice(VIEWS))
        elif held:
            l = 'drop\th%d' % rng.choice(list(held))
        else:
            continue
        yield l, kind, kinds


def run_one(iw, rng, res, gen_ops, lines, impl):
    iw.reset()
    hl, ho = ['reset'], ['ok']
    deps = {}            # handle -> handles of the objects it was built from (what the user passed to the constructor)
    lost = False
    for l, kind, kinds in gen_ops:
        o = hist.run_checked(iw, [l], res, 'C05', prefix=hl)[0]
        if o.startswith('ret h') and o.split(' ')[2] == 'new':
            kinds[int(o.split(' ')[1][1:])] = kind
            if l.startswith('mk.') and not l.startswith('mk.dom'):
                deps[int(o.split(' ')[1][1:])] = [int(t[1:]) for f in l.split('\t')[1:] for t in f.split(' ')
                                                  if len(t) > 1 and t[0] == 'h' and t[1:].isdigit()]
        # kept while referenced: whatever a held object was built from is still alive (no gc pass, no model involved)
        need, todo = set(), list(iw.held)
        while todo:
            h = todo.pop()
            if h not in need:
                need.add(h); todo += deps.get(h, [])
        dead = sorted(h for h in need if iw.weak.get(h) is None or iw.weak[h]() is None)
        if dead and not lost:
            lost = True
            res.violation('lost-while-referenced', {'history': list(hl) + [l]}, 'h%s died although a held object was built from it' % dead[0],
                          'an object is kept alive by every object that was built from it')
        if o.startswith('split '):
            for tok in o.split(' ')[1:]:
                if tok.startswith('h') and ':' in tok:
                    kinds.setdefault(int(tok[1:].split(':')[0]), 'cplx')
        hl.append(l); ho.append(o)
        allh = ' '.join('h%d' % h for h in range(iw.next))
        if allh:
            hl.append('live\t' + allh); ho.append(iw.do('live\t' + allh))
        hl.append('names'); ho.append(iw.do('names'))
    # final: drop everything -> everything is released at once, registries are empty
    for h in list(iw.held):
        l = 'drop\th%d' % h
        hl.append(l); ho.append(iw.do(l))
    allh = ' '.join('h%d' % h for h in range(iw.next))
    if allh:
        hl.append('live\t' + allh); ho.append(iw.do('live\t' + allh))
        if '1' in ho[-1]:
            res.violation('not-released-after-last-drop', {'history': list(hl)}, ho[-1], 'every object released immediately after its last reference is dropped')
    hl.append('names'); ho.append(iw.do('names'))
    if ho[-1].strip('names |') != '':
        res.violation('name-still-bound-after-release', {'history': list(hl)}, ho[-1], 'all registries empty')
    lines += hl; impl += ho
    res.evaluations += 1
    res.nontriv(tuple(hl))


def run(res, proof):
    rng = random.Random(res.seed * 982451653 + 5)
    quick = res.tier == 'quick'
    iw = W.ImplWorld()
    lines, impl = [], []
    for _ in range(300 if quick else 6000):
        run_one(iw, rng, res, gen_history(iw, rng, rng.randint(4, 35)), lines, impl)
        if len(res.samples) < 2:
            res.sample(lines[-20:])
    # targeted short histories: refused request then drop; split then drop; view then drop; redefine after drop
    pre = ['mk.dom\t0\ta\t5\t-\t-', 'mk.dom\t0\tb\t5\t-\t-', 'mk.cplx\t0\tX\t-\th0 + h1 + h0\t(+.+)']
    tails = [['mk.cplx\t0\tY\t-\th0 + h1 + h0\t(+.+)'], ['mk.cplx\t0\t-\t-\th1 + h0 + h0\t.+(+)'], ['split\th2'], ['q\th2\tpair_table\t'],
             ['q\th2\trotate\t'], ['set.turns\th2\t1'], ['mk.macro\t0\t-\th2'], ['mk.rxn\t0\t-\topen\th2\th2'], ['inv\th0'], ['mk.dom\t0\ta\t9\t-\t-']]
    for k in range(1, 3 if quick else 4):
        for combo in itertools.product(tails, repeat=k):
            ops = pre + [l for t in combo for l in t] + ['drop\th2', 'drop\th0']
            def g(ops=ops):
                kinds = {0: 'dom', 1: 'dom', 2: 'cplx'}
                for l in ops:
                    if all(int(t[1:]) in iw.held for f in l.split('\t')[1:] for t in f.split(' ') if len(t) > 1 and t[0] == 'h' and t[1:].isdigit()):
                        yield l, None, kinds
            run_one(iw, rng, res, g(), lines, impl)
    iw.reset()
    # ---- redefinition after release with different parameters (real code)
    from dsdobjects.base_classes import DomainS, ComplexS
    from dsdobjects import clear_singletons
    for ln1, ln2 in ((5, 9), (9, 5)):
        res.evaluations += 1
        a = DomainS('rd', ln1); b = ~a
        c = ComplexS([a, b], list('()'), name='RC')
        del a, b
        ok1 = 'rd' in DomainS._instanceNames           # still referenced through the complex
        del c
        try:
            a2 = DomainS('rd', ln2)
            c2 = ComplexS([a2], ['.'], name='RC')
            ok2 = True
            del a2, c2
        except Exception as e:
            ok2 = False
            e = None
        if not (ok1 and ok2):
            res.violation('redefinition-after-release', {'lengths': [ln1, ln2]}, 'kept while referenced: %s, redefinable after release: %s' % (ok1, ok2),
                          'an object stays registered while a container references it and is redefinable once released')
    # ---- whole systems returned by the reader, dropped at once
    jobs = []
    for _ in range(60 if quick else 1500):
        S = sysgen.gen_system(rng)
        jobs.append({'text': sysgen.render(S, rng), 'mode': 'outcome', 'check_release': True})
    for _ in range(60 if quick else 1500):
        S = sysgen.gen_system(rng)
        jobs.append({'text': sysgen.render(S, rng), 'mode': 'outcome', 'keep_only': rng.choice(['complexes', 'complexes', 'macrostates', 'reactions'])})
    for _ in range(30 if quick else 600):
        S = sysgen.gen_system(rng)
        jobs.append({'text': sysgen.render(S, rng), 'mode': 'outcome', 'reconfigure_while_held': True, 'check_release': True})
    for _ in range(80 if quick else 1500):
        # a document whose LAST statement is refused (an undeclared domain in a kernel complex): the caller catches the error and holds
        # nothing - whatever the statements before it built (composite domains and kernel complexes using them included) is released
        S = sysgen.gen_system(rng)
        jobs.append({'text': sysgen.render(S, rng).rstrip('\n') + '\nZZ9 = %s\n' % rng.choice(['undeclared_q', 'a undeclared_q', 'undeclared_q( )']),
                     'mode': 'outcome', 'check_release': True, 'expect_refused': True})
    for job, r in zip(jobs, reader.run_jobs(jobs)):
        res.evaluations += 1
        res.nontriv(job['text'])
        lost = (r.get('registry_after_clear') or []) + (r.get('registry_after_reconfigure') or [])
        if lost:
            res.violation('lost-while-referenced:reader-reconfigured', {'text': job['text'], 'then': 'clear_io_objects(); set_io_objects() while the result is held'},
                          '; '.join(lost[:4]), 'every held object is still the registered singleton of its name')
        if r.get('lost_while_kept'):
            res.violation('reader-objects-lost-while-referenced', {'text': job['text'], 'kept': job.get('keep_only')}, '; '.join(r['lost_while_kept'][:4]),
                          'what a kept complex / macrostate / reaction was built from stays alive and registered')
        if job.get('expect_refused') and r.get('outcome') != 'ok' and r.get('names_left'):
            res.violation('refused-document-not-released', {'text': job['text']}, '%s names bound after the refused read (%s), nothing held, one gc pass'
                          % (r.get('names_left'), r.get('outcome')), 'a caught error never prolongs a lifetime: everything the read built is released')
        if r.get('outcome') == 'ok' and (r.get('leaked') or r.get('names_left')):
            res.violation('reader-system-not-released', {'text': job['text']}, '%s objects alive, %s names bound after dropping the result and one gc pass'
                          % (r.get('leaked'), r.get('names_left')), 'everything released at the latest after one garbage-collection pass')
        res.count('reader_systems')
    res.rule = ('random histories of 4-35 ops over constructions of all five kinds, complements, refused requests, split, turns '
                'assignments, 11 views and drops, with the liveness of every handle ever handed out and all registry names compared after '
                'every op and a final release check; exhaustive targeted tails (refused / rotated / split / queried / contained, depth '
                '1-3) before dropping; redefinition with other parameters after release; generated PIL systems read and dropped at once; '
                'distinct by history / text')
    try:
        model = core.run_driver(lines)
        core.compare_streams(res, 'histories.liveness', lines, impl, model)
        if res.disagreements:
            fix_disagreements(res, lines, impl, model)
    except core.DriverBroken as e:
        proof.problem('driver', str(e))


def replay(body, repo):
    if 'history' in body.get('input', {}):
        return hist.replay_history(body, repo)
    print(body['input']); print('required :', body.get('required'))
    return 1
