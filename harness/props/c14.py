"""C14 — the PIL reader builds exactly the declared system."""
import random
from .. import core, sysgen, reader

MODULES = ['DsdVerif.Props.C14', 'DsdVerif.Props.C14Numerals', 'DsdVerif.Props.PyReadPil']
GEN_FILES = ['IupacTables', 'Grammars', 'PyReadPil', 'PyReaderFns']
THEOREM_NAMES = ['ignore_skips', 'ignored_reaction_survives', 'reaction_missing_member', 'complement_sequence',
                 'complement_sequence_strong', 'non_iupac_rejected', 'failed_read_restores', 'sl_domain_length_mismatch',
                 'dl_domain_lengths', 'read_domains_sigma', 'read_sequences_sigma', 'read_strands_sigma',
                 'read_scomplexes_sigma', 'read_kernels_sigma', 'read_duplicate_refused',
                 'read_pil_domains_text', 'read_pil_strands_text', 'read_pil_complexes_text', 'read_pil_kernels_text',
                 'read_macrostates_sigma', 'macrostate_redeclared', 'read_reactions_sigma', 'reaction_redeclared',
                 'read_xkernels_sigma', 'read_pil_macrostates_text', 'read_pil_reactions_text', 'e2_readPil', 'e2_from_theorems']
THEOREMS = ['Dsd.C14.' + t for t in THEOREM_NAMES] + ['Dsd.TextSig.render_parses', 'Dsd.TextSig.render_parses6'] + \
    ['Dsd.C14.' + t for t in ('lenTok_repr', 'digits_repr', 'lengthDecl_ok', 'read_pil_lengths_text')]     # int(str(l)) = l: numerals without hypothesis
# the top-level loop of read_pil as written in the source (translator/pyreaderfn2.py -> Gen/PyReadPil.lean; the parsers and read_pil_line are parameters)
THEOREMS += ['Dsd.PyReadPil.' + t for t in ['py_ignored_not_interpreted', 'py_ignore_skips', 'py_iteration_closed_form', 'py_strand_before_complex',
                                              'py_reaction_split', 'py_raw_to_other', 'py_exception_propagates']]
ASSUMPTIONS = [
    'consistent systems are generated from an abstract model (domains with lengths or IUPAC sequences, strands / composite domains, '
    'complexes in kernel and strand notation, concentrations, macrostates named after a member, detailed and condensed reactions, '
    'ignorable reactions) and rendered in declaration-before-use order; strands and macrostates are singletons by content, so the '
    'generator gives one name per sequence / member set',
    'the reader is observed on the real code in worker processes; attribute values are compared exactly (rate constants after flint)',
]
MANIFEST = {
    'text': 'Partial. The whole reader is inside the Lean model (Model/Reader.lean: read_pil / read_pil_line / read_reaction over the '
            'regenerated grammar, the kernel translation, composite-domain expansion, the object world and the IUPAC tables) and is tied '
            'to the code by a correspondence stream: every generated document is read by both and the complete result dictionaries '
            '(domains with lengths and sequences incl. derived complements, strands, complexes with sequence / structure / concentration, '
            'macrostates, detailed and condensed reactions with type / rate / units, number of ignored lines, registries after release) are '
            'compared. END-TO-END theorems "reading the declared system returns exactly it", for declared systems of ANY size: '
            'read_domains_sigma (length declarations: the read succeeds; the dictionary keys are exactly the declared names and their '
            'complements, in order; every name is bound to a live object of the configured class with the declared name and length, its '
            'complement likewise; nothing else is in the dictionary; a line re-read on its own yields the same object), '
            'read_sequences_sigma (mixed length / sequence declarations: sequences stored, complements carry the reverse Watson-Crick '
            'complement), read_strands_sigma (plus composite-domain lines: every strand under its name with exactly the declared domain '
            'list, whose members ARE the dictionary\'s domain objects), read_scomplexes_sigma (plus strand-notation complexes: every complex '
            'under its name, its registry object carries the minimal rotation as canonical form and all rotations as keys, its state the '
            'declared sequence / structure with rotate^turns(canon) = declared, its children are the dictionary\'s domain objects), '
            'read_kernels_sigma (plus kernel-notation complexes with optional concentration triple), read_duplicate_refused (the same '
            'complex declared again under a new name is a SingletonError), read_macrostates_sigma (plus macrostates: canonical form = the '
            'members\' canonical forms sorted, children = the dictionary\'s complex objects; macrostate_redeclared: permuted members '
            'under the same name return the same object, another member set is a SingletonError), read_reactions_sigma (plus '
            'reactions with info box and ignorable reactions interleaved: condensed ones exactly in con_reactions, the others exactly '
            'in det_reactions, no duplicates, sorted reactant / product keys, type, rate literal and units, children = member objects; '
            'ignorable lines only counted; reaction_redeclared: a second declaration adds nothing), read_xkernels_sigma (kernel strings '
            'that use COMPOSITE domains - a declared strand or the complement of one - are expanded by the reader\'s fallback loop to '
            'the strand\'s domains resp. the reversed complements, the structure character copied). ON TEXT: render_parses (the canonical rendering of a declared '
            'system parses - C13.document_rt + statement instances - to literally the token trees of the theorems above) and '
            'read_pil_domains_text / _strands_text / _complexes_text / _kernels_text: parseDoc followed by readDoc on the rendered text '
            'succeeds with the same conclusions, i.e. read_pil(render(system)) = system on the model; render_parses6, '
            'read_pil_macrostates_text, read_pil_reactions_text extend this to macrostates and reactions (info-box types that are '
            'letters-only, digit rates); e2_readPil / e2_from_theorems: one complete 14-line system text (domains, strands, complexes in '
            'both notations with a concentration, two macrostates, a detailed, a condensed and two ignorable reactions) evaluated end '
            'to end by the kernel and, independently, obtained from the theorems. Clause theorems: ignore_skips, ignored_reaction_survives, '
            'reaction_missing_member, complement_sequence_strong, failed_read_restores, sl_domain_length_mismatch, dl_domain_lengths; '
            'component theorems of C01, C02, C12/C13 (kernel_rt, resolve_kernel_inverse) and C17. The numeric interpretation of rate / '
            'concentration literals (float, flint) has no theorem: for it the property is decided on the real reader by an independent abstract model of PIL '
            'systems (all attributes, identical singletons, `ignore`, line vs document, several documents per configured session) plus '
            'the model correspondence.'
            ' Numerals: lenTok_repr (int(str(l)) = l in the form the reader theorems need, from the core lemma Nat.toNat?_repr), digits_repr and read_pil_lengths_text discharge the side condition on length tokens for every decimal numeral, so `length n = l` is read as a domain of length l for every l without a hypothesis about int().',
    'note': 'End-to-end exactness is a theorem for all five kinds of object (kernel strings without composite domains; numbers as literals); the rest is '
            'established by exploration on the real code plus model correspondence; trusted base as in DESIGN.md section 3.',
    'source_derived': "The top-level loop of read_pil is transcribed from the working tree (translator/pyreaderfn2.py -> Gen/PyReadPil.lean; the two parsers, read_pil_line, ~obj and reverse_wc_complement are parameters, an object is a tagged value, isinstance against a reader slot a test on its class): PyReadPil.py_ignore_skips (a document reads like its statements that are not in `ignore`; an ignored statement is not interpreted at all), py_iteration_closed_form (one iteration files what read_pil_line returned: first passing test wins - Domain, Strand, Complex, Macrostate, Reaction - under the object's name, raw lines to `other`), py_strand_before_complex, py_reaction_split (condensed / detailed), py_exception_propagates; the domain branch and the whole-dictionary closed form are not done; stream read_pil.source-derived with the real read_pil_line recorded.",
    'technique': 'Lean 4 model of the whole reader: end-to-end theorems for systems of all five object kinds, on token trees and on rendered text; clause theorems; correspondence on generated systems; model-based oracle',
}


def flint(x):
    f = float(x)
    return int(f) if f == int(f) else f


def expected(S):
    e = {'domains': {n: [d['length'], d['sequence']] for n, d in S.domains.items()},
         'strands': {n: list(d) for n, d in S.strands.items()},
         'complexes': {n: [list(c['seq']), ''.join(c['sst']), (list(c['conc']) if c['conc'] else None)] for n, c in S.complexes.items()},
         'macrostates': {n: sorted(m) for n, m in S.macrostates.items()},
         'det': sorted([sorted(r['reactants']), sorted(r['products']), r['rtype'], flint(r['rate']), r['units']]
                       for r in S.reactions if r['rtype'] != 'condensed'),
         'con': sorted([sorted(r['reactants']), sorted(r['products']), r['rtype'], flint(r['rate']), r['units']]
                       for r in S.reactions if r['rtype'] == 'condensed'),
         'other': S.ignored}
    return e


def first_diff(a, b, path=''):
    if type(a) != type(b):
        return '%s: %r vs %r' % (path, a, b)
    if isinstance(a, dict):
        for k in sorted(set(a) | set(b)):
            if k not in a: return '%s.%s missing in result' % (path, k)
            if k not in b: return '%s.%s unexpected in result' % (path, k)
            d = first_diff(a[k], b[k], path + '.' + str(k))
            if d: return d
        return None
    if isinstance(a, list):
        if len(a) != len(b):
            return '%s: %r vs %r' % (path, a, b)
        for i, (x, y) in enumerate(zip(a, b)):
            d = first_diff(x, y, path + '[%d]' % i)
            if d: return d
        return None
    return None if a == b else '%s: %r vs %r' % (path, a, b)


def run(res, proof):
    rng = random.Random(res.seed * 49979687 + 14)
    quick = res.tier == 'quick'
    n = 300 if quick else 5000
    jobs, metas = [], []
    prev = None
    for _ in range(n):
        S = sysgen.gen_system(rng)
        txt = sysgen.render(S, rng)
        single = [t for k, t in S.stmts if '\n' not in t and k != 'rxn-ignored']
        jobs.append({'text': txt, 'mode': 'full', 'lines': single, 'check_release': True}); metas.append(('full', S, txt))
        if rng.random() < 0.3:
            jobs.append({'text': txt, 'mode': 'full', 'ignore': ['reaction']}); metas.append(('ignore-reactions', S, txt))
        if rng.random() < 0.25:
            # the same system through read_pil(path, is_file=True), with a comment behind some statements and a last line
            # without line end
            flines = txt.rstrip('\n').split('\n')
            ftxt = '\n'.join((l + ('  # note %d' % i if (l.strip() and rng.random() < 0.4 and not l.rstrip().endswith(('.', ')', '(', '+'))) else '')) for i, l in enumerate(flines))
            jobs.append({'text': ftxt + ('' if rng.random() < 0.5 else '\n'), 'mode': 'full', 'as_file': True}); metas.append(('as-file', S, ftxt))
        if rng.random() < 0.2:
            # read, empty the returned dictionary in place (keeping the objects), read the same text again
            jobs.append({'text': txt, 'mode': 'full', 'reread': True}); metas.append(('read-twice', S, txt))
        if prev is not None and rng.random() < 0.5:
            # the same configured session read (and released) another system before: names are reused with other meanings
            jobs.append({'text': txt, 'mode': 'full', 'session': [prev]}); metas.append(('after-another-document', S, txt))
        prev = txt
    prev_of = {j['text']: (j.get('session') or [None])[0] for j in jobs if j.get('session')}
    results = reader.run_jobs(jobs)
    for (mode, S, txt), r in zip(metas, results):
        res.evaluations += 1
        res.nontriv(txt)
        for k, _ in S.stmts:
            res.count('stmt_' + k)
        if r['outcome'] != 'ok':
            res.violation('valid-system-rejected:' + r['outcome'][4:], {'text': txt}, r['outcome'], 'the result dictionary')
            continue
        exp = expected(S)
        if mode == 'ignore-reactions':
            exp['det'], exp['con'], exp['other'] = [], [], 0
        got = r['summary']
        got['complexes'] = {k: [v[0], v[1], v[2]] for k, v in got['complexes'].items()}
        d = first_diff(exp, got)
        if d:
            sect = d.split('.')[1].split('[')[0] if '.' in d else 'summary'
            res.violation('attribute-mismatch:%s:%s' % (mode, sect), {'text': txt, 'session': [m[2] for m in metas if m[2] == prev_of.get(txt)]}, d, 'exactly the declared attributes')
        if mode == 'read-twice' and r.get('reread_line') != r.get('line'):
            res.violation('second-read-differs', {'text': txt}, str(r.get('reread_line'))[:200], 'the same result as the first read: ' + str(r.get('line'))[:120])
        if r.get('identity'):
            res.violation('not-identical-singletons', {'text': txt}, '; '.join(r['identity'][:3]), 'objects referenced by name are the identical singletons')
        if r.get('line_vs_doc'):
            res.violation('line-vs-document', {'text': txt}, '; '.join(r['line_vs_doc'][:3]), 'a line read alone yields the document\'s object')
        if r.get('registry'):
            res.violation('registry-corrupted', {'text': txt}, '; '.join(r['registry'][:3]), 'valid singletons')
    # ---- correspondence: the Lean reader model (grammar + kernel translation + object world) on the same documents
    lines, impl = [], []
    for (mode, S, txt), r, job in zip(metas, results, jobs):
        if mode in ('after-another-document', 'read-twice', 'as-file'):
            continue
        ign = 'reaction' if mode == 'ignore-reactions' else ''
        lines.append('reset'); impl.append('ok')
        lines.append('read.doc\t%s\t%s\t0 0 0 0 0\t0' % (sysgen.PG.hx(txt), ign)); impl.append(r.get('line', '?'))
        lines.append('names'); impl.append('names ' + '|' * 19)
    try:
        model = [reader.canon_model_line(l) for l in core.run_driver(lines)]
        core.compare_streams(res, 'reader.documents', lines, impl, model)
        for d in res.disagreements:
            if isinstance(d['input'], str) and d['input'].startswith('read.doc'):
                d['text'] = bytes.fromhex(d['input'].split('\t')[1]).decode('utf-16-be', 'replace')
    except core.DriverBroken as e:
        proof.problem('driver', str(e))
    # the read_pil loop as translated from the working tree, with the real read_pil_line recorded
    from .pyreadpil_stream import source_derived_pyreadpil
    core.run_stream(source_derived_pyreadpil, res, proof)
    for (mode, S, txt) in metas[::max(1, len(metas) // 6)]:
        res.sample({'mode': mode, 'text': txt})
    res.rule = ('%d generated consistent systems (2-6 domains with lengths / short / long / IUPAC sequences, starred declarations, 0-3 '
                'composite domains, 1-5 complexes in kernel or strand notation incl. multi-strand and nested structures, concentrations in '
                'all modes and units, macrostates, detailed / condensed reactions with error terms and all accepted units, ignorable '
                'reactions), each read in full and 30%% also with ignore=[reaction]; distinct by document text' % n)


def replay(body, repo):
    txt = body['input']['text']
    r = reader.read_job({'text': txt, 'mode': 'full'})
    print(txt); print('observed :', r.get('outcome'), r.get('summary')); print('required :', body.get('required'))
    return 1
