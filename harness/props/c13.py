"""C13 — PIL grammar: parsing inverts rendering, statement by statement."""
import multiprocessing, os, random, tempfile
from .. import core, pilgen as PG

MODULES = ['DsdVerif.Props.C13']
GEN_FILES = ['Grammars']
THEOREM_NAMES = ['run_fuel_mono', 'run_fuel_mono_false', 'word_munch', 'expandTabs_id', 'dl_domain_rt', 'dl_domain_dtype_rt', 'sl_domain_rt',
                 'sl_domain_len_rt', 'dl_domain_comment_rt', 'dl_domain_missing_assign_rejected', 'comp_domain_rt', 'resting_rt',
                 'kernel_rt', 'kernel_extra_close_rejected', 'kernel_missing_name_rejected', 'complex_rt', 'structure_rt',
                 'reaction_plain_rt', 'reaction_info_rt', 'kernel_conc_rt', 'two_statements_rt', 'keyword_prefixed_name_rt',
                 'document_rt', 'document_leading_rt', 'document_open_rt', 'stmtText_dl_domain', 'stmtText_dl_domain_dtype',
                 'stmtText_sl_domain', 'stmtText_sl_domain_len', 'stmtText_comp_domain', 'stmtText_resting', 'stmtText_kernel',
                 'stmtText_kernel_conc', 'stmtText_complex', 'stmtText_structure', 'stmtText_reaction_plain', 'stmtText_reaction_info',
                 'document_layout_rt', 'document_layout_open_rt', 'document_crlf_rt', 'document_comments_rt',
                 'stmtTextB_dl_domain', 'stmtTextB_dl_domain_dtype', 'stmtTextB_sl_domain', 'stmtTextB_sl_domain_len',
                 'stmtTextB_comp_domain', 'stmtTextB_resting', 'stmtTextB_kernel', 'stmtTextB_kernel_conc', 'stmtTextB_reaction_plain',
                 'stmtTextB_reaction_info', 'stmtTextL_complex', 'stmtTextL_structure',
                 'document_tabs_rt', 'stmt_tabs_rt', 'stmtTextT_dl_domain', 'stmtTextT_dl_domain_dtype', 'stmtTextT_sl_domain',
                 'stmtTextT_sl_domain_len', 'stmtTextT_comp_domain', 'stmtTextT_resting', 'stmtTextT_complex', 'stmtTextT_structure',
                 'stmtTextT_reaction_plain', 'stmtTextT_kernel', 'stmtTextB_kernel_spaced', 'dl_domain_tabs_rt', 'sl_domain_tabs_rt',
                 'comp_domain_tabs_rt', 'kernel_tabs_rt',
                 # parse soundness (accepted text is a layout of its tree): general rejection theorems
                 'kernel_brackets_balanced', 'unbalanced_kernel_rejected', 'missing_assign_rejected', 'dl_value_wellformed',
                 # blanks / tabs at EVERY token boundary: one summary theorem per statement kind
                 'dl_layout', 'sl_layout', 'strand_layout', 'state_layout', 'kernel_layout', 'complex_layout', 'struct_layout',
                 'rx_plain_layout', 'rx_info_layout', 'strand_blanks', 'state_blanks', 'kernel_blanks', 'complex_blanks', 'struct_blanks',
                 'rx_plain_blanks', 'rx_info_blanks',
                 # rejections at document level
                 'bad_pil_statement_rejected', 'unbalanced_kernel_close_rejected', 'unbalanced_kernel_open_rejected',
                 'unbalanced_kernel_rejected_doc', 'kernel_brackets_balanced_sig',
                 'pil_every_layout', 'document_indent_rt', 'stmt_indent_rt']
THEOREM_NAMES_EXTRA = ['Dsd.Pil.pil_document_rejected']
THEOREMS = ['Dsd.C13.' + t for t in THEOREM_NAMES] + THEOREM_NAMES_EXTRA + ['Dsd.PP.Tabs.expandTabs_tok', 'Dsd.PP.Tabs.expandTabs_sep', 'Dsd.PP.Tabs.expand_template', 'Dsd.PP.run_yield', 'Dsd.PP.parseDoc_yield']
ASSUMPTIONS = [
    'pyparsing 3.3.2 is modelled by a hand-written interpreter (Model/Pyparsing.lean: whitespace/comment skipping, Word maximal munch, '
    'Literal prefix match, Keyword = prefix match not followed by an identifier character, ordered choice, greedy repetition, Combine adjacency, LineEnd at end of input); its agreement with the real '
    'library is established only by the correspondence stream',
    'the grammar itself (Gen/Grammars.lean) is regenerated from pil_parser.py by translator/gen.py on every run',
    'legal layouts: either assignment sign where the grammar has `assign`, every keyword alias, >= 1 blank after keywords and between '
    'adjacent identifier-like tokens (incl. before "->"), blanks/tabs elsewhere except inside combined tokens, trailing comments, blank '
    'and comment lines, LF or CRLF; renderings shared by two different trees (sequence x = short) are not legal layouts',
]
MANIFEST = {
    'text': 'Partial. The grammar is regenerated from pil_parser.py into a Lean term interpreted by a model of pyparsing. Proved for the '
            'regenerated grammar, for identifiers / numbers / constraints of any length and any amount of blanks: dl_domain_rt (three '
            'keyword aliases, both assignment signs, optional star), dl_domain_dtype_rt, sl_domain_rt, sl_domain_len_rt, '
            'dl_domain_comment_rt (trailing comment, no final newline), comp_domain_rt (strand / sup-sequence, any number of domains), '
            'resting_rt (any number of members), kernel_rt (name = kernel_string parses to exactly the token forest of the kernel '
            'string, for any nesting depth, any number of strands and empty loops, for EVERY identifier name - keyword_prefixed_name_rt '
            'spells out the former defect: names that start with or equal a statement keyword), the '
            'rejections dl_domain_missing_assign_rejected, kernel_extra_close_rejected, kernel_missing_name_rejected, plus word_munch '
            'and expandTabs_id; complex_rt and structure_rt (both strand notations), reaction_plain_rt and reaction_info_rt (type, rate, '
            'any number of concentration units, every time unit), kernel_conc_rt (all four concentration modes). DOCUMENTS: '
            'document_rt - for ANY non-empty list of statement texts satisfying StmtText (proved for every statement kind: 12 '
            'stmtText_* instances with the generality of the round-trip theorems), each followed by its line end and any number of '
            'blank lines, the document parses to the list of the statements\' trees in order; document_leading_rt (leading blank lines), '
            'document_open_rt (no final newline). LINE LAYOUT: document_layout_rt - each statement may be followed on its line by a '
            'comment, its line may end in LF or CRLF, any number of empty / blank / CR-only / comment-only lines may stand before, '
            'between and after the statements, the last line may be unterminated (corollaries document_crlf_rt, '
            'document_comments_rt; instances stmtTextB_* / stmtTextL_* for every statement kind; the one shape the grammar itself '
            'does not accept - blanks between a dot-bracket and a comment, which the Word over "(.)+ " swallows - is kept as a checked '
            'example). So every statement kind has a kernel-checked round-trip theorem with arbitrary blank counts at the positions of '
            'its canonical layout, and documents with comments, blank lines and either line-ending style are concatenations. TABS: '
            'expandTabs_tok / expandTabs_sep / expand_template (Python expandtabs turns every blank/tab separator into at least as many '
            'blanks), document_tabs_rt and the stmtTextT_* instances: every blank position of the statement theorems may hold any '
            'mixture of blanks and tabs, including between the words of a kernel pattern (kernel lemmas generalised to several '
            'blanks). EVERY TOKEN BOUNDARY: one summary theorem per statement kind - dl_layout, sl_layout, strand_layout, state_layout, '
            'kernel_layout (with concentration), complex_layout, struct_layout, rx_plain_layout, rx_info_layout: for every assignment '
            'of blank/tab separators to the boundaries of the kind\'s template (non-empty exactly where the grammar needs a separator: '
            'after the keyword, between two names, before "->"), the rendered text is a statement text for the tree; numbers in '
            'integer, decimal and scientific form, optional error terms, any number of unit factors; the restrictions are shown by '
            'kernel-checked examples (no blank inside combined tokens, blank required before "->", a blank after a dot-bracket joins '
            'its token). REJECTIONS in general form, from PARSE SOUNDNESS (run_yield / parseDoc_yield: whatever the '
            'parser model accepts, the consumed input is ignorable text and matched terminals in grammar order): '
            'kernel_brackets_balanced (in any accepted comment-free document the text of every kernel statement has balanced '
            'parentheses), unbalanced_kernel_rejected (name = pattern with unbalanced parentheses, any pattern text over the pattern '
            'alphabet: parse error), missing_assign_rejected (a text without "=", ":" and ">" is never accepted), dl_value_wellformed; at '
            'DOCUMENT level pil_document_rejected / bad_pil_statement_rejected: a malformed statement (BadPilStmt: missing name, missing '
            'assignment sign in every statement kind, malformed length / sequence-length numbers, rates like ".5", "1.", "1e", "1e+", '
            'units without a time unit - with arbitrary blanks and any rest of the line) after any well-formed statements in any '
            'line layout makes the whole document a parse error; unbalanced_kernel_close_rejected / _open_rejected likewise; '
            'kernel_brackets_balanced_sig without the comment-freeness hypothesis (balance of the significant characters); decimal / scientific numbers in reactions, error terms, indented '
            'statements, file = string and history independence are NOT theorems: they are decided on the real parser by a '
            'reference renderer over grammar-generated token trees in random layouts, and the model is compared with pyparsing on the '
            'same texts, four negative families and random mutations.',
    'note': 'pyparsing semantics is modelled by hand and tied by differential testing only; the keyword-prefix defect found by this '
            'check (lengthy = 5 parsed as a domain statement) is repaired in /repo (fixed: entries of known_findings.txt) - the grammar '
            'now uses Keyword, modelled by G.kw.',
    'technique': 'Lean 4 symbolic execution of a pyparsing interpreter over the grammar regenerated from source; correspondence check; reference renderer oracle',
}


def _parse_many(texts):
    from dsdobjects.dsdparser import parse_pil_string
    out = []
    for t in texts:
        try:
            out.append(('ok', parse_pil_string(t)))
        except Exception as e:
            out.append(('err', type(e).__name__))
    return out


def parse_all(texts, procs=16):
    chunks = [texts[i::procs * 4] for i in range(procs * 4)]
    ctx = multiprocessing.get_context('fork')
    with ctx.Pool(procs) as pool:
        res = pool.map(_parse_many, chunks)
    out = [None] * len(texts)
    for ci, r in enumerate(res):
        for k, v in enumerate(r):
            out[ci + k * procs * 4] = v
    return out


def canon(r):
    if r[0] == 'ok':
        return 'ok ' + PG.show(r[1])
    return 'err ' + ('ParseException' if r[1] == 'ParseException' else 'Fault ' + r[1])


def negatives(rng, n):
    """(family, text) that the parser must reject"""
    out = []
    for _ in range(n):
        k = rng.random()
        L = PG.Layout(rng if rng.random() < 0.5 else None)
        if k < 0.3:
            tree, spec = PG.rand_statement(rng, 'kernel')
            txt = PG.render_statement(tree, spec, L)
            if '(' in txt and rng.random() < 0.5:
                i = txt.rindex(')')
                txt = txt[:i] + txt[i + 1:]
                fam = 'unbalanced:missing-close'
            else:
                txt = txt + ' )'
                fam = 'unbalanced:extra-close'
            out.append((fam, txt + '\n'))
        elif k < 0.55:
            kind = rng.choice(['dl', 'sl', 'comp', 'kernel', 'rest', 'sc2'])
            tree, spec = PG.rand_statement(rng, kind)
            txt = PG.render_statement(tree, spec, PG.Layout(None))
            pos = [txt.find(' ' + sign + ' ') for sign in ('=', ':') if ' ' + sign + ' ' in txt]
            if pos:
                i = min(pos)                      # the mandatory sign after the name
                txt = txt[:i] + ' ' + txt[i + 3:]
                out.append(('missing-assign:' + kind, txt + '\n'))
        elif k < 0.7:
            tree, spec = PG.rand_statement(rng, 'kernel')
            txt = PG.render_statement(tree, spec, L)
            txt = txt[txt.index('='):]
            out.append(('missing-name:kernel', txt + '\n'))
        else:
            bad = rng.choice(['5.', '.5', '1e', '1e+', '5..2', '1.e5', '1e5.'])
            fam = rng.choice(['dl', 'conc', 'rate'])
            if fam == 'dl':
                if bad in ('1e', '1e+'):
                    bad = '1.'
                txt = 'length a = %s' % bad
            elif fam == 'conc':
                txt = 'x = a b @initial %s nM' % bad
            else:
                txt = 'reaction [bind21 = %s /M/s] A + B -> C' % bad
            out.append(('malformed-number:' + fam, txt + '\n'))
    return out


def run(res, proof):
    rng = random.Random(res.seed * 65537 + 13)
    quick = res.tier == 'quick'
    nstmt = 2500 if quick else 60000
    cases = []        # (label, text, expected tree list or None)
    kinds = ['dl', 'sl', 'comp', 'sc1', 'sc2', 'rxn', 'kernel', 'rest']
    for i in range(nstmt):
        kind = kinds[i % len(kinds)]
        tree, spec = PG.rand_statement(rng, kind)
        exp = [PG.expected_tree(tree)]
        cases.append(('stmt:' + kind + ':canonical', PG.render_statement(tree, spec, PG.Layout(None)) + '\n', exp))
        for _ in range(2 if quick else 6):
            cases.append(('stmt:' + kind + ':layout', PG.render_statement(tree, spec, PG.Layout(rng)) + PG.line_end(rng), exp))
        if rng.random() < 0.2:
            cases.append(('stmt:' + kind + ':no-final-newline', PG.render_statement(tree, spec, PG.Layout(rng)), exp))
    # documents
    for _ in range(300 if quick else 6000):
        n = rng.randint(2, 4 if quick else 8)
        exp, txt = [], rng.choice(['', '\n', '# header\n\n', '  \n'])
        for _ in range(n):
            tree, spec = PG.rand_statement(rng)
            exp.append(PG.expected_tree(tree))
            txt += PG.render_statement(tree, spec, PG.Layout(rng)) + PG.line_end(rng)
        cases.append(('document', txt, exp))
    neg = negatives(rng, 400 if quick else 8000)
    for fam, txt in neg:
        cases.append(('negative:' + fam, txt, None))
    # kernel-complex names that start with, or are, a statement keyword, with patterns that fit the keyword's own statement
    # (the former known finding, repaired by a fix: commit): they are kernel complexes
    for kw in PG.KEYWORDS:
        for nm in (kw + 'y', kw, kw + '-1', kw + '_', kw + '5'):
            for pat in (['a', 'b'], ['5'], ['NNN'], ['short'], ['a', '+', 'b*']):
                cases.append(('keyword-prefix:' + kw, nm + ' = ' + ' '.join(pat) + '\n', [['kernel-complex', nm, pat]]))
        # ... and the keyword followed by a blank still opens its own statement
    cases.append(('keyword-then-blank', 'length y = 5\n', [['dl-domain', 'y', '5']]))
    cases.append(('keyword-then-blank', 'strand y = a b\n', [['composite-domain', 'y', ['a', 'b']]]))
    cases.append(('keyword-then-blank', 'sup-sequence sup-sequence = a b\n', [['composite-domain', 'sup-sequence', ['a', 'b']]]))
    cases.append(('keyword-then-blank', 'state state = [state]\n', [['resting-macrostate', 'state', ['state']]]))
    base = [c for c in cases if c[0].startswith('stmt')]
    for _ in range(1500 if quick else 30000):
        lab, txt, _ = rng.choice(base)
        k = rng.random()
        i = rng.randrange(len(txt)) if txt else 0
        if k < 0.4:
            txt = txt[:i] + txt[i + 1:]
        elif k < 0.8:
            txt = txt[:i] + rng.choice(' \t=:()+*[]@#/-.,e5a\n') + txt[i:]
        else:
            j = rng.randrange(len(txt)); i, j = min(i, j), max(i, j)
            txt = txt[:i] + txt[j:]
        cases.append(('mutation', txt, 'unknown'))
    texts = [c[1] for c in cases]
    impl_raw = parse_all(texts)
    impl = [canon(r) for r in impl_raw]
    # ---- oracle on the real parser
    for (lab, txt, exp), r in zip(cases, impl_raw):
        res.evaluations += 1
        res.count(lab.split(':')[0] + (':' + lab.split(':')[1] if lab.startswith(('stmt', 'negative')) else ''))
        if exp == 'unknown':
            res.count('mutation_' + r[0])
            continue
        if exp is None:
            if r[0] != 'err' or r[1] != 'ParseException':
                res.violation('accepts:' + lab, {'text': txt}, canon(r), 'err ParseException')
            res.nontriv(txt)
            continue
        res.nontriv(txt)
        got = [PG.norm(t) for t in r[1]] if r[0] == 'ok' else None
        want = [PG.norm(t) for t in exp]
        if got != want:
            if lab.startswith('keyword-prefix:'):
                key = lab
            else:
                key = 'roundtrip:' + lab
            res.violation(key, {'text': txt}, canon(r), 'ok ' + PG.show(want))
    # ---- file = string, independence of earlier parser use (sequential, in this process)
    from dsdobjects.dsdparser import parse_pil_string, parse_pil_file, parse_seesaw_string
    from . import cu
    # a parse result belongs to the caller: taking it apart in place must not change what the same text parses to next time
    for (lab, txt, exp) in [c for c in cases if c[2] not in (None, 'unknown')][:40 if quick else 400]:
        cu.fresh_results(res, 'parse_pil_string', lambda: parse_pil_string(txt), {'text': txt})
        res.count('result_ownership_checked')
    docs = [c for c in cases if c[0] == 'document'][:40 if quick else 400]
    tmpdir = tempfile.mkdtemp(prefix='verif_c13_')
    same_hist = []
    try:
        for k, (lab, txt, exp) in enumerate(docs):
            res.evaluations += 1
            # two documents out of three reuse one path with an unchanged timestamp (a file that is rewritten in place:
            # what the parser returns must be the parse of what the file contains now)
            p = os.path.join(tmpdir, 'same.pil' if k % 3 else 'd%d.pil' % k)
            if k % 3:
                same_hist.append(txt)
            with open(p, 'w', newline='') as f:
                f.write(txt)
            os.utime(p, (1000000000, 1000000000))
            try:
                a = parse_pil_string(txt)
                if rng.random() < 0.5:
                    try:
                        parse_seesaw_string('INPUT(1) = w[1,2]\n' if rng.random() < 0.5 else 'garbage(')
                    except Exception:
                        pass
                b = parse_pil_file(p)
                c = parse_pil_string(txt)
                if not (a == b == c):
                    res.violation('file-or-history-dependence', {'text': txt, 'file_history': list(same_hist) if k % 3 else [txt]},
                                  'string / file / repeated parse differ', 'equal results')
            except Exception as e:
                res.violation('file-parse-raises:' + type(e).__name__, {'text': txt}, type(e).__name__, 'equal results')
            finally:
                os.unlink(p)
            res.count('file_vs_string')
        # how a file ends: no line end after the last statement, blanks or a comment after it, empty lines after it — the
        # statements read are the same
        for k, (lab, txt, exp) in enumerate([c for c in cases if c[0] == 'document'][:25 if quick else 300]):
            base = txt.rstrip('\r\n \t')
            if '#' in base.rsplit('\n', 1)[-1]:
                continue
            nrm = lambda r: [PG.norm(list(t)) for t in (r.asList() if hasattr(r, "asList") else r)]      # a dot-bracket is one token up to blanks
            want = nrm(parse_pil_string(base + '\n'))
            for tail in ('', ' ', '\t ', ' # end', '#', '\n\n\n', '\n# end', '\r\n', '\n   ', ' # end\n# more'):
                res.evaluations += 1
                p = os.path.join(tmpdir, 'tail.pil')
                with open(p, 'w', newline='') as f:
                    f.write(base + tail)
                try:
                    got = nrm(parse_pil_file(p))
                    if got != want:
                        res.violation('file-ending-changes-result', {'text': base + tail}, 'differs from the same statements with one line end', 'equal')
                except Exception as e:
                    res.violation('file-ending-raises:' + type(e).__name__, {'text': base + tail}, type(e).__name__, 'the same statements'); e = None
                finally:
                    os.unlink(p)
                res.count('file_endings')
        # a malformed statement AFTER well-formed ones: rejected through the file entry point as through the string one
        good = [c for c in cases if c[0].startswith('stmt') and c[2] not in (None, 'unknown')]
        bad = [c for c in cases if c[0].startswith('negative')]
        for k in range(min(len(bad), 60 if quick else 600)):
            g1, g2, b = rng.choice(good), rng.choice(good), bad[k]
            txt = g1[1] + ('' if g1[1].endswith('\n') else '\n') + g2[1] + ('' if g2[1].endswith('\n') else '\n') + b[1]
            res.evaluations += 1
            p = os.path.join(tmpdir, 'neg.pil')
            with open(p, 'w', newline='') as f:
                f.write(txt)
            outcomes = []
            for name, call in (('string', lambda: parse_pil_string(txt)), ('file', lambda: parse_pil_file(p))):
                try:
                    call(); outcomes.append((name, 'accepted'))
                except Exception as e:
                    outcomes.append((name, type(e).__name__)); e = None
            os.unlink(p)
            if any(o != 'ParseException' for _, o in outcomes):
                res.violation('malformed-later-statement-accepted:' + '/'.join('%s=%s' % o for o in outcomes), {'text': txt},
                              ', '.join('%s: %s' % o for o in outcomes), 'ParseException from both entry points')
            res.count('negative_documents_file_and_string')
    finally:
        os.rmdir(tmpdir)
    # ---- correspondence with the Lean model of pyparsing over the regenerated grammar
    lines = ['pil.parse\t' + PG.hx(t) for t in texts]
    try:
        model = core.run_driver(lines)
        res.streams['pil.parse'] = len(lines)
        res.traces += len(lines)
        for (lab, txt, exp), a, b in zip(cases, impl, model):
            if a != b:
                res.disagree('pil.parse', {'label': lab, 'text': txt}, a, b)
    except core.DriverBroken as e:
        proof.problem('driver', str(e))
    for c in cases[::max(1, len(cases) // 8)]:
        res.sample({'label': c[0], 'text': c[1]})
    res.rule = ('grammar-directed token trees of all 8 statement shapes (every option and keyword alias, identifiers from a pool incl. '
                'digit-only / e5 / inf / short-like names and random identifiers over the full alphabet, numbers in integer / decimal / '
                'scientific form, nested kernel patterns) x canonical + random layouts, documents of 2-8 statements, 4 negative families, '
                'keyword-prefixed names, random single mutations (correspondence only); non-trivial = every grammar-generated text; '
                'distinct by text')


def replay(body, repo):
    from dsdobjects.dsdparser import parse_pil_string, parse_pil_file
    txt = body['input']['text']
    if body['input'].get('file_history'):
        # the same path rewritten in place with an unchanged timestamp; file parse vs string parse after every rewrite
        d = tempfile.mkdtemp(prefix='verif_c13_replay_')
        p = os.path.join(d, 'same.pil')
        try:
            for i, t in enumerate(body['input']['file_history']):
                with open(p, 'w', newline='') as f:
                    f.write(t)
                os.utime(p, (1000000000, 1000000000))
                try:
                    a, b = parse_pil_string(t), parse_pil_file(p)
                    print('rewrite %d: file parse %s string parse' % (i, '==' if a == b else '!='))
                except Exception as e:
                    print('rewrite %d: %s' % (i, type(e).__name__))
        finally:
            if os.path.exists(p):
                os.unlink(p)
            os.rmdir(d)
    try:
        out = 'ok ' + PG.show(parse_pil_string(txt))
    except Exception as e:
        out = 'err ' + type(e).__name__
    print('text     :', repr(txt))
    print('observed :', out)
    print('required :', body.get('required'))
    return 1
