"""C09 — splitting yields exactly the connected components."""
import copy, itertools, random
from .. import core, gen, ref
from . import cu

MODULES = ['DsdVerif.Props.C09', 'DsdVerif.Props.PyFuncs', 'DsdVerif.Props.PyComplexS2', 'DsdVerif.Props.PyMembers3']
GEN_FILES = ['PyFuncs', 'PyComplexS', 'PyComplexS2', 'PyIdentifiers']
THEOREM_NAMES = ['split_spec', 'split_connected_id', 'split_fuel_mono', 'split_parts_wellformed',
                 # object level (World model): Props/C09Obj.lean
                 'splitC_connected_self', 'splitC_no_fault', 'splitC_components', 'splitC_twice', 'splitC_refusal_reason',
                 'inv_empty', 'inv_mkDom', 'inv_mkCplx', 'inv_mkCplxByNames', 'inv_splitC', 'inv_setTurns', 'inv_queryC', 'inv_collect',
                 'inv_drop']
THEOREMS = ['Dsd.C09.' + t for t in THEOREM_NAMES] + ['Dsd.PyFuncs.' + t for t in [
    # split_complex_pt as written in the source (Gen/PyFuncs.lean, regenerated on every run): generator, recursion, splice, seen dict
    'py_split_complex_pt_eq', 'py_split_complex_pt_eq_lm', 'py_split_of_py_pair_table', 'py_split_spec', 'py_split_malformed_faults',
    'py_make_loop_index_eq', 'py_make_pair_table_eq', 'py_split_complex_db_eq', 'py_split_complex_db_wellformed']] + ['Dsd.PyComplexS2.' + t for t in [
    # ComplexS.split as written in the source (translator/pycomplex2.py -> Gen/PyComplexS2.lean; `self.__class__(nseq, nsst)` is a parameter `request`)
    'py_split_spec', 'py_split_components', 'splitRun_cons_ok', 'splitRun_cons_refused']]
# the translated ComplexS.split equals World.splitC when the request parameter answers as the world does at each point of the run; splitC_components / splitC_twice transferred
THEOREMS += ['Dsd.PyMembers3.' + t for t in ['py_split_eq_splitC', 'py_split_handles', 'py_split_components_world', 'py_split_twice']]
ASSUMPTIONS = [
    'split_complex_pt is hand-modelled (Model/Complex.lean: splitScan, splice, splitPt with fuel = number of strands + 1) and tied to '
    'the code by the correspondence stream `split`',
    'the object-level split() is modelled by World.splitC (tied to the code by the history correspondence of C05 / C09) and is also '
    'checked on the real code against the union-find component oracle with every choice of pre-existing components (named / '
    'automatically named) and automatic-name collisions',
    'the object-level theorems hold in worlds satisfying C09.Inv (registry invariants of C01/C02, every live complex has a coherent, '
    'well-formed state whose names are its children\'s names); Inv holds in the empty world and is preserved by every World operation',
]
MANIFEST = {
    'text': 'Full for the utility: split_spec (for every well-formed structure the split succeeds; the parts partition the strands, each '
            'part keeps its strands in their original order with unchanged content, carries exactly the original base pairs re-indexed '
            'and no others, is closed under pairing and connected - hence the parts are the connected components), '
            'split_connected_id (a connected complex is returned unchanged), split_parts_wellformed, split_fuel_mono; all for any '
            'number and nesting of components. The model is tied to split_complex_pt / split_complex_db by exhaustive correspondence; '
            'the object-level contract of split() is proved on the World model for every world satisfying the invariant C09.Inv (preserved '
            'by all operations): splitC_no_fault (only handles or one SingletonError), splitC_components (one output per component, '
            'each the registered singleton of that component\'s rotation class, the live object if one existed), splitC_twice (a second '
            'split returns the same handles, all old - when the next automatic name is free; counterexample otherwise), '
            'splitC_connected_self (a connected complex yields itself unless the next automatic name is bound to another complex - the '
            'behaviour pinned by test_split_exception; counterexample kept), splitC_refusal_reason (a refusal happens only when the '
            'automatic name needed is bound to a live complex of another rotation class; the handles held before are exactly those '
            'held afterwards). The same contract is checked on the real code over every subset of pre-existing components.'
            ' STATEMENT LEVEL, FROM THE SOURCE: split_complex_pt - the recursive generator with its nested splice(), the seen dict, break, asserts and the call of make_loop_index - is transcribed statement by statement from the working tree (translator/pyfunc.py -> Gen/PyFuncs.lean: generators as lists, recursion on an explicit fuel, checked subtraction) and proved equal to the model for every table make_pair_table returns and every strand table (py_split_complex_pt_eq, under the splice-closed invariant py_split_complex_pt_eq_lm), so the main theorem holds of the code as written (py_split_spec: the parts are sub-complexes on index sets that partition the strands, every part connected); py_split_malformed_faults shows the hypothesis is needed; the transcription is run against the implementation on every generated input.',
    'note': 'Object-level theorems are about World.splitC, tied to ComplexS.split() by correspondence; trusted base as in DESIGN.md 3.',
    'source_derived': 'The object method ComplexS.split is transcribed from the working tree too (translator/pycomplex2.py -> Gen/PyComplexS2.lean; the construction request self.__class__(nseq, nsst) is a parameter that may refuse with or without `existing`): PyComplexS2.py_split_spec proves that for EVERY request function the list yielded is the request applied to the parts of split_complex_pt as written, in order, a refusal with `existing` yielding that object and the first refusal without it aborting; py_split_components composes it with PyFuncs.py_split_spec (the parts are the connected components); stream ComplexS.split.source-derived with the real requests recorded by a metaclass.',
    'technique': 'Lean 4 proof by strong induction on the number of strands (splice preserves well-formed matchings); correspondence check; union-find oracle',
}


def structures(res, rng):
    quick = res.tier == 'quick'
    L = 7 if quick else 9
    out = list(gen.wellformed_structures(L, 4))
    res.dist['exhaustive_positions_le'] = L
    if not quick:
        out += [s for s in gen.wellformed_structures(8, 6, minpos=5) if s.count('+') >= 4]
    res.dist['exhaustive_structures'] = len(out)
    for _ in range(300 if quick else 6000):
        npos = rng.choice((12, 30, 80)) if rng.random() < 0.4 else rng.randint(2, 25)
        out.append(gen.random_structure(rng, npos, nstrands=rng.choice((None, 3, 5, 8)), pair_bias=rng.choice((0.2, 0.4, 0.7)),
                                        depth_bias=rng.choice((0.3, 0.6))))
    for _ in range(1500 if quick else 30000):
        out.append(gen.random_nested_components(rng, depth=rng.choice((1, 2, 2, 3))))
    out.append('(+((+).+)+(+.))')
    return out


def _split(seq):
    cur = []
    for x in seq:
        if x == '+':
            yield cur; cur = []
        else:
            cur.append(x)
    yield cur


def is_rotation(a, b):
    return len(a) == len(b) and any(a[k:] + a[:k] == b for k in range(max(1, len(a))))


def util_oracle(res, cux, s):
    seq = gen.label(s, unique=True)
    sst = list(s)
    strands = s.split('+')
    li, ext, comps = ref.ref_loops(strands)
    seq0, sst0 = list(seq), list(sst)
    try:
        parts = [(list(a), list(b)) for a, b in cux.split_complex_db(seq, sst)]
    except Exception as e:
        res.violation('split_complex_db:raises:' + type(e).__name__, {'op': ['split', ' '.join(seq0), s]}, type(e).__name__, 'components')
        return None
    if seq != seq0 or sst != sst0:
        res.violation('split_complex_db:modifies-input', {'op': ['split', ' '.join(seq0), s]}, 'input changed', 'inputs untouched')
    if len(s) <= 12:
        # the pair-table entry point: deep comparison of BOTH input tables (rows included), and results that belong to the caller
        import copy as _copy
        stab, ptab = cux.make_strand_table(list(seq0)), cux.make_pair_table(s)
        st0, pt0 = _copy.deepcopy(stab), _copy.deepcopy(ptab)
        try:
            r = [(_copy.deepcopy(a), _copy.deepcopy(b)) for a, b in cux.split_complex_pt(stab, ptab)]
            if stab != st0 or ptab != pt0:
                res.violation('split_complex_pt:modifies-input', {'op': ['split', ' '.join(seq0), s]},
                              'pair table after the call: %r' % (ptab,), 'inputs untouched (rows included): %r' % (pt0,))
            r2 = [(_copy.deepcopy(a), _copy.deepcopy(b)) for a, b in cux.split_complex_pt(stab, ptab)]
            if r2 != r:
                res.violation('split_complex_pt:second-call-differs', {'op': ['split', ' '.join(seq0), s]}, repr(r2)[:160], repr(r)[:160])
        except Exception as e:
            res.violation('split_complex_pt:raises:' + type(e).__name__, {'op': ['split', ' '.join(seq0), s]}, type(e).__name__, 'components, twice')
        cu.fresh_results(res, 'split_complex_db', lambda: cux.split_complex_db(list(seq0), list(sst0)), {'op': ['split', ' '.join(seq0), s]})
        # join=True is the joined list form - also when two components are IDENTICAL (all positions labelled alike)
        same = ['+' if x == '+' else 'a' for x in seq0]
        try:
            pl = [(''.join(a), ''.join(b)) for a, b in cux.split_complex_db(list(same), list(sst0))]
            pj = [(a, b) for a, b in cux.split_complex_db(list(same), list(sst0), join=True)]
            if pj != pl or len(pl) != len(comps):
                res.violation('split_complex_db:join-form', {'op': ['split', ' '.join(same), s]}, 'join=True: %r' % (pj,), 'the joined list form %r (%d components)' % (pl, len(comps)))
        except Exception as e:
            res.violation('split_complex_db:join-form:raises:' + type(e).__name__, {'op': ['split', ' '.join(same), s]}, type(e).__name__, 'components')
        cu.same_for_forms(res, 'split_complex_db', [('structure as list', lambda: cux.split_complex_db(list(seq0), list(sst0))),
                                                    ('structure as str', lambda: cux.split_complex_db(list(seq0), s))], {'op': ['split', ' '.join(seq0), s]})
        cu.same_for_forms(res, 'split_complex_pt', [('lists', lambda: cux.split_complex_pt(cux.make_strand_table(list(seq0)), cux.make_pair_table(s))),
                                                    ('tuples', lambda: [(list(map(list, a)), b) for a, b in cux.split_complex_pt(cu.tup(cux.make_strand_table(list(seq0))), cu.tup(cux.make_pair_table(s)))])],
                          {'op': ['split', ' '.join(seq0), s]})
    got = 'ok ' + ' ; '.join(' '.join(a) + ' / ' + ''.join(b) for a, b in parts)
    orig_strands = list(_split(seq0))
    ok = len(parts) == len(comps)
    used = set()
    allpairs = set()
    if ok:
        for a, b in parts:
            pst = list(_split(a))
            # which component?
            idxs = []
            for st in pst:
                if st not in orig_strands:
                    ok = False; break
                idxs.append(orig_strands.index(st))      # unique labels -> unique strands
            if not ok:
                break
            comp = set(idxs)
            if comp not in comps or frozenset(comp) in used:
                ok = False; break
            used.add(frozenset(comp))
            if not is_rotation(sorted(comp), idxs):       # original cyclic order
                ok = False; break
            ps = ref.pair_label_set(a, b)
            if ps is None:
                ok = False; break
            allpairs |= {tuple(sorted(x)) for x in ps}
            # connected and well-formed
            _, _, c2 = ref.ref_loops(''.join(b).split('+'))
            if len(c2) != 1:
                ok = False; break
    if ok:
        ok = allpairs == {tuple(sorted(x)) for x in ref.pair_label_set(seq0, sst0)}
    if ok and len(comps) == 1:
        ok = parts == [(seq0, sst0)]
    if not ok:
        res.violation('split_complex_db:components', {'op': ['split', ' '.join(seq0), s]}, got,
                      '%d parts = connected components %r (cyclic order, same pairs, each connected)' % (len(comps), comps))
        return None
    return parts


class _SubComplex:            # created lazily (the library must be imported from the repo under test first)
    cls = None


def subclass_split(res, rng, s, parts):
    """split() of a user subclass yields singletons of THAT class: the live subclass object of a component if there is one,
    never an equal object of the base class; a connected subclass complex yields itself"""
    from dsdobjects import clear_singletons, SingletonError
    from dsdobjects.base_classes import ComplexS, DomainS
    if _SubComplex.cls is None:
        _SubComplex.cls = type('MyComplex', (ComplexS,), {})
    Sub = _SubComplex.cls
    names = gen.label(s, rng, ['a', 'b'])
    clear_singletons(DomainS); clear_singletons(ComplexS); clear_singletons(Sub)
    ComplexS.ID = 1
    dom = {n: DomainS(n, 5) for n in ('a', 'b')}
    uniq = [x for x in gen.label(s, unique=True) if x != '+']
    rename = dict(zip(uniq, [x for x in names if x != '+']))
    comps = [([rename.get(x, x) for x in a], list(b)) for a, b in parts]
    desc = {'op': ['MyComplex.split', ' '.join(names), s]}
    def mk(K, a, b, name):
        return K([dom[x] if x != '+' else '+' for x in a], list(b), name=name)
    try:
        a0, b0 = comps[0]
        twin = mk(ComplexS, a0, b0, 'basetwin')            # an equal complex in the BASE class registry
        whole_rots = set(ref.rotations(names, s))
        live = None
        if len(comps) > 1 or rng.random() < 0.5:
            if not (set(ref.rotations(a0, b0)) & whole_rots) or len(comps) > 1:
                live = mk(Sub, a0, b0, 'live0')             # the live subclass object of the first component
        whole = mk(Sub, names, s, 'whole') if not (live is not None and len(comps) == 1) else live
        got = list(whole.split())
        bad = []
        if len(got) != len(comps):
            bad.append('%d parts' % len(got))
        for g in got:
            if type(g) is not Sub:
                bad.append('a part is a %s' % type(g).__name__)
            elif Sub._instanceNames.get(g.name) is not g:
                bad.append('part %s is not registered in the subclass' % g.name)
        if got and got[0] is twin:
            bad.append('the base-class twin was returned')
        if live is not None and len(comps) > 1 and got and got[0] is not live:
            bad.append('the live subclass component was not returned')
        if len(comps) == 1 and got and got[0] is not whole:
            bad.append('a connected complex did not yield itself')
        if bad:
            res.violation('split():subclass', desc, '; '.join(bad[:3]), 'singletons of the subclass (the live one if it exists)')
        del got, whole, live, twin
    except SingletonError:
        pass
    except Exception as e:
        res.violation('split():subclass:raises:' + type(e).__name__, desc, type(e).__name__, 'components')
        e = None
    clear_singletons(ComplexS); clear_singletons(Sub)
    res.count('subclass_split_scenarios')


def object_oracle(res, rng, s, parts, tier):
    """every subset of components pre-existing (named / auto-named / named in another rotation), plus automatic-name collisions"""
    from dsdobjects import clear_singletons, SingletonError
    from dsdobjects.base_classes import ComplexS, DomainS
    k = len(parts)
    names = gen.label(s, rng, ['a', 'b'])
    clear_singletons(DomainS)
    dom = {n: DomainS(n, 5) for n in ('a', 'b')}
    seq = [dom[x] if x != '+' else '+' for x in names]
    uniq = [x for x in gen.label(s, unique=True) if x != '+']
    rename = dict(zip(uniq, [x for x in names if x != '+']))
    comps = [([rename.get(x, x) for x in a], list(b)) for a, b in parts]
    subsets = list(itertools.product((0, 1, 2, 3), repeat=k))        # 0 absent, 1 named, 2 auto-named, 3 named, other rotation
    if len(subsets) > 16:
        subsets = rng.sample(subsets, 16 if tier == 'quick' else 64)

    def mk(a, b, name):
        return ComplexS([dom[x] if x != '+' else '+' for x in a], list(b), name=name)

    # the components do not depend on the representation: a `turns` assignment before the split (with or without tables filled by
    # earlier queries) changes at most the ORDER in which split() yields them (and with it which automatic name goes to which new
    # component) - never the set of components, their being singletons, or the identity of the objects on a second split
    for v in rng.sample([1, 2, -1, 3], 2):
        clear_singletons(ComplexS)
        ComplexS.ID = 1
        ComplexS.PREFIX = 'c'
        desc = {'op': ['ComplexS.turns = %d, then split()' % v, ' '.join(names), s]}
        try:
            whole = mk(names, s, 'whole')
            if rng.random() < 0.5:
                for q in rng.sample(['connected', 'exterior', 'pairs', 'strands', 'size'], 2):
                    try:
                        if q == 'connected': whole.is_connected
                        elif q == 'exterior': whole.exterior_domains
                        elif q == 'pairs': list(whole.pair_table)
                        elif q == 'strands': list(whole.strand_table)
                        else: whole.size
                    except Exception as e:
                        e = None
            whole.turns = v
            got = list(whole.split())
            got2 = list(whole.split())
            want = sorted(min(ref.rotations(a, b)) for a, b in comps)
            have = sorted(min(ref.rotations(list(map(str, g.sequence)), list(g.structure))) for g in got)
            if want != have or len(got2) != len(got) or any(x is not y for x, y in zip(got, got2)):
                res.violation('split():after-turns', desc, '%d parts: %s' % (len(got), [' '.join(map(str, g.sequence)) + ' / ' + ''.join(g.structure) for g in got][:4]),
                              'the %d components of the complex (in any order), identical objects on a second split' % len(comps))
            res.count('turned_before_split')
            del whole, got, got2
        except Exception as e:
            res.violation('split():after-turns:raises:' + type(e).__name__, desc, '%s: %s' % (type(e).__name__, str(e)[:80]), 'the components'); e = None
    for sub in subsets:
        for collide in (False, True):
            clear_singletons(ComplexS)
            ComplexS.ID = 1
            ComplexS.PREFIX = 'c'
            live = []            # (object or None for simulated, name, set of rotation keys)
            skip = False
            for i, mode in enumerate(sub):
                if not mode:
                    continue
                a, b = comps[i]
                rots = ref.rotations(a, b)
                if any(rots[0] in r for _, _, r in live):
                    continue     # an identical component already exists
                a2, b2 = rots[1 % len(rots)] if mode == 3 else rots[0]
                try:
                    o = mk(a2, b2, ('P%d' % i) if mode in (1, 3) else None)
                except SingletonError:
                    skip = True
                    break
                live.append((o, o.name, set(rots)))
            if skip:
                continue
            if collide:
                cname = 'c%d' % ComplexS.ID
                try:
                    o = mk(['a', 'a', 'a', 'b'], '....', cname)
                    live.append((o, o.name, set(ref.rotations(['a', 'a', 'a', 'b'], '....'))))
                except SingletonError:
                    continue
            wrots = set(ref.rotations(names, s))
            if any(wrots & r for _, _, r in live):
                continue
            try:
                whole = mk(names, s, 'whole')
            except SingletonError:
                continue
            live.append((whole, 'whole', wrots))
            res.evaluations += 1
            res.count('object_split_k%d' % k)
            if rng.random() < 0.6:
                # queries before the split (some are refused on a disconnected complex): what was asked before, and whether
                # it was refused, has no influence on the components split() yields
                for q in rng.sample(['loop', 'connected', 'exterior', 'enclosed', 'pairs', 'strands', 'dlc'], rng.randint(1, 4)):
                    try:
                        if q == 'loop': whole.get_loop_index((0, 0))
                        elif q == 'connected': whole.is_connected
                        elif q == 'exterior': whole.exterior_domains
                        elif q == 'enclosed': whole.enclosed_domains
                        elif q == 'pairs': list(whole.pair_table)
                        elif q == 'strands': list(whole.strand_table)
                        else: whole.is_domainlevel_complement
                    except Exception as e:
                        e = None
                res.count('queried_before_split')
            partial = bool((sum(sub) + int(collide)) % 2)
            if partial:
                # an abandoned first iteration must not influence later calls (it may consume an automatic name)
                try:
                    g = whole.split()
                    first = next(g, None)
                    del g, first
                except SingletonError:
                    pass
            # expectation: direct statement of the contract on the registry state
            exp, expect_raise, nid = [], False, ComplexS.ID
            sim = list(live)
            for a, b in comps:
                auto = 'c%d' % nid
                key = (tuple(a), tuple(b))
                N = next((e for e in sim if e[1] == auto), None)
                C = next((e for e in sim if key in e[2]), None)
                if N is None and C is None:
                    e = (None, auto, set(ref.rotations(a, b)))
                    sim.append(e); exp.append(e); nid += 1
                elif N is None or N is C:
                    exp.append(C)
                else:
                    expect_raise = True
                    break
            try:
                got = list(whole.split())
                got2 = list(whole.split())
                raised = False
            except SingletonError:
                raised, got, got2 = True, [], []
            if raised and expect_raise and collide:
                # retry once the colliding automatic name is free again: every component must be yielded
                for e in list(live):
                    if e[1] == cname and e[0] is not None:
                        live.remove(e)
                e = None
                try:
                    retry = list(whole.split())
                    keys = set()
                    for g_ in retry:
                        keys |= set(ref.rotations([str(x) for x in g_.sequence], list(g_.structure)))
                    if len(retry) != len(comps) or any((tuple(a), tuple(b)) not in keys for a, b in comps):
                        res.violation('split():incomplete-after-retry', {'op': ['ComplexS.split retry', ' '.join(names), s, 'pre=' + ''.join(map(str, sub))]},
                                      '%d parts' % len(retry), 'all %d components' % len(comps))
                    del retry
                except SingletonError:
                    pass
            desc = {'op': ['ComplexS.split', ' '.join(names), s, 'pre=' + ''.join(map(str, sub)), 'collide=%s' % collide]}
            if raised != expect_raise:
                res.violation('split():raise-mismatch', desc, 'raised' if raised else 'yielded %d' % len(got),
                              'raise' if expect_raise else 'yield %d singletons' % len(exp))
            elif not raised:
                okk = len(got) == len(exp) and len(got2) == len(got) and all(x is y for x, y in zip(got, got2))
                if okk:
                    for g, e in zip(got, exp):
                        if e[0] is None:
                            gk = (tuple(map(str, g.sequence)), tuple(g.structure))
                            if g.name != e[1] or gk not in e[2]:
                                okk = False
                        elif g is not e[0]:
                            okk = False
                if not okk:
                    res.violation('split():wrong-objects', desc, repr(got), 'the singleton of every component, identical on a second split')
                res.nontriv(('obj', s, sub, collide))
            # components that were released may have their (automatic) names taken by unrelated complexes:
            # a later split must still yield the components, not whatever now carries those names
            if not raised:
                newnames = [g.name for g, e in zip(got, exp) if e[0] is None]
                del got, got2
                squat = []
                for nm in newnames:
                    try:
                        squat.append(mk(['b', 'b', 'a', 'b', 'a'], '.....', nm))
                    except SingletonError:
                        pass
                if squat:
                    try:
                        got3 = list(whole.split())
                        keys = [(tuple(map(str, g.sequence)), tuple(g.structure)) for g in got3]
                        okk = len(got3) == len(comps) and all(k in set(ref.rotations(a, b)) for k, (a, b) in zip(keys, comps))
                        if not okk:
                            res.violation('split():wrong-objects-after-name-reuse', desc, repr(got3), 'the components of the complex')
                        del got3
                    except SingletonError:
                        pass
                    res.count('name_reuse_scenarios')
                del squat
            got = got2 = None
            del whole
            live.clear(); sim.clear(); exp.clear()
    clear_singletons(ComplexS)
    ComplexS.ID = 1


def run(res, proof):
    from dsdobjects import complex_utils as cux
    rng = random.Random(res.seed * 613 + 9)
    structs = structures(res, rng)
    res.rule = ('every well-formed structure with non-empty strands up to %d positions / 4 strands (exhaustive; thorough adds 5-6 strand '
                'structures), seeded random up to 80 positions / 8 strands; object level: structures with 2-3 components x every subset '
                'of components pre-existing (absent / named / auto-named / named in another rotation) x automatic-name collision; '
                'non-trivial = at least two components' % res.dist['exhaustive_positions_le'])
    res.exhaustive = True
    ops = []
    obj_budget = 120 if res.tier == 'quick' else 1500
    for s in structs:
        res.evaluations += 1
        ops.append(('split', ' '.join(gen.label(s, unique=True)), s))
        ops.append(('split', ' '.join(gen.label(s, rng, ['a', 'b'])), s))
        parts = util_oracle(res, cux, s)
        if parts is None:
            continue
        res.count('components_%d' % min(len(parts), 5))
        if len(parts) >= 2:
            res.nontriv(s)
            if len(parts) <= 3 and len(s) <= 12 and obj_budget > 0 and rng.random() < 0.2:
                obj_budget -= 1
                subclass_split(res, rng, s, parts)
                try:
                    object_oracle(res, rng, s, parts, res.tier)
                except Exception as e:
                    res.violation('split():raises:' + type(e).__name__, {'op': ['ComplexS.split', ' '.join(gen.label(s, unique=True)), s]},
                                  type(e).__name__ + ' during split() scenarios on a well-formed complex (first or repeated split)',
                                  'components, or SingletonError on an automatic-name collision')
                    e = None
    impl = [cu.impl_op(cux, op) for op in ops]
    cu.rerun_sample(res, 'complex_utils', ops, impl, lambda op: cu.impl_op(cux, op), rng)
    lines = ['\t'.join(op) for op in ops]
    try:
        model = core.run_driver(lines)
        core.compare_streams(res, 'complex_utils.split', lines, impl, model)
    except core.DriverBroken as e:
        proof.problem('driver', str(e))
    cu.source_derived_stream(res, proof, 'complex_utils.split.source-derived', ops, impl)
    from .pycomplex2_stream import source_derived_pycomplex2
    core.run_stream(source_derived_pycomplex2, res, proof)      # ComplexS.split / is_domainlevel_complement as translated from the working tree
    for op in ops[::max(1, len(ops) // 8)]:
        res.sample('\t'.join(op))


def replay(body, repo):
    return cu.replay(body, repo)
