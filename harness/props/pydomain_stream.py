"""`DomainS.identifiers` as translated from the working tree (translator/pydomain.py -> Gen/PyDomain.lean), inside the whole request
`DomainS(…)` (lean/DsdVerif/DriverDomain.lean: the translated identifiers + the translated `Singleton.__call__` + a hand-written
`__init__` attribute part), against the real class.

`source_derived_pydomain(res, proof)` runs C04's history alphabet (harness/props/c04.py `alphabet()`: 41 ops - requests over names a /
a* / automatic x lengths x dtypes, explicit None keywords, empty prefix, length 0, complements `inv`, `drop`s - under C04's class
settings `CFGS`) on the REAL class through harness/world.py and on the stateful driver `stepDomain`, and compares after EVERY step the
result (returned handle new / old, exception kind with `existing`) and the registry (sorted names, canonical keys in insertion order,
`ID`): stream `DomainS.request.source-derived`.
"""
import itertools
import os
import random
from .. import core, world as W
from . import c04

STREAM = 'DomainS.request.source-derived'


def names_line(iw):
    D = iw.classes['dom'][0]
    return 'names %s canon %s ID %d' % (','.join(sorted(D._instanceNames.keys())),
                                        ','.join('%s:%d' % k for k in list(D._instanceCanon.keys())), D.ID)


def run_domain_driver(lines):
    """the driver with `stepDomain` wired in (Main.lean); before the integration, the private loop MainDomain.lean"""
    wired = 'stepDomain' in open(os.path.join(core.LEAN, 'DsdVerif', 'Driver.lean'), encoding='utf-8').read()
    if wired:
        return core.run_driver(['pydom.' + l for l in lines])      # the ops are named like the World's: prefixed in the common driver
    rc, out, err = core.sh(['lake', 'env', 'lean', '--run', 'MainDomain.lean'], cwd=core.LEAN, input='\n'.join(lines) + '\n', timeout=1800)
    if rc != 0:
        raise core.DriverBroken((out + err)[-3000:])
    got = out.split('\n')
    if got and got[-1] == '':
        got.pop()
    if len(got) != len(lines):
        raise core.DriverBroken('driver returned %d lines for %d requests; tail: %s' % (len(got), len(lines), got[-3:]))
    return got


def source_derived_pydomain(res, proof):
    rng = random.Random(res.seed * 2750159 + 404)
    quick = res.tier == 'quick'
    ops = c04.alphabet()
    iw = W.ImplWorld()
    lines, impl, starts = [], [], []

    def run_one(cfg, combo):
        starts.append(len(lines))
        for l in ['reset', 'cfg.dom\t0\t%d\t%d\t%d' % cfg] + list(combo):
            lines.append(c04.model_line(l)); impl.append(iw.do(l))
            lines.append('names'); impl.append(names_line(iw))

    for cfg in c04.CFGS:
        for d in (1, 2):
            for combo in itertools.product(ops, repeat=d):
                if d == 2 and quick and cfg != c04.CFGS[0] and rng.random() < 0.8:
                    continue
                run_one(cfg, combo)
    for _ in range(1500 if quick else 30000):
        cfg = rng.choice(c04.CFGS)
        combo = [rng.choice(ops) for _ in range(rng.randint(3, 7))]
        if rng.random() < 0.3:
            combo.insert(rng.randrange(1, len(combo)), 'cfg.dom\t0\t%d\t%d\t%d' % rng.choice(c04.CFGS))
        run_one(cfg, combo)
    iw.reset()
    try:
        out = run_domain_driver(lines)
    except core.DriverBroken as e:
        proof.problem('driver', 'pydomain stream: ' + str(e))
        return
    # a disagreement is reported with the history up to it
    res.streams[STREAM] = res.streams.get(STREAM, 0) + len(lines)
    res.traces += len(starts)
    bounds = starts + [len(lines)]
    for a, b in zip(bounds, bounds[1:]):
        for i in range(a, b):
            if impl[i] != out[i]:
                res.disagree(STREAM, [l for l in lines[a:i + 1] if l != 'names'], impl[i], out[i])
                break
    res.dist['pydomain:histories'] = len(starts)
    res.dist['pydomain:steps'] = len(lines) // 2
    res.dist['pydomain:refused'] = sum(1 for x in impl if x.startswith('err'))
    res.dist['pydomain:created'] = sum(1 for x in impl if x.endswith(' new'))
    res.sample(lines[:8])
