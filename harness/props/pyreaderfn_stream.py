"""`read_reaction`, `set_io_objects`, `clear_io_objects` as translated from the working tree (translator/pyreaderfn.py ->
Gen/PyReaderFns.lean) against the real functions.

`source_derived_pyreaderfn(res, proof)` generates inputs, runs the REAL functions of `dsdobjects.objectio` in-process and the
translated ones through the driver ops `pyrx.read` / `pyio.run` (lean/DsdVerif/DriverReaderFns.lean) and compares the answer streams:

  read_reaction.source-derived   CPython vs `Gen.py_read_reaction`: a disagreement means the translator's reading of Python is wrong
                                 for some statement - or the code changed under it
  read_reaction.model            CPython vs the hand-written `ReaderFull.readReaction` (components rtype, rate, units) on the lines
                                 that are TYPED as the model assumes (`line_typed`: the info box is a list of lists of strs, reactants
                                 and products are lists) - the domain of Props/PyReaderFns `py_read_reaction_eq_model`
  io_objects.source-derived      CPython vs `Gen.py_set_io_objects` / `Gen.py_clear_io_objects`: the five module attributes after
                                 every call of a random call sequence, with user subclasses of the five library classes

Lines for `read_reaction`:
  * harness/pilgen.py reaction statements (with / without info box, type, error term, units; types outside RTYPES), rendered with
    random layout and parsed by the REAL `parse_pil_string`; `Reaction.RTYPES` is the library set or the set of a user subclass;
  * hand-built degenerate lines that no parser yields: short lines, empty pieces of the info box, strs where lists are expected
    (Python then subscripts CHARACTERS), lists where strs are expected (unhashable rtype, float() of a list, join of a list).
The float literals are compared numerically (`float(literal)` against the float the code returns), the opaque renderings `{:12g}`
and `str(list)` inside the sixth component are filled in with what CPython prints.  NOT compared: a str that is not a float
literal where the code calls `float()` (ValueError in CPython, not modelled: counted as `pyrx:float_value_error`, none generated
on purpose).
"""
import os
import random
import re
from .. import core, pilgen as PG

STREAM_RX = 'read_reaction.source-derived'
STREAM_RX_MODEL = 'read_reaction.model'
STREAM_IO = 'io_objects.source-derived'


def hx(s):
    return ''.join('%04x' % ord(c) for c in s)


def unhx(h):
    return ''.join(chr(int(h[i:i + 4], 16)) for i in range(0, len(h), 4))


def enc_tree(t):
    if isinstance(t, str):
        return 'h' + hx(t)
    return '[' + ''.join(' ' + enc_tree(x) for x in t) + ' ]'


def enc_forest(ts):
    """the driver's forest encoding of a list of trees (request side: single blanks)"""
    return ' '.join(enc_tree(t) for t in ts)


def dec_forest(s):
    """nested lists / strs from the words of a forest encoding"""
    stack = [[]]
    for w in s.split():
        if w == '[':
            stack.append([])
        elif w == ']':
            x = stack.pop()
            stack[-1].append(x)
        else:
            stack[-1].append(unhx(w[1:]))
    return stack[0]


def to_lists(x):
    return [to_lists(t) if not isinstance(t, str) else t for t in x]


def show_opt_tree(x):
    return 'None' if x is None else enc_tree(x)


def show_impl(res6):
    a, b, c, d, e, f = res6
    return 'ok ' + '|'.join([show_opt_tree(a), show_opt_tree(b), show_opt_tree(c), 'None' if d is None else 'f' + repr(d),
                             show_opt_tree(e), 'None' if f is None else 's' + hx(f)])


MARK = re.compile('\x01([gl])(.*?)\x02', re.S)


def normalise_model(ans):
    """the driver's answer with the float literal evaluated and the opaque renderings filled in by CPython"""
    if not ans.startswith('ok '):
        return ans
    parts = ans[3:].split('|')
    if len(parts) != 6:
        return ans
    try:
        if parts[3] != 'None':
            parts[3] = 'f' + repr(float(unhx(parts[3][1:])))
        if parts[5] != 'None':
            def fill(m):
                if m.group(1) == 'g':
                    return '{:12g}'.format(float(m.group(2)))
                [x] = dec_forest('[ ' + m.group(2) + ' ]')
                return str(x)
            parts[5] = 's' + hx(MARK.sub(fill, unhx(parts[5][1:])))
    except ValueError:
        return ans + ' (unreadable float literal)'
    return 'ok ' + '|'.join(parts)


def show_model3(res6):
    """the three components the model keeps, in the driver's `rx.model` format"""
    _, _, rtype, rate, units, _ = res6
    sh = lambda x: 'None' if x is None else ('h' + hx(x) if isinstance(x, str) else '?' + repr(x))
    return 'ok ' + '|'.join([sh(rtype), 'None' if rate is None else 'f' + repr(rate), sh(units)])


def normalise_model3(ans):
    if not ans.startswith('ok '):
        return ans
    parts = ans[3:].split('|')
    try:
        if len(parts) == 3 and parts[1] != 'None':
            parts[1] = 'f' + repr(float(unhx(parts[1][1:])))
    except ValueError:
        return ans + ' (unreadable float literal)'
    return 'ok ' + '|'.join(parts)


def line_typed(line):
    """the typing under which the model is the code (Lemmas/PyReaderFns `lineTyped`): `line[1]` a list of lists of strs,
    `line[2]`, `line[3]` lists"""
    if len(line) > 1:
        if not isinstance(line[1], list) or not all(isinstance(x, list) and all(isinstance(y, str) for y in x) for x in line[1]):
            return False
    return all(isinstance(x, list) for x in line[2:4])


# ---- inputs ------------------------------------------------------------------------------------------------------------------

INFO_POOL = [
    [], [[]], [[], []], [[], [], []], [['open'], [], []], [[], ['1.5'], []], [[], ['1.5'], ['/s']], [['open'], ['1.5'], []],
    [['open'], ['1.5', '2'], ['/s']], [['open'], ['1', '2', '3'], ['/M/s']], [['foo'], ['7'], ['/s']], [['condensed'], ['2e-3', 'inf'], ['/nM/s']],
    [['open', 'bind11'], ['3'], ['/s', '/m']], [['bind21'], ['3']], [['bind21']], [[], ['3']],
    # strs where lists are expected: Python subscripts characters
    ['open', '12', '/s'], ['open', '1', 's'], 'open', '123', '1234', '', ['', '', ''], [['open'], '15', ['/s']], [['open'], ['1'], '/s'],
    [['open'], '', ['/s']], ['o', ['5'], ['/s']], [[''], ['5'], ['/s']],
    # lists where strs are expected
    [[['open']], ['1'], ['/s']], [['open'], [['1']], ['/s']], [['open'], ['1', ['2']], ['/s']], [['open'], ['1'], [['/s']]],
    [['open'], ['1'], [[]]], [[[]], ['1'], ['/s']], [['open'], ['1', '2'], [['/M', '/s'], 'x']],
]
SPECIES_POOL = [['A'], ['A', 'B'], ['A', 'B', 'C'], [], 'AB', 'A', '', [['A']], ['A', ['B']], [[]], ['']]


def handbuilt(rng, n):
    out = [['reaction'], [], ['reaction', []], ['reaction', [], ['A']], ['reaction', [['open'], ['1'], ['/s']]],
           ['reaction', [['open'], ['1'], ['/s']], ['A']], ['reaction', 'x'], ['reaction', [['open'], ['1'], ['/s']], ['A'], ['B'], ['extra']]]
    for info in INFO_POOL:
        for sp in SPECIES_POOL[:3]:
            out.append(['reaction', info, sp, ['B']])
    for sp in SPECIES_POOL:
        out.append(['reaction', [['open'], ['1'], ['/s']], sp, ['B']])
        out.append(['reaction', [['open'], ['1'], ['/s']], ['A'], sp])
        out.append(['reaction', [], sp, sp])
    for _ in range(n):
        k = rng.randint(1, 4)
        line = ['reaction', rng.choice(INFO_POOL), rng.choice(SPECIES_POOL), rng.choice(SPECIES_POOL)][:k]
        out.append(line)
    return out


def parsed_lines(res, rng, n):
    from dsdobjects.dsdparser import parse_pil_string
    out = []
    for _ in range(n):
        tree, spec = PG.rand_statement(rng, 'rxn')
        text = PG.render_statement(tree, spec, PG.Layout(rng if rng.random() < 0.5 else None)) + '\n'
        try:
            [pl] = parse_pil_string(text)
        except Exception:
            res.count('pyrx:unparsed')
            continue
        out.append(to_lists(pl))
        res.count('pyrx:parsed_lines')
    return out


def run_rf_driver(lines):
    """the driver with `stepReaderFns` wired in (Main.lean); before the integration, the private loop MainReaderFns.lean"""
    wired = 'stepReaderFns' in open(os.path.join(core.LEAN, 'DsdVerif', 'Driver.lean'), encoding='utf-8').read()
    if wired:
        return core.run_driver(lines)
    data = '\n'.join(lines) + '\n'
    rc, out, err = core.sh(['lake', 'env', 'lean', '--run', 'MainReaderFns.lean'], cwd=core.LEAN, input=data, timeout=1200)
    if rc != 0:
        raise core.DriverBroken((out + err)[-3000:])
    got = out.split('\n')
    if got and got[-1] == '':
        got.pop()
    if len(got) != len(lines):
        raise core.DriverBroken('driver returned %d lines for %d requests; tail: %s' % (len(got), len(lines), got[-3:]))
    return got


# ---- read_reaction -----------------------------------------------------------------------------------------------------------

def stream_read_reaction(res, proof, rng, quick):
    import copy
    from dsdobjects import objectio, base_classes as bc
    lines = parsed_lines(res, rng, 400 if quick else 6000)
    hb = handbuilt(rng, 300 if quick else 5000)
    res.count('pyrx:handbuilt', len(hb))
    own = [type('OwnTypes', (bc.ReactionS,), {'RTYPES': set(rt)}) for rt in (('foo', 'open'), ('21', 'e5', 'condensed', '1'), ())]
    reqs, impl, typed, impl3 = [], [], [], []
    for k, line in enumerate(lines + hb):
        R = None if k % 3 else rng.choice(own)
        objectio.set_io_objects(R=R)
        rtypes = sorted(objectio.Reaction.RTYPES)
        l0 = copy.deepcopy(line)
        o3 = None
        try:
            r6 = objectio.read_reaction(line)
            o = show_impl(r6)
            o3 = show_model3(r6)
        except ValueError:
            res.count('pyrx:float_value_error')
            continue
        except Exception as e:
            o = 'err ' + type(e).__name__
            o3 = o
            e = None
        finally:
            objectio.clear_io_objects()
        if line != l0:
            res.violation('read_reaction:mutates-its-argument', {'line': repr(l0)[:300]}, repr(line)[:300], 'argument unchanged')
        reqs.append('pyrx.read\t' + enc_forest(rtypes) + '\t' + enc_forest(l0)); impl.append(o)
        typed.append(line_typed(l0) and R is None); impl3.append(o3)
        if o.startswith('ok None'):
            res.count('pyrx:ignored')
        elif o.startswith('ok'):
            res.count('pyrx:accepted')
    twin = ['rx.model\t' + r.split('\t')[2] for r in reqs]
    try:
        out = run_rf_driver(reqs + twin)
    except core.DriverBroken as e:
        proof.problem('driver', 'pyreaderfn stream: ' + str(e))
        return
    core.compare_streams(res, STREAM_RX, reqs, impl, [normalise_model(a) for a in out[:len(reqs)]])
    n_typed = 0
    for l, t, a, b in zip(twin, typed, impl3, out[len(reqs):]):
        if not t:
            continue
        n_typed += 1
        b = normalise_model3(b)
        if a != b:
            res.disagree(STREAM_RX_MODEL, l, a, b)
    res.streams[STREAM_RX_MODEL] = res.streams.get(STREAM_RX_MODEL, 0) + n_typed
    res.dist['pyrx:ops'] = len(reqs)
    res.dist['pyrx:typed_lines_against_model'] = n_typed
    res.dist['pyrx:raising'] = sum(1 for o in impl if o.startswith('err'))
    for l in reqs[:2]:
        res.sample(l[:200])


# ---- set_io_objects / clear_io_objects ---------------------------------------------------------------------------------------

def stream_io_objects(res, proof, rng, quick):
    from dsdobjects import objectio, base_classes as bc
    bases = [bc.DomainS, bc.StrandS, bc.ComplexS, bc.MacrostateS, bc.ReactionS]
    ids = {b: 100 + i for i, b in enumerate(bases)}
    users = []
    for i, b in enumerate(bases):
        ks = [type('User%d_%d' % (i, j), (b,), {}) for j in range(2)]
        ks.append(type('User%d_2' % i, (ks[0],), {}))
        for j, k in enumerate(ks):
            ids[k] = 10 * (i + 1) + j
        users.append(ks)
    slots = ['Domain', 'Strand', 'Complex', 'Macrostate', 'Reaction']
    sh = lambda k: '-' if k is None else str(ids[k])
    def state():
        return ','.join(sh(getattr(objectio, s)) for s in slots)
    reqs, impl = [], []
    objectio.clear_io_objects()
    for _ in range(60 if quick else 2000):
        ops, states = [], []
        # the starting state: whatever a previous call sequence left (also non-empty: "already configured")
        start = state()
        for _ in range(rng.randint(1, 6)):
            if rng.random() < 0.3:
                objectio.clear_io_objects()
                ops.append('clear')
            else:
                args = [rng.choice([None, None] + users[i] + [bases[i], bases[(i + 1) % 5]]) for i in range(5)]
                if rng.random() < 0.15:
                    objectio.set_io_objects()
                    args = [None] * 5
                else:
                    objectio.set_io_objects(D=args[0], S=args[1], C=args[2], M=args[3], R=args[4])
                ops.append('set ' + ' '.join(sh(a) for a in args))
            states.append(state())
        reqs.append('pyio.run\t' + ' '.join(str(ids[b]) for b in bases) + '\t' + start.replace(',', ' ') + '\t' + ';'.join(ops))
        impl.append('ok ' + ';'.join(states))
        res.count('pyio:calls', len(ops))
    objectio.clear_io_objects()
    try:
        out = run_rf_driver(reqs)
    except core.DriverBroken as e:
        proof.problem('driver', 'pyreaderfn stream: ' + str(e))
        return
    core.compare_streams(res, STREAM_IO, reqs, impl, out)
    res.sample(reqs[0][:200])


def source_derived_pyreaderfn(res, proof):
    rng = random.Random(res.seed * 5915587 + 1416)
    quick = res.tier == 'quick'
    stream_read_reaction(res, proof, rng, quick)
    stream_io_objects(res, proof, rng, quick)
