"""Stream `DSD_Complex-registry.source-derived`: `canonical_form` / `do_memorycheck` of the legacy `DSD_Complex` as TRANSLATED from
the source (translator/pylegacy2.py -> Gen/PyLegacyReg.lean, driver ops `lr.*` of lean/DsdVerif/DriverLegacyReg.lean) against the
REAL legacy class in-process, on the registered-object scenarios of the C20 harness:

  * every rotation of a complex (the rotationally symmetric 4- and 6-strand ones included) constructed with `memorycheck=True` on an
    empty registry: the constructor's `canonical_form` (value), the representation the object is LEFT in (the full cycle of
    `rotate_once()` restores it) and its `rotations`;
  * then every rotation requested again: `DSDDuplicationError` with `existing` and `rotations` (the real registry entry is mirrored
    into the driver with `lr.mem` - the public class attribute `DSD_Complex.MEMORY` is read, nothing else);
  * `memorycheck=False` twins of a rotation (no check, same canonical form), asked twice (cached);
  * an inequivalent relabelling (accepted, registered next to the first), ill-formed descriptions with the check off;
  * direct `do_memorycheck(key, e)` calls for registered and unregistered keys.
"""
import random, warnings
from .. import core, gen, ref
from .pylegacy_stream import show_err

STREAM = 'DSD_Complex-registry.source-derived'


def key(k):
    return ' '.join(map(str, k[0])) + ' / ' + ''.join(k[1])


def source_derived_pylegacyreg(res, proof, run_driver=None):
    warnings.simplefilter('ignore')
    from dsdobjects.core import deprecated as dep
    rng = random.Random(res.seed * 92821 + 2021)
    quick = res.tier == 'quick'
    structs = list(gen.wellformed_structures(5 if quick else 6, 3))
    if quick:
        structs = [s for s in structs if len(s) <= 4 or rng.random() < 0.25]
    for _ in range(20 if quick else 200):
        structs.append(gen.random_structure(rng, rng.randint(5, 16), nstrands=rng.randint(2, 5)))
    cases = [(gen.label(s, rng, ['a', 'b']), s) for s in structs] + gen.symmetric_complexes()
    lines, impl = [], []
    handles = {}                                   # id(real object) -> handle
    h = [0]

    def new(names, s, nm, mc):
        """construct the real object; the translated one = attribute initialisation, then canonical_form if the check is on"""
        hh = h[0]; h[0] += 1
        lines.append('lr.new\t%d\t%s\t%s\t%s\t%d' % (hh, ' '.join(names), ''.join(s), nm, 1 if mc else 0)); impl.append('ok')
        try:
            o = dep.DSD_Complex(list(names), list(s), name=nm, memorycheck=mc)
        except dep.DSDDuplicationError as e:
            if mc:
                lines.append('lr.canon\t%d' % hh)
                impl.append('err Fault DSDDuplicationError existing=h%s rotations=%s' % (handles.get(id(e.existing), '?'), e.rotations))
            e = None
            return None, hh
        except Exception as e:
            if mc:
                lines.append('lr.canon\t%d' % hh); impl.append(show_err(e))
            return None, hh
        handles[id(o)] = hh
        if mc:
            # what the constructor computed, and what it registered
            lines.append('lr.canon\t%d' % hh); impl.append(key(o.canonical_form))
            lines.append('lr.mem\t%s\t%s\t%d\t%s' % (' '.join(o.canonical_form[0]), ''.join(o.canonical_form[1]), hh, o.rotations)); impl.append('ok')
            mem = dep.DSD_Complex.MEMORY.get(o.canonical_form)
            if mem is not o:
                res.violation('legacy-registry:constructor-did-not-register', {'seq': ' '.join(names), 'sst': s}, 'MEMORY entry is another object', 'the new object')
        return o, hh

    def rep(o, hh):
        lines.append('lr.rep\t%d' % hh)
        impl.append(key((o.sequence, o.structure)) + ' rot=%s' % o.rotations)

    def canon(o, hh):
        lines.append('lr.canon\t%d' % hh)
        try:
            impl.append(key(o.canonical_form))
        except dep.DSDDuplicationError as e:
            impl.append('err Fault DSDDuplicationError existing=h%s rotations=%s' % (handles.get(id(e.existing), '?'), e.rotations))
            e = None
        except Exception as e:
            impl.append(show_err(e))

    def dm(o, hh, k, e_):
        lines.append('lr.dm\t%d\t%s\t%s\t%d' % (hh, ' '.join(k[0]), ''.join(k[1]), e_))
        try:
            o.do_memorycheck((tuple(k[0]), tuple(k[1])), e_)
            impl.append('ok')
        except dep.DSDDuplicationError as e:
            impl.append('err Fault DSDDuplicationError existing=h%s rotations=%s' % (handles.get(id(e.existing), '?'), e.rotations))
            e = None
        except Exception as e:
            impl.append(show_err(e))

    keep = []
    for names, s in cases:
        rots = ref.rotations(names, s)
        n = len(rots)
        for k, (rn, rs) in enumerate(rots if n <= 3 or not quick else rots[:2]):
            dep.clear_memory(); handles.clear(); keep.clear()
            lines.append('lr.reset'); impl.append('ok')
            o, hh = new(rn, rs, 'L', True)
            if o is None:
                continue
            keep.append(o)
            rep(o, hh)
            canon(o, hh); rep(o, hh)                              # cached
            for rn2, rs2 in rots:                                 # every rotation again: duplicates
                o2, h2 = new(rn2, rs2, 'L2', True)
                if o2 is not None:
                    keep.append(o2)
                    dep.DSD_Complex.NAMES.pop('L2', None)
            rn2, rs2 = rots[(k + 1) % n]
            tw, ht = new(rn2, rs2, 'Ltwin', False)                # memorycheck=False twin
            if tw is not None:
                keep.append(tw)
                canon(tw, ht); rep(tw, ht); canon(tw, ht)
                dm(tw, ht, (list(rn), list(rs)), rng.randint(0, n + 1))
                dm(tw, ht, (list(rn) + ['x'], list(rs) + ['.']), 1)
                dm(o, hh, o.canonical_form, rng.randint(1, n))
            other = gen.label(s, rng, ['a', 'b'])
            if not (set(ref.rotations(other, s)) & set(rots)):
                o3, h3 = new(other, s, 'L3', True)
                if o3 is not None:
                    keep.append(o3); rep(o3, h3)
                    o4, h4 = new(*ref.rotations(other, s)[-1], 'L4', True)      # a rotation of the second one: duplicate of IT
            res.count('pylegacyreg_strands_%d' % min(n, 6))
    # ill-formed descriptions, check off: the loop raises half way, the object stays partly rotated
    for names, s in [(['a', '+', 'a'], ')+('), (['a', '+', 'b', '+', 'a'], '(+)+('), (['a', 'b'], '(.'), (['+'], '+'), ([], '')]:
        dep.clear_memory(); handles.clear()
        lines.append('lr.reset'); impl.append('ok')
        o, hh = new(names, s, 'B', False)
        if o is not None:
            canon(o, hh); rep(o, hh); canon(o, hh); rep(o, hh)
    dep.clear_memory()
    model = (run_driver or core.run_driver)(lines)
    hist, start = [], 0
    for i, l in enumerate(lines):
        if l == 'lr.reset':
            start = i
        hist.append(start)
    inputs = [lines[hist[i]:i + 1] if impl[i] != model[i] else l for i, l in enumerate(lines)]
    core.compare_streams(res, STREAM, inputs, impl, model)
    res.sample(lines[:12])
    return len(lines)


if __name__ == '__main__':
    # stand-alone against lean/MainLegacyReg.lean:  python -m harness.props.pylegacyreg_stream <repo> [seed] [tier]
    import sys
    repo = sys.argv[1]
    sys.path.insert(0, repo)
    def private(lines):
        rc, out, err = core.sh(['lake', 'env', 'lean', '--run', 'MainLegacyReg.lean'], cwd=core.LEAN, input='\n'.join(lines) + '\n', timeout=1200)
        if rc != 0:
            raise core.DriverBroken((out + err)[-3000:])
        r = out.split('\n')
        if r and r[-1] == '':
            r.pop()
        if len(r) != len(lines):
            raise core.DriverBroken('driver returned %d lines for %d requests' % (len(r), len(lines)))
        return r
    res = core.Result('C20', sys.argv[3] if len(sys.argv) > 3 else 'quick', int(sys.argv[2]) if len(sys.argv) > 2 else 1, repo)
    n = source_derived_pylegacyreg(res, None, run_driver=private)
    import collections
    print('lines', n, 'disagreements', len(res.disagreements), res.dist, len(res.violations))
    for d in res.disagreements[:4]:
        print(d)
    sys.exit(1 if res.disagreements else 0)
