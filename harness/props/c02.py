"""C02 — complex identity is invariant under strand rotation; the canonical form is the minimal rotation."""
import itertools, random
from .. import core, gen, ref, hist, world as W
from .c01 import fix_disagreements

MODULES = ['DsdVerif.Props.C02', 'DsdVerif.Props.PyIdent', 'DsdVerif.Props.PyComplexS3']
GEN_FILES = ['PyIdentifiers', 'PyFuncs', 'PyComplexS3', 'PyComplexS', 'PySingleton']
THEOREM_NAMES = ['ckeyLt_irrefl', 'ckeyLt_trans', 'ckeyLt_total', 'ckeyLt_names_first', 'canon_mem_min', 'identifiers_total',
                 'orbit_rotate', 'canon_rot_invariant', 'canon_eq_iff', 'identifiers_existing', 'keys_are_orbit_preserved', 'turns_correct']
THEOREMS = ['Dsd.C02.' + t for t in THEOREM_NAMES] + ['Dsd.C02.complexRequestFull_eq', 'Dsd.C02.strandRequestFull_eq', 'Dsd.CplxFullL.identifiers_eq'] + \
    ['Dsd.PyIdent.' + t for t in (
        # ComplexS.identifiers / StrandS.identifiers as written in the source (translator/pyident.py -> Gen/PyIdentifiers.lean, regenerated on
        # every run) equal the statement-level model for every registry, request and ID; the C02 theorems transferred to the code as written
        'py_ComplexS_identifiers_eq', 'py_ComplexS_identifiers_eq_regKeys', 'py_ComplexS_identifiers_eq_all', 'py_ComplexS_identifiers_net',
        'py_ComplexS_identifiers_none', 'py_ComplexS_identifiers_raises', 'py_identifiers_total', 'py_canon_mem_min', 'py_canon_rot_invariant',
        'py_turns_correct', 'py_canon_eq_iff', 'py_canon_registered_or_fresh', 'py_StrandS_identifiers_eq', 'strandRequestFull_eq_py',
        'py_strand_request', 'py_strand_canon_inj', 'ckeyLt_eq', 'sortedBy_eq')]
# the whole ComplexS.__init__ as written in the source (translator/pycomplex3.py -> Gen/PyComplexS3.lean) and its composition with the translated
# identifiers and the translated Singleton.__call__: the same name at both sites, exactly the visited rotations registered, the request of the model
THEOREMS += ['Dsd.PyComplexS3.' + t for t in ['py_init_full_eq', 'py_init_full_asserts', 'py_init_attrs_eq_pymethod', 'py_init_registers_eq_construct', 'py_init_after_identifiers', 'py_complex_request_eq_full']]
ASSUMPTIONS = [
    'ComplexS.identifiers is hand-modelled (Model/Objects.lean: complexIdentifiers = the loop with early exit on a registered rotation, '
    'minimum by (names, structure) under code-point lexicographic order); Python str/tuple ordering is modelled',
    'rotation theorems of C07 (rotate_period, rotateOnce_pairs) are used',
]
MANIFEST = {
    'text': 'Full for the model: canon_mem_min (the canonical form is a rotation and no rotation is smaller, names first, structure '
            'second; ckeyLt is a strict total order), canon_rot_invariant (it does not depend on the rotation supplied), canon_eq_iff '
            '(equal exactly for rotation-equivalent descriptions), identifiers_existing (any rotation of a live complex resolves to that '
            'object: returned when the name matches, SingletonError with existing = that object for an unnamed / differently named '
            'request; the registry is unchanged), keys_are_orbit_preserved (a live complex is registered under exactly its rotations, '
            'whatever else is registered), turns_correct (rotate^turns(canon) is the supplied description, also for rotationally '
            'symmetric complexes), identifiers_total; for complexes of any size, using the C07 rotation theorems. Tied to '
            'ComplexS.identifiers by correspondence over every structure up to a bounded size labelled over 1-3 names, every rotation, '
            'every order of first presentation; minimality / equivalence / hash coherence also decided on the real code by brute force. ' 
            'Model/ComplexFull.lean + Model/SingletonFull.lean follow ComplexS.identifiers / __init__ / Singleton.__call__ statement by statement (the rotation loop with break / else, the cdict dictionary with last-value semantics, sorted(...)[0], wrap(-turns, tot), registration of rcplxs); identifiers_eq and complexRequestFull_eq prove that this is exactly the net-effect model complexIdentifiers / complexRequest for every registry and every request with a non-empty name (kernel-checked differences for the explicit name "" are kept as findings).',
    'note': 'Python tuple/str comparison is modelled as code-point lexicographic order; trusted base as in DESIGN.md section 3.',
    'source_derived': "STATEMENT LEVEL, FROM THE SOURCE (since batch 7): translator/pyident.py transcribes ComplexS.identifiers and StrandS.identifiers statement by statement from the working tree (Gen/PyIdentifiers.lean; cls._instanceCanon / PREFIX / ID as parameters); PyIdent.py_ComplexS_identifiers_eq proves the transcription equal to the statement-level model for every registry, request and counter, and py_canon_mem_min, py_canon_rot_invariant, py_canon_eq_iff, py_turns_correct, py_identifiers_total are C02 for the code as written (Python's tuple / str order is written from first principles in Model/PyPreludeIdent and proved equal to the model's: ckeyLt_eq); stream ComplexS.identifiers.source-derived.",
    'technique': 'Lean 4 proofs: strict total key order, orbit invariance from rotate_period, registry invariant; correspondence check on histories',
}


def labelings(s, rng, quick):
    npos = sum(1 for c in s if c != '+')
    outs = []
    for alpha in (['a'], ['a', 'b'], ['b', 'a', 'c'], ['d2', 'd10'], ['x1', 'x01', 'd9']):
        if len(alpha) ** npos <= (8 if quick else 40):
            for t in itertools.product(alpha, repeat=npos):
                it = iter(t)
                outs.append([('+' if c == '+' else next(it)) for c in s])
        else:
            for _ in range(2 if quick else 6):
                outs.append(gen.label(s, rng, alpha))
    # de-duplicate
    seen, res = set(), []
    for o in outs:
        if tuple(o) not in seen:
            seen.add(tuple(o)); res.append(o)
    return res


def seq_handles(names, hmap):
    return ' '.join('+' if n == '+' else 'h%d' % hmap[n] for n in names)


def name_boundaries(res):
    """descriptions whose domain NAMES differ but read the same when written without separators (t xb / tx b, a 10 / a1 0)
    are inequivalent: while one is alive the other is a different complex - created, unequal, other canonical form and hash key"""
    from dsdobjects.base_classes import ComplexS, DomainS
    from dsdobjects import clear_singletons, SingletonError
    splits = [(['t', 'xb'], ['tx', 'b']), (['a', '10'], ['a1', '0']), (['d', 'd1'], ['dd', '1']), (['p', 'q-r'], ['p-q', '-r'])]
    splits = [p for p in splits if len(p[0]) == len(p[1])]
    frames = [([], '..'), (['+', 'y'], '..+.'), (['+', 'y'], '.(+)'), (['+', 'y', '+', 'y'], '(.+)+.')]
    for first, second in splits:
        for tail, sst in frames:
            for a, b in ((first, second), (second, first)):
                clear_singletons(ComplexS); clear_singletons(DomainS)
                res.evaluations += 1
                res.count('name_boundary_pairs')
                desc = {'history': ['P = ' + ' '.join(a + tail), 'Q = ' + ' '.join(b + tail), sst]}
                try:
                    mk = lambda names: [x if x == '+' else DomainS(x, 5) for x in names]
                    P = ComplexS(mk(a + tail), list(sst), name='P')
                    try:
                        Q = ComplexS(mk(b + tail), list(sst))
                    except SingletonError as e:
                        res.violation('inequivalent-identified:name-boundaries', desc, 'SingletonError existing=%r' % (getattr(e, 'existing', None),),
                                      'a second complex (the descriptions are not rotations of each other)'); e = None
                        del P
                        continue
                    if Q is P or Q == P or Q.canonical_form == P.canonical_form:
                        res.violation('inequivalent-identified:name-boundaries', desc, 'Q is P: %s, Q == P: %s' % (Q is P, Q == P), 'two different complexes')
                    del P, Q
                except Exception as e:
                    res.violation('name-boundaries:raises:' + type(e).__name__, desc, type(e).__name__, 'two complexes'); e = None
    clear_singletons(ComplexS); clear_singletons(DomainS)


def run(res, proof):
    rng = random.Random(res.seed * 15485863 + 2)
    iw = W.ImplWorld()
    quick = res.tier == 'quick'
    L = 5 if quick else 7
    structs = [s for s in gen.wellformed_structures(L, 4)]
    if quick:
        structs = [s for s in structs if len(s) <= 4 or rng.random() < 0.35]
    for _ in range(60 if quick else 1500):
        structs.append(gen.random_structure(rng, rng.randint(4, 14 if quick else 60), nstrands=rng.randint(2, 6)))
    res.dist['structures'] = len(structs)
    by_sig = {}
    for t in structs:
        by_sig.setdefault(tuple(len(x) for x in t.split('+')), []).append(t)
    lines, impl = [], []
    pre0 = ['reset', 'mk.dom\t0\ta\t5\t-\t-', 'mk.dom\t0\tb\t5\t-\t-', 'mk.dom\t0\tc\t5\t-\t-']
    hmap0 = {'a': 0, 'b': 1, 'c': 2}
    from dsdobjects.base_classes import ComplexS
    for s in structs:
        for names in labelings(s, rng, quick):
            # always three domains h0..h2 (the complex is h3): the names in use, padded with unused ones
            used = sorted(set(names) - {'+'})
            if set(used) <= set(hmap0):
                pre, hmap = pre0, hmap0
            else:
                three = (used + [x for x in ('a', 'b', 'c') if x not in used])[:3]
                pre = ['reset'] + ['mk.dom\t0\t%s\t5\t-\t-' % n for n in three]
                hmap = {n: i for i, n in enumerate(three)}
            rots = ref.rotations(names, s)
            n = len(rots)
            distinct = sorted(set(rots))
            want_canon = min(rots)                       # Python tuple order: names first, structure second
            res.evaluations += 1
            res.count('strands_%d' % min(n, 5))
            if len(set(rots)) < n:
                res.count('rotationally_symmetric')
            if n > 1:
                res.nontriv((s, tuple(names)))
            firsts = range(n) if n <= 3 else [0, rng.randrange(n)]
            for k0 in firsts:
                hl = list(pre)
                ho = [iw.do(l) for l in hl]
                a, b = rots[k0]
                l = 'mk.cplx\t0\tX\t-\t%s\t%s' % (seq_handles(a, hmap), ''.join(b))
                o = iw.do(l); hl.append(l); ho.append(o)
                desc = {'history': list(hl)}
                if n > 1 and 3 in iw.held and (n <= 3 or rng.random() < 0.3):
                    # every rotation the live object itself hands out, for any number of turns asked for, leads back to it
                    from . import cu
                    cu.handed_out_rotations(res, iw.held[3], 'rotation-not-identified', {'history': list(hl), 'then': 'rotate(k) / rotate_pt(k) of h3'}, request=True)
                if not o.startswith('ret h3 new'):
                    res.violation('construction-refused', desc, o, 'ret h3 new …')
                    lines += hl; impl += ho
                    continue
                want = 'ret h3 new canon=%s/%s' % (' '.join(want_canon[0]), ''.join(want_canon[1]))
                if not o.startswith(want):
                    res.violation('canonical-form-not-minimal', desc, o, want + ' (lexicographically smallest rotation)')
                cobj = iw.held[3]
                # turns: rotating the canonical form by `turns` strands gives the supplied description
                t = cobj.turns
                crots = ref.rotations(want_canon[0], want_canon[1])
                if not (0 <= t < n) or crots[t] != (tuple(a), tuple(b)):
                    res.violation('turns-wrong', desc, 'turns=%r' % (t,), 'rotate^turns(canonical form) = supplied description')
                h0 = hash(cobj)
                # every rotation: named -> same object, unnamed -> refused with existing = that object, name-conflict -> refused
                for k in range(n):
                    a2, b2 = rots[k]
                    for nm in ('X', '-', 'Y'):
                        l = 'mk.cplx\t0\t%s\t-\t%s\t%s' % (nm, seq_handles(a2, hmap), ''.join(b2))
                        o = iw.do(l); hl.append(l); ho.append(o)
                        exp = {'X': 'ret h3 old', '-': 'err SingletonError existing=h3', 'Y': 'err SingletonError existing=h3'}[nm]
                        if not o.startswith(exp):
                            res.violation('rotation-not-identified:' + ('named' if nm == 'X' else 'unnamed' if nm == '-' else 'renamed'),
                                          {'history': list(hl)}, o, exp)
                l = 'names'; hl.append(l); ho.append(iw.do(l))
                if ho[-1] != 'names %s||||||||X|||||||||||' % ','.join(sorted(hmap)):
                    res.violation('second-object-created', {'history': list(hl)}, ho[-1], 'exactly one complex registered')
                l = 'drop\th3'; hl.append(l); ho.append(iw.do(l))
                del cobj
                # a later life of the same complex: first presented through another rotation, under another (or an automatic)
                # name - canonical form and hash are functions of the complex, not of its name or of the history
                if n > 1:
                    a3, b3 = rots[(k0 + 1) % n]
                    l = 'mk.cplx\t0\t%s\t-\t%s\t%s' % (rng.choice(('Z', '-')), seq_handles(a3, hmap), ''.join(b3))
                    o = iw.do(l); hl.append(l); ho.append(o)
                    if o.startswith('ret h4 new') and 4 in iw.held:
                        if not o.startswith('ret h4 new canon=%s/%s' % (' '.join(want_canon[0]), ''.join(want_canon[1]))):
                            res.violation('canonical-form-not-minimal:later-life', {'history': list(hl)}, o, want)
                        if hash(iw.held[4]) != h0:
                            res.violation('hash-depends-on-name-or-history', {'history': list(hl)}, 'hash of the re-created complex differs from the hash of its earlier life',
                                          'rotation-equivalent descriptions have equal hashes')
                    elif not o.startswith('ret h4 new'):
                        res.violation('recreation-refused', {'history': list(hl)}, o, 'ret h4 new …')
                    l = 'drop\th4'; hl.append(l); ho.append(iw.do(l))
                lines += hl; impl += ho
            # inequivalent descriptions over the same strands never compare equal
            if n >= 2 and len(s) <= 8 and hmap is hmap0:
                iw.do('reset')
                for l in pre[1:]:
                    iw.do(l)
                other = gen.label(s, rng, ['a', 'b'])
                o1 = iw.do('mk.cplx\t0\tP\t-\t%s\t%s' % (seq_handles(names, hmap), s))
                o2 = iw.do('mk.cplx\t0\tQ\t-\t%s\t%s' % (seq_handles(other, hmap), s))
                equiv = bool(set(ref.rotations(other, s)) & set(rots))
                if o1.startswith('ret') and not equiv:
                    if not o2.startswith('ret h4 new'):
                        res.violation('inequivalent-identified', {'history': ['P=' + ' '.join(names), 'Q=' + ' '.join(other), s]}, o2, 'a second object')
                    else:
                        p, q = iw.held[3], iw.held[4]
                        if p == q or not (p != q) or p.canonical_form == q.canonical_form:
                            res.violation('inequivalent-compare-equal', {'history': ['P=' + ' '.join(names), 'Q=' + ' '.join(other), s]}, 'P == Q', 'P != Q')
                        del p, q
                elif o1.startswith('ret') and equiv and not o2.startswith('err SingletonError existing=h3'):
                    res.violation('equivalent-not-identified', {'history': ['P=' + ' '.join(names), 'Q=' + ' '.join(other), s]}, o2, 'err SingletonError existing=h3')
                res.count('pair_equivalent' if equiv else 'pair_inequivalent')
            # the same complex in another class of the kind: own registry, same canonical form, equal and hash-equal objects,
            # whatever rotation each class saw first and whatever lives in the other class
            if n >= 2 and (len(s) <= 6 or rng.random() < 0.3):
                k0, k1 = rng.randrange(n), rng.randrange(n)
                cls = rng.choice((1, 2, 3))
                hl = list(pre)
                a, b = rots[k0]
                hl.append('mk.cplx\t0\tX\t-\t%s\t%s' % (seq_handles(a, hmap), ''.join(b)))
                a, b = rots[k1]
                nm2 = rng.choice(('X', 'Y'))           # names are per registry: the twin may carry the same name or another one
                hl.append('mk.cplx\t%d\t%s\t-\t%s\t%s' % (cls, nm2, seq_handles(a, hmap), ''.join(b)))
                for k in range(n):
                    a, b = rots[k]
                    hl.append('mk.cplx\t%d\t%s\t-\t%s\t%s' % (cls, nm2, seq_handles(a, hmap), ''.join(b)))
                hl.append('cmp\th3\th4')
                hl.append('names')
                ho = [iw.do(l) for l in hl]
                want = 'ret h4 new canon=%s/%s' % (' '.join(want_canon[0]), ''.join(want_canon[1]))
                if ho[4].startswith('ret h3 new') and not ho[5].startswith(want):
                    res.violation('canonical-form-not-minimal:other-class', {'history': list(hl)}, ho[5], want)
                for k in range(n):
                    if ho[5].startswith('ret h4 new') and not ho[6 + k].startswith('ret h4 old'):
                        res.violation('rotation-not-identified:other-class', {'history': list(hl[:7 + k])}, ho[6 + k], 'ret h4 old')
                if 3 in iw.held and 4 in iw.held:
                    p, q = iw.held[3], iw.held[4]
                    if not (p == q) or hash(p) != hash(q) or p.canonical_form != q.canonical_form:
                        res.violation('same-complex-in-two-classes-differs', {'history': list(hl)}, 'canonical forms %r / %r, ==: %r' % (p.canonical_form, q.canonical_form, p == q),
                                      'equal canonical forms, ==, equal hashes')
                    del p, q
                res.count('other_class_scenarios')
                lines += hl; impl += ho
            # the same strands in the same order with ANOTHER structure, requested under the live complex's name, is not that
            # complex: the request is refused (it is accepted only if the two descriptions are rotations of each other)
            sig = tuple(len(x) for x in s.split('+'))
            alts = [t for t in by_sig.get(sig, ()) if t != s]
            if alts and (len(s) <= 6 or rng.random() < 0.3):
                s2 = rng.choice(alts)
                hl = list(pre) + ['mk.cplx\t0\tX\t-\t%s\t%s' % (seq_handles(names, hmap), s),
                                  'mk.cplx\t0\tX\t-\t%s\t%s' % (seq_handles(names, hmap), s2), 'names']
                ho = [iw.do(l) for l in hl]
                same = (tuple(names), tuple(s2)) in set(rots)
                if ho[4].startswith('ret h3 new') and not same and not ho[5].startswith('err SingletonError'):
                    res.violation('other-structure-accepted-under-live-name', {'history': list(hl)}, ho[5], 'err SingletonError (a different complex under a taken name)')
                res.count('other_structure_same_name')
                lines += hl; impl += ho
    iw.reset()
    name_boundaries(res)
    res.rule = ('every well-formed structure with non-empty strands up to %d positions / 4 strands (quick: a 35%% sample above 4 '
                'characters) labelled over alphabets of 1, 2 and 3 names (all labellings when few, sampled otherwise), every rotation '
                'as first presentation (<= 3 strands) and every rotation requested named / unnamed / under another name; random larger '
                'complexes; non-trivial = at least two strands; distinct by (structure, labelling)' % L)
    res.exhaustive = not quick
    try:
        model = core.run_driver(lines)
        core.compare_streams(res, 'histories.complexes', lines, impl, model)
        if res.disagreements:
            fix_disagreements(res, lines, impl, model)
    except core.DriverBroken as e:
        proof.problem('driver', str(e))
    # ComplexS.identifiers / StrandS.identifiers as translated from the working tree (Gen/PyIdentifiers.lean) against the real classmethods
    from .pyident_stream import source_derived_pyident
    core.run_stream(source_derived_pyident, res, proof)
    from .pycomplex3_stream import source_derived_pycomplex3
    core.run_stream(source_derived_pycomplex3, res, proof)      # ComplexS.__init__ as translated from the working tree against the real constructor
    res.sample(lines[:14])


def replay(body, repo):
    return hist.replay_history(body, repo)
