"""The comparison methods as TRANSLATED from the working tree (Gen/PyDunders.lean) against the real operators.

`source_derived_pydunders(res, proof)`: populations of real objects in the spirit of C10's (domain names that sort differently as text and as
numbers, equal names with other lengths in a sibling class, complexes that differ only in structure, strands, macrostates over them,
reactions that differ only in type / in one side); for ALL ordered pairs of each family, and each object against a foreign operand, the six
operators `== != < > <= >=` are applied to the real objects (result or exception class) and the translated methods are run through the driver
op `pydunder` on what the methods read of the operands.  Also checked on the real objects: equal objects have equal hashes.
"""
import subprocess
from .. import core


def show_key(k):
    return ' '.join(k[0]) + '|' + ''.join(k[1])


def ops(a, b):
    out = []
    for f in (lambda: a == b, lambda: a != b, lambda: a < b, lambda: a > b, lambda: a <= b, lambda: a >= b):
        try:
            out.append('T' if f() else 'F')
        except Exception as e:
            out.append(type(e).__name__)
            e = None
    return ' '.join(out)


def source_derived_pydunders(res, proof, runner=None):
    from dsdobjects.base_classes import DomainS, StrandS, ComplexS, MacrostateS, ReactionS
    from dsdobjects.singleton import clear_singletons
    runner = runner or core.run_driver
    class Sib(DomainS):
        pass
    for K in (ReactionS, MacrostateS, StrandS, ComplexS, DomainS, Sib):
        clear_singletons(K)
    doms = [DomainS(n, 5) for n in ('a', 'b', 'ab', 'a*', 'B', 'd2', 'd9', 'd10', 'd2a', 'x1y2', '-', '_a', '10', '9')] + [Sib('a', 9), Sib('d10', 9), Sib('b', 5)]
    cplx = [ComplexS(list(s), list(t), name=n) for n, s, t in (
        ('c1', ['a'], '.'), ('c2', ['a', 'b'], '..'), ('c3', ['a', 'b'], '()'), ('c4', ['b', '+', 'a'], '(+)'), ('c5', ['b', '+', 'a'], '.+.'),
        ('c6', ['a', 'a'], '..'), ('c7', ['B'], '.'), ('c8', ['d10'], '.'), ('c9', ['d9'], '.'))]
    cplx += [StrandS(['a', 'b'], name='s1'), StrandS(['a'], name='s2')]
    macro = [MacrostateS([cplx[0]]), MacrostateS([cplx[0], cplx[1]], name='c2'), MacrostateS([cplx[1], cplx[0], cplx[3]], name='c4'), MacrostateS([cplx[2]]),
             MacrostateS([cplx[3], cplx[4]], name='c5'), MacrostateS([cplx[6], cplx[7]])]
    rxn = [ReactionS([cplx[0]], [cplx[1]], 'open'), ReactionS([cplx[0]], [cplx[1]], 'bind11'), ReactionS([cplx[1]], [cplx[0]], 'open'),
           ReactionS([cplx[0], cplx[2]], [cplx[3]], 'bind21'), ReactionS([cplx[2], cplx[0]], [cplx[4]], 'bind21'), ReactionS([], [cplx[0]], 'open'),
           ReactionS([cplx[0]], [], 'condensed'), ReactionS([cplx[3]], [cplx[0], cplx[2]], 'open')]
    enc = {
        'dom': lambda d: '%s:%d' % (d.name, d.length),
        'cplx': lambda c: show_key(c.canonical_form),
        'macro': lambda m: '/'.join(show_key(c.canonical_form) for c in m.canonical_form),
        'rxn': lambda r: '>'.join(['/'.join(show_key(k) for k in r.canonical_form[0]), '/'.join(show_key(k) for k in r.canonical_form[1]), r.canonical_form[2]]),
    }
    lines, impl = [], []
    for fam, pop in (('dom', doms), ('cplx', cplx), ('macro', macro), ('rxn', rxn)):
        for a in pop:
            for b in pop:
                lines.append('pydunder\t%s\t%s\t%s' % (fam, enc[fam](a), enc[fam](b)))
                impl.append(ops(a, b))
                res.evaluations += 1
                if a == b and hash(a) != hash(b):
                    res.violation('equal-objects-unequal-hashes:' + fam, {'pair': [str(a), str(b)]}, 'hash differs', 'equal hashes')
            for foreign in (3, 'a', None, (1, 2)):
                lines.append('pydunder\t%s\t%s\tforeign' % (fam, enc[fam](a)))
                impl.append(ops(a, foreign))
    del doms, cplx, macro, rxn
    for K in (ReactionS, MacrostateS, StrandS, ComplexS, DomainS, Sib):
        clear_singletons(K)
    ComplexS.ID = 1; DomainS.ID = 1; StrandS.ID = 1
    try:
        out = runner(lines)
    except core.DriverBroken as e:
        proof.problem('driver', 'source-derived comparison stream: ' + str(e))
        return
    core.compare_streams(res, 'comparison-methods.source-derived', lines, impl, out)
    res.dist['source_derived_comparison_pairs'] = len(lines)


def run_private_driver(lines, timeout=1200):
    data = '\n'.join(lines) + '\n'
    p = subprocess.run(['lake', 'env', 'lean', '--run', 'MainDunders.lean'], cwd=core.LEAN, input=data, capture_output=True, text=True, timeout=timeout)
    if p.returncode != 0:
        raise core.DriverBroken((p.stdout + p.stderr)[-3000:])
    out = p.stdout.split('\n')
    if out and out[-1] == '':
        out.pop()
    if len(out) != len(lines):
        raise core.DriverBroken('driver returned %d lines for %d requests' % (len(out), len(lines)))
    return out


if __name__ == '__main__':
    # /venv/bin/python -m harness.props.pydunders_stream <repo>      (from the verif directory)
    import sys
    repo = sys.argv[1]
    core.use_repo(repo)
    res = core.Result('PYDUNDERS', 'quick', 1, repo)
    class P:
        def problem(self, kind, detail):
            print('PROBLEM', kind, detail)
    source_derived_pydunders(res, P(), runner=run_private_driver)
    print('streams', res.streams, 'dist', res.dist, 'violations', res.violations)
    print('disagreements', len(res.disagreements))
    for x in res.disagreements[:8]:
        print(x)
    sys.exit(1 if res.disagreements else 0)
