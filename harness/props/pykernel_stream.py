"""`resolve_kernel_loops` as translated from the working tree (translator/pykernel.py -> Gen/PyKernel.lean) against the real function.

`source_derived_pykernel(res, proof)` generates token forests, runs the REAL `dsdobjects.objectio.resolve_kernel_loops` in-process
and the translated `Gen.py_resolve_kernel_loops` through the driver op `pykernel.resolve` (lean/DsdVerif/DriverKernel.lean), and
compares the two answer streams (`resolve_kernel_loops.source-derived`): a disagreement means the translator's reading of Python is
wrong for some statement - or the code changed under it.

Forests (the C12 harness's own generators):
  * every kernel token forest the C12 harness produces: well-formed structures (gen.wellformed_structures / gen.random_structure)
    with a complementary labelling over C12's names, every rotation (ref.rotations), written as a kernel string and parsed by the
    REAL parser (`parse_pil_string`), the forest being what the reader hands to `resolve_kernel_loops` (`line[2]`);
  * random, not necessarily complementary patterns (pilgen.rand_pattern) given to the function directly as nested lists;
  * malformed ones that no parser yields: a group first, a group after a group, EMPTY names (also directly before a group:
    `old[-1]` of '' is an IndexError), names that are only stars, '+' before a group.
Additionally the hand-written model (`kernel.forest`) is run on the same forests; where it differs from the implementation the
implementation must have raised IndexError and the forest must contain a name that is empty or begins with a star (the corner
the model totalises, `compName "" = "*"` where the code evaluates `old[-1]` of '': Props/PyKernel `model_differs_on_empty_name`,
`model_differs_after_star_name`); anything else is reported as a disagreement of the stream `resolve_kernel_loops.model`.
"""
import os
import random
from .. import core, gen, ref, pilgen as PG

STREAM = 'resolve_kernel_loops.source-derived'


def hx(s):
    return ''.join('%04x' % ord(c) for c in s)


def encode(forest):
    """the driver's forest encoding: `[`, `]`, `h<hex>` separated by blanks"""
    out = []
    for t in forest:
        if isinstance(t, str):
            out.append('h' + hx(t))
        else:
            out.append('[')
            e = encode(t)
            if e:
                out.append(e)
            out.append(']')
    return ' '.join(out)


def show_name(s):
    return '"' + s.replace('\\', '\\\\').replace('"', '\\"') + '"'


def to_lists(x):
    """a parse result as plain nested lists / strs (what `isinstance(dom, list)` must see)"""
    return [to_lists(t) if not isinstance(t, str) else t for t in x]


def kernel_text(names, struct):
    """the kernel notation of (names, structure), as ComplexS.kernel_string writes it"""
    out = []
    for n, c in zip(names, struct):
        if c == '(':
            out.append(n + '(')
        elif c == ')':
            out.append(')')
        elif c == '+':
            out.append('+')
        else:
            out.append(n)
    return ' '.join(out)


def all_good(forest):
    """every name of the forest, at any depth, is non-empty and does not begin with a star (`forestOk` of Lemmas/PyKernel.lean):
    on such forests the translation IS the model (Props/PyKernel `py_resolve_kernel_loops_eq_model`)"""
    return all(all_good(t) if isinstance(t, list) else (t != '' and t[0] != '*') for t in forest)


def malformed(rng, n):
    """forests that no parser yields: groups without a name before them, empty names, stars only"""
    names = ['', '', '*', '**', 'a', 'a*', 'a**', '+', 'b', ' ', 'x y', '"', '\\']
    def forest(depth):
        out = []
        for _ in range(rng.randint(0, 4)):
            if rng.random() < 0.4 and depth < 4:
                out.append(forest(depth + 1))
            else:
                out.append(rng.choice(names))
        return out
    fixed = [[], [[]], [[], 'a'], ['', []], ['', ['a']], ['a', [], []], ['+', []], ['*', []], ['*', [], []], ['**', [], [], []], ['**', ['', []]], ['a', ['', []]],
             ['a', [[]]], ['a', ['b', ['c', ['d', []]]]], ['', '', ''], ['a', ['+'], '+', ['+']]]
    return fixed + [forest(0) for _ in range(n)]


def forests(res, rng, quick):
    from dsdobjects.dsdparser import parse_pil_string
    from . import c12
    out = []
    L = 5 if quick else 7
    structs = list(gen.wellformed_structures(L, 3))
    if quick:
        structs = [s for s in structs if len(s) <= 4 or rng.random() < 0.2]
    for _ in range(40 if quick else 400):
        structs.append(gen.random_structure(rng, rng.randint(6, 30 if quick else 120), pair_bias=rng.choice((0.5, 0.8)),
                                            depth_bias=rng.choice((0.3, 0.7))))
    for s in structs:
        names = gen.complementary_label(s, rng, c12.NAMES)
        for rn, rs in ref.rotations(names, s):
            text = rng.choice(c12.CNAMES) + ' = ' + kernel_text(list(rn), list(rs)) + '\n'
            try:
                [pl] = parse_pil_string(text)
            except Exception:
                res.count('pykernel:unparsed')
                continue
            out.append(to_lists(pl[2]))
            res.count('pykernel:parsed_forests')
    for _ in range(300 if quick else 5000):
        out.append(PG.rand_pattern(rng))
        res.count('pykernel:random_patterns')
    m = malformed(rng, 200 if quick else 3000)
    res.count('pykernel:malformed', len(m))
    return out + m


def run_kernel_driver(lines):
    """the driver with `stepKernel` wired in (Main.lean); before the integration, the private loop MainKernel.lean"""
    wired = 'stepKernel' in open(os.path.join(core.LEAN, 'DsdVerif', 'Driver.lean'), encoding='utf-8').read()
    if wired:
        return core.run_driver(lines)
    data = '\n'.join(lines) + '\n'
    rc, out, err = core.sh(['lake', 'env', 'lean', '--run', 'MainKernel.lean'], cwd=core.LEAN, input=data, timeout=1200)
    if rc != 0:
        raise core.DriverBroken((out + err)[-3000:])
    got = out.split('\n')
    if got and got[-1] == '':
        got.pop()
    if len(got) != len(lines):
        raise core.DriverBroken('driver returned %d lines for %d requests; tail: %s' % (len(got), len(lines), got[-3:]))
    return got


def source_derived_pykernel(res, proof):
    import copy
    from dsdobjects import objectio
    rng = random.Random(res.seed * 7368787 + 1212)
    fs = forests(res, rng, res.tier == 'quick')
    lines, impl = [], []
    for f in fs:
        f0 = copy.deepcopy(f)
        try:
            se, ss = objectio.resolve_kernel_loops(f)
            o = 'ok ' + ' '.join(show_name(x) for x in se) + ' / ' + ''.join(ss)
        except Exception as e:
            o = 'err ' + type(e).__name__
            e = None
        if f != f0:                      # the translation treats the parameter as a value: the function must not change it
            res.violation('resolve_kernel_loops:mutates-its-argument', {'forest': repr(f0)[:300]}, repr(f)[:300], 'argument unchanged')
        lines.append('pykernel.resolve\t' + encode(f0)); impl.append(o)
    try:
        twin = [l.replace('pykernel.resolve', 'kernel.forest', 1) for l in lines]
        out = run_kernel_driver(lines + twin)
    except core.DriverBroken as e:
        proof.problem('driver', 'pykernel stream: ' + str(e))
        return
    core.compare_streams(res, STREAM, lines, impl, out[:len(lines)])
    # the hand-written model on the same forests: it may differ from the implementation only in the totalised corner
    n_corner = 0
    for f, l, a, b in zip(fs, twin, impl, out[len(lines):]):
        if a != b:
            if not all_good(f) and a == 'err IndexError':
                n_corner += 1
            else:
                res.disagree('resolve_kernel_loops.model', l, a, b)
    res.dist['pykernel:ops'] = len(lines)
    res.dist['pykernel:model_differs_only_in_the_empty_name_corner'] = n_corner
    res.dist['pykernel:raising'] = sum(1 for o in impl if o.startswith('err'))
    for l in lines[:3]:
        res.sample(l[:200])
