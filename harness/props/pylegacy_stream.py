"""Stream `DSD_Complex-methods.source-derived`: the methods of the legacy `DSD_Complex` (dsdobjects/core/deprecated.py) as they
are TRANSLATED from the source (translator/pylegacy.py -> Gen/PyLegacy.lean, executed by the driver ops `lg.*` of
lean/DsdVerif/DriverLegacy.lean) against the REAL legacy object in-process, on op sequences

    construct;  some views in any order;  1 … n+1 times rotate_once() (views in between);  every view in any order

over the complexes of the C20 harness (every well-formed structure up to 6 positions / 3 strands, random larger ones, the
rotationally symmetric ones) and over ILL-FORMED descriptions the hand model says nothing about (unbalanced brackets, unknown
characters, strand breaks of sequence and structure at different places).  Only the public API of the object is used.

Two ways of construction: `memorycheck=False` (the attributes are what `__init__` assigns: `py_DSD_Complex_init`) and, for
well-formed descriptions, `memorycheck=True` (the constructor then runs `canonical_form`: `size`, n times `rotate_once()`, `size` -
replayed as these ops on the translated object, the real object answers `n`, `ok` …, `n`).
"""
import random, warnings
from .. import core, gen

STREAM = 'DSD_Complex-methods.source-derived'
VIEWS0 = ['sequence', 'structure', 'size', 'pair_table', 'loop_index', 'exterior_domains', 'enclosed_domains', 'is_connected',
          'kernel_string', 'lol_sequence']
VIEWS1 = ['strand_length', 'get_paired_loc', 'get_loop_index', 'get_domain', 'rotate_pairtable_loc']

FAULTS = {'IndexError', 'TypeError', 'ValueError', 'KeyError', 'DSDObjectsError', 'AttributeError', 'ZeroDivisionError'}


def show_err(e):
    n = type(e).__name__
    if n in ('SecondaryStructureError', 'AssertionError', 'NotImplementedError'):
        return 'err ' + n
    return 'err Fault ' + n


def loc(l):
    return '-' if l is None else '%d.%d' % (l[0], l[1])


def locs(l):
    return 'None' if l is None else '[' + ' '.join(loc(x) for x in l) + ']'


def ask(o, view, arg):
    """one view of the real object, as canonical text (own frame: nothing survives the call)"""
    try:
        if view == 'sequence': return ' '.join(map(str, o.sequence))
        if view == 'structure': return ''.join(o.structure)
        if view == 'size': return str(o.size)
        if view == 'strand_length': return str(o.strand_length(int(arg)))
        if view == 'pair_table': return '|'.join(','.join(loc(x) for x in st) for st in o.pair_table)
        if view == 'get_paired_loc': return loc(o.get_paired_loc(tuple(map(int, arg.split('.')))))
        if view == 'loop_index':
            li, ext = o.loop_index
            return '|'.join(','.join(map(str, st)) for st in li) + ' ; ' + ','.join(map(str, sorted(ext)))
        if view == 'get_loop_index': return str(o.get_loop_index(tuple(map(int, arg.split('.')))))
        if view == 'exterior_domains': return locs(o.exterior_domains)
        if view == 'enclosed_domains': return locs(o.enclosed_domains)
        if view == 'is_connected': return str(o.is_connected)
        if view == 'kernel_string': return "'" + o.kernel_string + "'"
        if view == 'lol_sequence': return '|'.join(' '.join(map(str, st)) for st in o.lol_sequence)
        if view == 'get_domain': return str(o.get_domain(tuple(map(int, arg.split('.')))))
        if view == 'rotate_pairtable_loc':
            l, n = arg.split(';')
            r = o.rotate_pairtable_loc(tuple(map(int, l.split('.'))), None if n == 'None' else int(n))
            return '%d.%d' % (r[0], r[1])
    except Exception as e:
        return show_err(e)
    raise core.Infra('unknown view ' + view)


def rot(o):
    try:
        o.rotate_once()
        return 'ok'
    except Exception as e:
        return show_err(e)


def cases(res, rng):
    quick = res.tier == 'quick'
    structs = list(gen.wellformed_structures(6 if quick else 7, 3))
    if quick:
        structs = [s for s in structs if len(s) <= 4 or rng.random() < 0.15]
    for _ in range(40 if quick else 400):
        structs.append(gen.random_structure(rng, rng.randint(5, 25), nstrands=rng.randint(1, 5)))
    out = [(gen.label(s, rng, ['a', 'b', 'a*']), s, True) for s in structs] + [(n, s, True) for n, s in gen.symmetric_complexes()]
    # ill-formed descriptions (same length, as `__init__` demands): a changed character, a moved strand break, no names at all
    bad = []
    for names, s, _ in rng.sample(out, min(len(out), 150 if quick else 1500)):
        t = list(s)
        if not t:
            continue
        k = rng.randrange(len(t))
        kind = rng.randrange(4)
        if kind == 0:
            t[k] = rng.choice('().+x')
        elif kind == 1:
            t = t[::-1]
        elif kind == 2 and len(t) > 1:
            j = rng.randrange(len(t)); t[k], t[j] = t[j], t[k]
        else:
            names = list(names); j = rng.randrange(len(names)); names[j] = '+' if names[j] != '+' else 'a'
        if ''.join(t) != s or kind == 3:
            bad.append((list(names), ''.join(t), False))
    bad += [([], '', False), (['+'], '+', False), (['a'], '+', False), (['+'], '.', False), (['+', '+'], '++', False),
            (['a', '+'], '(+', False), (['+', 'a'], '+)', False), (['a', '+', 'a'], ')+(', False)]
    return out + bad


def ops_for(rng, names, s):
    n = names.count('+') + 1
    npos = max(len(x) for x in s.split('+')) if s else 0
    def one(v):
        # mostly inside the table (of SOME rotation: the strands move), sometimes one past its end
        if v == 'strand_length':
            return (v, str(rng.randint(0, n if rng.random() < 0.2 else n - 1)))
        if v == 'rotate_pairtable_loc':       # ints of either sign for the strand and for n
            return (v, '%d.%d;%s' % (rng.randint(-2 * n - 1, 2 * n + 1), rng.randint(0, npos), rng.choice(['None', str(rng.randint(-2 * n, 2 * n))])))
        if v in VIEWS1:
            return (v, '%d.%d' % (rng.randint(0, n if rng.random() < 0.1 else n - 1), rng.randint(0, npos if rng.random() < 0.1 else max(npos - 1, 0)) if rng.random() < 0.5 else 0))
        return (v, '-')
    allv = VIEWS0 + VIEWS1
    ops = [('q',) + one(v) for v in rng.sample(allv, rng.randint(0, 4))]
    turns = rng.choice([1, 1, 2, max(n - 1, 1), n, n + 1])
    for _ in range(turns):
        ops.append(('rot',))
        if rng.random() < 0.3:
            ops += [('q',) + one(v) for v in rng.sample(allv, rng.randint(1, 2))]
    order = rng.sample(allv, len(allv))
    ops += [('q',) + one(v) for v in order]
    if rng.random() < 0.3:
        ops.append(('rot',))
        ops += [('q',) + one(v) for v in rng.sample(allv, 3)]
    return ops


def source_derived_pylegacy(res, proof, run_driver=None):
    warnings.simplefilter('ignore')
    from dsdobjects.core import deprecated as dep
    rng = random.Random(res.seed * 7368787 + 2020)
    lines, impl = [], []
    h = 0
    for names, s, wellformed in cases(res, rng):
        for trial in range(2 if wellformed else 1):
            checked = wellformed and trial == 1 and rng.random() < 0.5
            dep.clear_memory()
            try:
                o = dep.DSD_Complex(list(names), list(s), name='L%d' % h, memorycheck=checked)
            except Exception as e:
                res.notes.append('pylegacy stream: constructor raised %s on %r %r' % (type(e).__name__, names, s))
                continue
            lines.append('lg.new\t%d\t%s\t%s' % (h, ' '.join(names), s)); impl.append('ok')
            if checked:
                # what the constructor did to the object: canonical_form = size; rotate_once() x size; size
                n = o.size
                for op, a in [('size', str(n))] + [('rot', 'ok')] * n + [('size', str(n))]:
                    lines.append('lg.rot\t%d' % h if op == 'rot' else 'lg.q\t%d\tsize\t-' % h); impl.append(a)
            for op in ops_for(rng, list(names), s):
                if op[0] == 'rot':
                    lines.append('lg.rot\t%d' % h); impl.append(rot(o))
                else:
                    lines.append('lg.q\t%d\t%s\t%s' % (h, op[1], op[2])); impl.append(ask(o, op[1], op[2]))
            res.count('pylegacy_' + ('checked' if checked else 'wellformed' if wellformed else 'illformed'))
            del o
            h += 1
            if h % 200 == 0:
                lines.append('lg.reset'); impl.append('ok')
    dep.clear_memory()
    model = (run_driver or core.run_driver)(lines)
    # a disagreement carries the whole history of its object
    hist, start = [], 0
    for i, l in enumerate(lines):
        if l.startswith('lg.new'):
            start = i
        hist.append(start)
    inputs = [lines[hist[i]:i + 1] if impl[i] != model[i] else l for i, l in enumerate(lines)]
    core.compare_streams(res, STREAM, inputs, impl, model)
    res.sample(lines[:12])
    return len(lines)


if __name__ == '__main__':
    # stand-alone test against the private driver lean/MainLegacy.lean:  python -m harness.props.pylegacy_stream <repo> [seed] [tier]
    import sys, os
    repo = sys.argv[1]
    sys.path.insert(0, repo)
    def private(lines):
        rc, out, err = core.sh(['lake', 'env', 'lean', '--run', 'MainLegacy.lean'], cwd=core.LEAN, input='\n'.join(lines) + '\n', timeout=1200)
        if rc != 0:
            raise core.DriverBroken((out + err)[-3000:])
        r = out.split('\n')
        if r and r[-1] == '':
            r.pop()
        if len(r) != len(lines):
            raise core.DriverBroken('driver returned %d lines for %d requests' % (len(r), len(lines)))
        return r
    res = core.Result('C20', sys.argv[3] if len(sys.argv) > 3 else 'quick', int(sys.argv[2]) if len(sys.argv) > 2 else 1, repo)
    n = source_derived_pylegacy(res, None, run_driver=private)
    print('lines', n, 'disagreements', len(res.disagreements), res.dist)
    for d in res.disagreements[:5]:
        print(d)
    sys.exit(1 if res.disagreements else 0)
