"""C12 — kernel notation round-trips through the PIL reader."""
import random
from .. import core, gen, ref, pilgen as PG

MODULES = ['DsdVerif.Props.C12', 'DsdVerif.Lemmas.PyObjKernel', 'DsdVerif.Props.PyKernel']
GEN_FILES = ['Grammars', 'PyComplexS', 'PyKernel', 'PyFuncs']
THEOREM_NAMES = ['kernelTokens_total', 'resolve_kernel_inverse', 'resolve_kernel_structure', 'complementary_rotate', 'kernel_all_rotations',
                 'compName_involutive', 'kernel_text_roundtrip', 'kernel_text_all_rotations', 'resolveKernel_budget']
THEOREMS = ['Dsd.C12.' + t for t in THEOREM_NAMES] + [
    # ComplexS.kernel_string as written in the source (Gen/PyComplexS.lean, regenerated on every run) is the model's kernelString
    'Dsd.PyObj.Kernel.exec_kernel_string', 'Dsd.PyObj.Kernel.view_kernel'] + ['Dsd.PyKernel.' + t for t in [
    # resolve_kernel_loops as written in the source (Gen/PyKernel.lean, regenerated on every run) equals the model on every forest whose
    # names are non-empty and do not begin with a star (all PIL names), and raises IndexError or agrees everywhere else
    'py_resolve_kernel_loops_eq_model', 'py_resolve_kernel_loops_eq_model_or_index_error', 'py_ok_model_ok',
    'model_differs_on_empty_name', 'model_differs_after_star_name', 'group_first_raises', 'kernel_forest_ok', 'py_resolve_kernel_inverse',
    'py_resolve_kernel_structure', 'py_kernel_all_rotations', 'py_kernel_text_roundtrip', 'py_kernel_string_roundtrip']]
ASSUMPTIONS = [
    'resolve_kernel_loops is transcribed statement by statement from the working tree (translator/pykernel.py -> Gen/PyKernel.lean) and proved equal to '
    'the token-level model Model/Kernel.lean for every fuel and every forest of non-empty names that do not begin with a star '
    '(PyKernel.py_resolve_kernel_loops_eq_model; the two excluded corners are kernel-checked differences); kernel_string is transcribed statement by statement from the working tree '
    '(Gen/PyComplexS.lean) and proved equal to the model\'s kernelString for every object whose sequence and structure are equally long '
    '(PyObj.Kernel.exec_kernel_string); the '
    'character level goes through the model of pyparsing over the regenerated PIL grammar (correspondence with the real parser)',
]
MANIFEST = {
    'text': 'Full on the model, at token AND character level. kernel_text_roundtrip: the text `name = kernel_string(seq, sst)` parses '
            '(model of pyparsing over the regenerated grammar) to the kernel-complex statement whose token forest the reader\'s '
            'translation maps back to exactly (seq, sst) - for every identifier name and every aligned, balanced, domain-level '
            'complementary description within the recursion budget; kernel_text_all_rotations: the same in every rotation. '
            'resolve_kernel_inverse: for every aligned, balanced, '
            'domain-level-complementary description - any nesting depth, any number of strands, empty loops - the reader\'s translation '
            'of the kernel token forest returns exactly (sequence, structure); resolve_kernel_structure (without complementarity the '
            'structure is still exact and only closing names may differ); complementary_rotate and kernel_all_rotations (the round trip '
            'holds in every rotation, for names whose complement operation is an involution: at most one trailing star - a '
            'machine-checked counterexample with a double star is kept in the file); kernelTokens_total; compName_involutive. The '
            'model of pyparsing is compared with the real parser on the same texts; the object-level clause (reading the kernel string '
            'back under the same name yields the same singleton) composes this with C14.read_kernels_sigma / read_pil_kernels_text on '
            'the model and is decided on the real reader for every complementary complex up to a bounded size in every rotation.',
    'note': 'Names with two trailing stars are outside the property (complement is not an involution on them); patterns deeper than the '
            'recursion budget (1000) are excluded with a kernel-checked counterexample; pyparsing itself is modelled, tied by correspondence.',
    'source_derived': 'STATEMENT LEVEL, FROM THE SOURCE (since batch 7): resolve_kernel_loops (translator/pykernel.py -> Gen/PyKernel.lean) and ComplexS.kernel_string (Gen/PyComplexS.lean) are transcribed from the working tree; PyKernel.py_resolve_kernel_loops_eq_model (equal to the model for every fuel and every forest of non-empty names that do not begin with a star; outside that the code raises IndexError or agrees: py_resolve_kernel_loops_eq_model_or_index_error, with kernel-checked witnesses for both corners), PyObj.Kernel.exec_kernel_string, and the transfers py_resolve_kernel_inverse, py_kernel_all_rotations, py_kernel_text_roundtrip, py_kernel_string_roundtrip (the str the translated kernel_string writes, parsed by the grammar model, is resolved by the translated resolve_kernel_loops back to sequence and structure); stream resolve_kernel_loops.source-derived.',
    'technique': 'Lean 4 joint invariant over the kernel stack machine and the bracket matcher, composed with symbolic execution of the grammar model; correspondence check; reader oracle',
}

# complex names: ordinary, and names that start with / are a statement keyword (legal identifiers)
CNAMES = ['K', 'X', 'c1', 'e10', 'strand1', 'state_A', 'lengthy', 'length', 'complexAB', 'domain-1', 'reaction_3', 'my-strand']
NAMES = ['a', 'b', 'c1', 't_2', 'x-y', '12', 'B', 'e5', 'inf', 'i', 'M', '_', 't-', '-h', '-', 'x--2', '-_-']


def run(res, proof):
    from dsdobjects import objectio, clear_singletons
    from dsdobjects.base_classes import DomainS, ComplexS, StrandS
    from dsdobjects.dsdparser import parse_pil_string
    rng = random.Random(res.seed * 86028121 + 12)
    quick = res.tier == 'quick'
    L = 6 if quick else 8
    structs = list(gen.wellformed_structures(L, 3))
    if quick:
        structs = [s for s in structs if len(s) <= 5 or rng.random() < 0.15]
    for _ in range(60 if quick else 500):
        structs.append(gen.random_structure(rng, rng.randint(6, 30 if quick else 120), pair_bias=rng.choice((0.5, 0.8)), depth_bias=rng.choice((0.3, 0.7))))
    # the process has used the reader before, configured for other classes (as a program reading two kinds of input does);
    # it is then configured for the library classes WITHOUT clearing in between: the round trip concerns those classes
    class _OtherD(DomainS): pass
    class _OtherC(ComplexS): pass
    objectio.set_io_objects(D=_OtherD, C=_OtherC)
    try:
        objectio.read_pil_line('length earlier_use = 7')
    except Exception:
        pass
    objectio.set_io_objects()
    lines, impl = [], []
    # copies of ONE strand with a pairing that is not symmetric (all rotations share the sequence, not the structure)
    homo = [(['a', 'a*', '+', 'a', 'a*'], '(.+.)'), (['a', 'a*', '+', 'a', 'a*', '+', 'a', 'a*'], '(.+.)+..'),
            (['t', 'a', 't*', '+', 't', 'a', 't*'], '..(+)..'), (['a', 'a*', '+', 'a', 'a*', '+', 'a', 'a*'], '.(+)(+).')]
    for s in [h[1] for h in homo] + structs:
        preset = [h[0] for h in homo if h[1] == s]
        names = preset[0] if preset else gen.complementary_label(s, rng, NAMES)
        clear_singletons(ComplexS); clear_singletons(DomainS)
        doms = {}
        for n in set(x for x in names if x != '+'):
            b = n[:-1] if n.endswith('*') else n
            if b not in doms:
                doms[b] = DomainS(b, 5)
                doms[b + '*'] = ~doms[b]
        # a live strand (composite domain) that happens to be named like one of the complex's domains, or like the
        # complement of one: domain names take precedence over strand names when the reader resolves a kernel string
        clear_singletons(StrandS)
        decoys = []
        if rng.random() < 0.4:
            used = [x for x in names if x != '+']
            for nm in {rng.choice(used), rng.choice(used)}:
                b_ = rng.choice(list(doms.values()))
                try:
                    decoys.append(StrandS([b_, ~b_, b_], name=(nm if rng.random() < 0.5 else (nm[:-1] if nm.endswith('*') else nm + '*'))))
                except Exception:
                    pass
            res.count('with_decoy_strands')
        for (rn, rs) in ref.rotations(names, s):
            rn, rs = list(rn), list(rs)
            res.evaluations += 1
            if '(' in s:
                res.nontriv((tuple(rn), tuple(rs)))
            clear_singletons(ComplexS)
            cname = rng.choice(CNAMES)
            try:
                if rng.random() < 0.15:
                    # automatically named, with an explicit (possibly empty) prefix: read back under the name it reports
                    c = ComplexS([doms[x] if x != '+' else '+' for x in rn], rs, prefix=rng.choice(['', 'k', 'cplx_']))
                    cname = c.name
                else:
                    c = ComplexS([doms[x] if x != '+' else '+' for x in rn], rs, name=cname)
                ks = c.kernel_string
                text = cname + ' = ' + ks
                back = objectio.read_pil_line(text)
                ok = (back is c) and [str(x) for x in back.sequence] == rn and list(back.structure) == rs
                obs = 'same object: %s, %s / %s' % (back is c, ' '.join(map(str, back.sequence)), ''.join(back.structure))
                del back
                # the kernel string of ANOTHER rotation, read while the object lives in this one: the same singleton
                if c.size > 1:
                    t0 = c.turns
                    c.turns = t0 + 1
                    ks_other = c.kernel_string
                    other_desc = ([str(x) for x in c.sequence], list(c.structure))
                    c.turns = t0
                    back2 = objectio.read_pil_line(cname + ' = ' + ks_other)
                    if back2 is not c:
                        ok = False
                        obs = 'the kernel string of the next rotation (%s) read under the same name is not the live object' % ks_other
                    del back2
                # a fresh registry: the description alone must come back
                del c
                clear_singletons(ComplexS)
                again = objectio.read_pil_line(text)
                ok = ok and [str(x) for x in again.sequence] == rn and list(again.structure) == rs
                del again
                if ok and len([x for x in rn if x == '+']) >= 1:
                    # what was written after the turn describes the TURNED representation (also when the dot-bracket string of
                    # the rotation happens to be the same): read into a fresh registry it gives that sequence and structure
                    clear_singletons(ComplexS)
                    turned = objectio.read_pil_line(cname + ' = ' + ks_other)
                    got_desc = ([str(x) for x in turned.sequence], list(turned.structure))
                    del turned
                    import gc as _gc
                    _gc.collect()          # objects built by the reader may need one collection to go (C05)
                    if got_desc != other_desc:
                        ok = False
                        obs = 'kernel string written after turns += 1: %s reads as %s / %s' % (ks_other, ' '.join(got_desc[0]), ''.join(got_desc[1]))
                        rn, rs = other_desc
            except Exception as e:
                ok, obs, ks, text = False, 'raised ' + type(e).__name__, '?', '?'
            if not ok:
                res.violation('kernel-roundtrip', {'seq': ' '.join(rn), 'sst': ''.join(rs), 'text': text}, obs, 'the same sequence, structure and object')
            # correspondence: kernel string and token-level translation
            l1 = 'kernel.string\t%s\t%s' % (' '.join(rn), ''.join(rs))
            lines.append(l1); impl.append('ok ' + ks)
            l2 = 'kernel.resolve\t' + PG.hx(text + '\n')
            try:
                [pl] = parse_pil_string(text + '\n')
                import copy as _copy
                pl0 = _copy.deepcopy(pl)
                se, ss = objectio.resolve_kernel_loops(pl[2])
                o2 = 'ok ' + ' '.join(se) + ' / ' + ''.join(ss)
                # the parsed statement is an input: it is not consumed, and interpreting it again gives the same answer
                se2, ss2 = objectio.resolve_kernel_loops(pl[2])
                if pl != pl0 or (list(se2), list(ss2)) != (list(se), list(ss)):
                    res.violation('resolve_kernel_loops:consumes-its-input', {'seq': ' '.join(rn), 'sst': ''.join(rs), 'text': text},
                                  'parsed statement afterwards: %r; second translation: %s / %s' % (pl, ' '.join(se2), ''.join(ss2)),
                                  'input untouched, same translation')
                # ... also through read_pil_line on the parsed (list) form, twice: the same singleton both times
                b1 = objectio.read_pil_line(pl)
                b2 = objectio.read_pil_line(pl)
                if b1 is not b2 or [str(x) for x in b2.sequence] != rn or list(b2.structure) != rs or pl != pl0:
                    res.violation('read_pil_line:parsed-statement-twice', {'seq': ' '.join(rn), 'sst': ''.join(rs), 'text': text},
                                  'second interpretation differs', 'the same singleton with the same description')
                del b1, b2
            except Exception as e:
                o2 = 'err ' + type(e).__name__
                res.violation('kernel-statement-twice:raises:' + type(e).__name__, {'seq': ' '.join(rn), 'sst': ''.join(rs), 'text': text},
                              type(e).__name__, 'the parsed statement can be interpreted repeatedly')
                e = None
            lines.append(l2); impl.append(o2)
        res.count('strands_%d' % (s.count('+') + 1))
        del decoys
    clear_singletons(StrandS)
    # non-complementary and degenerate patterns: correspondence of the translation only
    for _ in range(300 if quick else 5000):
        pat = PG.render_pattern(PG.rand_pattern(rng), PG.Layout(None))
        text = 'K = ' + pat + '\n'
        try:
            [pl] = parse_pil_string(text)
            se, ss = objectio.resolve_kernel_loops(pl[2])
            o2 = 'ok ' + ' '.join(se) + ' / ' + ''.join(ss)
        except Exception as e:
            o2 = 'err ' + ('ParseException' if type(e).__name__ == 'ParseException' else type(e).__name__)
        lines.append('kernel.resolve\t' + PG.hx(text)); impl.append(o2)
        res.evaluations += 1
    objectio.clear_io_objects()
    clear_singletons(ComplexS); clear_singletons(DomainS)
    res.rule = ('every well-formed structure up to %d positions / 3 strands (quick: sampled above 5 characters) with a random '
                'domain-level-complementary labelling over 17 PIL-legal base names (digits-only, e5, inf, _, x-y, leading / trailing / only dashes ... starred or not), '
                'every rotation; random structures up to 120 positions; random (not necessarily complementary) kernel patterns for the '
                'translation correspondence; non-trivial = at least one pair; distinct by (sequence, structure)' % L)
    try:
        model = core.run_driver(lines)
        core.compare_streams(res, 'kernel', lines, impl, model)
    except core.DriverBroken as e:
        proof.problem('driver', str(e))
    # resolve_kernel_loops as translated from the working tree (Gen/PyKernel.lean) against the real function, on parsed and malformed forests
    from .pykernel_stream import source_derived_pykernel
    core.run_stream(source_derived_pykernel, res, proof)
    for l in lines[:6]:
        res.sample(l if len(l) < 200 else l[:200])


def replay(body, repo):
    from dsdobjects import objectio
    objectio.set_io_objects()
    print(body['input']); print('required :', body.get('required'))
    return 1
