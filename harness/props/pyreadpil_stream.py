"""`read_pil` as translated from the working tree (translator/pyreaderfn2.py -> Gen/PyReadPil.lean) against the real function.

`source_derived_pyreadpil(res, proof)` runs the REAL `dsdobjects.objectio.read_pil` on generated PIL systems (harness/sysgen.py; with and
without an `ignore` list, with the library classes or user subclasses in the slots, also corrupted documents whose interpretation raises)
with `objectio.parse_pil_string` and `objectio.read_pil_line` monkeypatched to RECORD what they return: the parsed statement list and, per
interpreted statement, the outcome (an object as kind / name / rtype / sequence / identity / equality class, the raw line, or the exception),
for a domain also what `~obj` is and what `reverse_wc_complement` answers.  That table is the object world of the translated loop (driver op
`pyreadpil.run`, lean/DsdVerif/DriverReadPil.lean); the result dictionaries are compared key by key: names, identities (numbers of the
table), the sequences of the domain entries, the elements of the reaction sets, the raw lines in `other` (stream `read_pil.source-derived`).
"""
import os
import random
from .. import core, sysgen
from .pyreaderfn_stream import hx, enc_tree, to_lists

STREAM = 'read_pil.source-derived'


def optx(s):
    return '-' if s is None else hx(s)


def run_rp_driver(lines):
    wired = 'stepReadPil' in open(os.path.join(core.LEAN, 'DsdVerif', 'Driver.lean'), encoding='utf-8').read()
    if wired:
        return core.run_driver(lines)
    data = '\n'.join(lines) + '\n'
    rc, out, err = core.sh(['lake', 'env', 'lean', '--run', 'MainReadPil.lean'], cwd=core.LEAN, input=data, timeout=1200)
    if rc != 0:
        raise core.DriverBroken((out + err)[-3000:])
    got = out.split('\n')
    if got and got[-1] == '':
        got.pop()
    if len(got) != len(lines):
        raise core.DriverBroken('driver returned %d lines for %d requests; tail: %s' % (len(got), len(lines), got[-3:]))
    return got


def one_run(objectio, bc, text, ignore, slots, all_classes):
    """(request line, canonical result of the real read_pil)"""
    from dsdobjects.iupac_utils import reverse_wc_complement
    real_parse, real_line = objectio.parse_pil_string, objectio.read_pil_line
    rec = {'stmts': None, 'table': [], 'objs': [], 'cursor': 0}
    def ident(o):
        for i, x in enumerate(rec['objs']):
            if x is o:
                return i
        rec['objs'].append(o)
        return len(rec['objs']) - 1
    def key(o):
        for i, x in enumerate(rec['objs']):
            if type(x) is type(o) and x == o:
                return i
        return ident(o)
    cid = {k: i + 1 for i, k in enumerate(all_classes)}
    def show_obj(o):
        i = ident(o)
        return '%d,%d,%d,%s,%s,%s' % (i, key(o), cid[type(o)], hx(o.name), hx(getattr(o, 'rtype', None) or ''),
                                      optx(o.sequence if isinstance(o, bc.DomainS) else None))
    def parse(data):
        r = real_parse(data)
        rec['stmts'] = to_lists(r)
        return r
    def line(raw):
        # the index of the statement among the parsed ones (read_pil hands them over in order)
        stmts = rec['stmts']
        i = rec['cursor']
        while i < len(stmts) and stmts[i] != to_lists(raw):
            i += 1
        rec['cursor'] = i + 1
        try:
            o = real_line(raw)
        except Exception as e:
            rec['table'].append('%d|err:%s' % (i, type(e).__name__))
            raise
        if isinstance(o, list):
            rec['table'].append('%d|raw' % i)
        else:
            ent = '%d|obj:%s' % (i, show_obj(o))
            if isinstance(o, bc.DomainS):
                c = ~o
                ent += '|comp:' + show_obj(c)
                if o.sequence is not None:
                    try:
                        ent += '|rwc:' + hx(reverse_wc_complement(o.sequence, material='DNA'))
                    except KeyError:
                        ent += '|rwc:!'
            rec['table'].append(ent)
        return o
    objectio.set_io_objects(*slots)
    objectio.parse_pil_string, objectio.read_pil_line = parse, line
    try:
        try:
            out = objectio.read_pil(text, ignore=ignore)
            sd = lambda d: ','.join('%s:%d:%s' % (hx(n), ident(o), optx(o.sequence if isinstance(o, bc.DomainS) else None)) for n, o in d.items())
            ss = lambda s: ','.join(str(i) for i in sorted(ident(o) for o in s))
            impl = 'ok domains=%s;strands=%s;complexes=%s;macrostates=%s;det=%s;con=%s;other=%s' % (
                sd(out['domains']), sd(out['strands']), sd(out['complexes']), sd(out['macrostates']), ss(out['det_reactions']),
                ss(out['con_reactions']), ','.join('r' + ''.join(' ' + enc_tree(t) for t in to_lists(l)) for l in out['other']))
        except Exception as e:
            impl = 'err ' + type(e).__name__
            e = None
    finally:
        objectio.parse_pil_string, objectio.read_pil_line = real_parse, real_line
    g = [getattr(objectio, s) for s in ('Domain', 'Strand', 'Complex', 'Macrostate', 'Reaction')]
    sub = ' '.join('%d:%d' % (cid[a], cid[b]) for a in all_classes for b in all_classes if issubclass(a, b))
    if rec['stmts'] is None:
        rec.clear(); objectio.clear_io_objects()
        raise RuntimeError('the parser refused the document')
    stmts = rec['stmts']
    req = '\t'.join(['pyreadpil.run', ' '.join(str(cid[k]) for k in g), sub,
                     '-' if ignore is None else ' '.join('h' + hx(x) for x in ignore),
                     ' '.join(enc_tree(s) for s in stmts), ';'.join(rec['table'])])
    out = None
    rec.clear()
    objectio.clear_io_objects()
    return req, impl


def norm_sets(ans):
    """the elements of the two reaction sets in sorted order (a Python set has no order)"""
    if not ans.startswith('ok '):
        return ans
    parts = ans.split(';')
    for i, p in enumerate(parts):
        if p.startswith('det=') or p.startswith('con='):
            k, v = p.split('=', 1)
            parts[i] = k + '=' + ','.join(str(x) for x in sorted(int(y) for y in v.split(',') if y))
    return ';'.join(parts)


def source_derived_pyreadpil(res, proof):
    from dsdobjects import objectio, base_classes as bc, clear_singletons
    rng = random.Random(res.seed * 6700417 + 1517)
    quick = res.tier == 'quick'
    bases = [bc.DomainS, bc.StrandS, bc.ComplexS, bc.MacrostateS, bc.ReactionS]
    users = [type('RpUser%d' % i, (b,), {}) for i, b in enumerate(bases)]
    all_classes = bases + users
    kinds = ['dl-domain', 'sl-domain', 'composite-domain', 'strand-complex', 'kernel-complex', 'resting-macrostate', 'reaction']
    reqs, impl = [], []
    for n in range(60 if quick else 1500):
        S = sysgen.gen_system(rng)
        text = sysgen.render(S, rng)
        if rng.random() < 0.25:
            cs = sysgen.corruptions(S, rng, 3)
            if cs:
                text = rng.choice(cs)[1]
        ignore = None if rng.random() < 0.5 else rng.sample(kinds, rng.randint(0, 3))
        slots = [None if rng.random() < 0.7 else users[i] for i in range(5)]
        for k in all_classes:
            clear_singletons(k)
        try:
            req, out = one_run(objectio, bc, text, ignore, slots, all_classes)
        except Exception as e:      # the parser refused the document: nothing to compare
            res.count('pyreadpil:unparsed')
            objectio.clear_io_objects()
            continue
        reqs.append(req); impl.append(out)
        res.count('pyreadpil:raising' if out.startswith('err') else 'pyreadpil:documents')
        res.count('pyreadpil:interpreted_statements', req.split('\t')[5].count(';') + 1)
    for k in all_classes:
        clear_singletons(k)
    try:
        got = run_rp_driver(reqs)
    except core.DriverBroken as e:
        proof.problem('driver', 'pyreadpil stream: ' + str(e))
        return
    core.compare_streams(res, STREAM, reqs, impl, [norm_sets(a) for a in got])
    if reqs:
        res.sample(reqs[0][:300])
